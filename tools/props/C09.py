"""C09 — Polyline is an immutable value whose edits match a plain list-of-points model.

Correspondence: random histories of Polyline operations (each applied to results of earlier ones) are run on
the implementation; inside Coq the code-shaped model and the list specification are run on the same history
and compared with every returned value (vertices, edges, closedness, index maps, errors by class).
Oracle: an independent pure-Python list-of-points reference + the immutability / aliasing assertions
(those are validated here, not proved: aliasing is not a Gallina notion)."""
from fractions import Fraction as Fr

import numpy as np

from common import call_impl, coq_bool, coq_list, coq_nat, coq_Z, exn_name, fl, flv, q, qv

ID = "C09"
N_CASES = {"quick": 320, "thorough": 4000, "search": 3000}
SHARD = 80
RULE = ("seeded histories of 1-7 operations over a pool of polylines with 0-7 vertices (dyadic grid coordinates, "
        "power-of-two scales), every listed method, index arguments in range incl. insertion at 0..num_v with "
        "repeats and negative / > num_v roll amounts, plus the operations undefined for the polyline's kind; "
        "int64 vertex arrays with half-integer inserted points; call sequences on one object compared with fresh computations; exhaustive single insertions for n <= 3; non-trivial = the history's last call returned a value; distinct by hash")
TRUSTED = ["Coq 8.16.1 kernel, vm_compute for the correspondence evaluation",
           "axioms (Print Assumptions): none beyond the Coq stdlib Reals axioms",
           "coq/corr/K_C09.v agreement relation (exact comparison of coordinates, indices, closedness, exception class)",
           "immutability / aliasing clause: asserted by the harness on every call (flags.writeable, np.shares_memory, "
           "receiver bytes before/after), validated not proved",
           "NumPy (np.insert / np.roll / np.argsort semantics are pinned by the correspondence), vg"]
CASE_IMPORTS = [("PW.model", "M_polyline_base"), ("PW.model", "M_polyline_spec")]
# model = model / true of any implementation record: they pin the model's shape, they are not evidence for a clause
DEFINITIONAL = ["C09_constructor_refines_spec", "C09_flipped_refines_spec", "C09_join_refines_spec",
                "C09_errors_leave_unchanged", "C09_pool_only_grows"]
ASSUMPTIONS = ["models and theorems are about the value (vertex list, closedness); the clauses 'arrays are read-only', "
               "'independent of the source array', 'no method changes the polyline it is called on' and 'errors leave "
               "everything unchanged' are validated by the harness on the sampled histories only (write flags, attempted "
               "assignment, np.shares_memory, byte snapshots of every existing polyline before/after every call)",
               "with_insertions index vectors of two or more entries containing an index below -num_v are outside the "
               "property's domain and not modelled (NumPy wraps such an index twice or raises ValueError); they are "
               "generated and recorded but not judged",
               "with_insertions is modelled as repaired by /repo commit 9e3d823 (fixes/C09-insertion-index-maps.diff)",
               "vertex arrays of integer dtype are in the domain ('all vertex arrays'): the model holds the given points as "
               "reals, i.e. the behaviour with commit 9b9f8e2 (fixes/C09-integer-vertices.diff) (constructor stores a float64 copy); they are "
               "generated with non-integer inserted points (values are judged, the dtype itself is not)"]


# ---------------------------------------------------------------------------------------------------------
# (T) traced kernels: the REAL Polyline methods run on symbolic vertices (object arrays go through the constructor's
# np.copy unchanged); outputs are copies / permutations of the input symbols plus concrete integer tables.
def _E(n):
    return {"shape": [n, 3], "data": ["e"] * (3 * n)}


def _I(xs, shape=None):
    return {"shape": shape or [len(xs)], "dtype": "int64", "data": list(xs)}


def _vs(name, n, start=0):
    return "[%s]" % "; ".join("V3 %s%d %s%d %s%d" % (name, 3 * i, name, 3 * i + 1, name, 3 * i + 2) for i in range(start, start + n))


def _nats(xs):
    return "[%s]%%nat" % "; ".join(str(x) for x in xs)


_REFL = "Proof. intros. repeat split; reflexivity. Qed."


def kernels():
    from common import Kernel
    from polliwog import Polyline

    imp = [("PW.model", "M_polyline_base"), ("PW.model", "M_polyline_spec"), ("PW.model", "M_polyline_ops")]
    V3 = [[1.0, 5.0, 3.0], [4.0, 2.0, 6.0], [7.0, 8.0, 0.5]]
    V4 = V3 + [[-1.0, 9.0, 2.5]]
    ks = []

    def K(name, inputs, call, lemma, structure, **kw):
        ks.append(Kernel(name, inputs, call, lemma, imports=imp, expect_structure=structure, **kw))

    # edges, num_v / num_e / len for open and closed chains (concrete tables only)
    def edges(v):
        out = []
        for n in (0, 1, 3):
            for c in (False, True):
                p = Polyline(v[:n], is_closed=c)
                out.append((p.e, len(p), p.num_v, p.num_e))
        return tuple(out)

    def e_tab(n, c):
        e = ref_edges(n, c)
        return {"tuple": [_I([x for ab in e for x in ab], [len(e), 2]), n, n, len(e)]}

    def e_claim(n, c):
        e = ref_edges(n, c)
        b = "true" if c else "false"
        return ("edges_for %d %s = [%s]%%nat /\\ c_len (MkPolyline (F:=R) %s %s) = (%d, %d, %d)%%nat" % (
            n, b, "; ".join("(%d, %d)" % (a, bb) for a, bb in e), _vs("v", n), b, n, n, len(e)))

    K("edges", {"v": V3}, edges,
      "Lemma {T}_ok : forall {vars} : R,\n  " + " /\\\n  ".join(e_claim(n, c) for n in (0, 1, 3) for c in (False, True)) + ".\n" + _REFL,
      {"tuple": [e_tab(n, c) for n in (0, 1, 3) for c in (False, True)]})

    P3o = "(MkPolyline %s false)" % _vs("v", 3)
    P3c = "(MkPolyline %s true)" % _vs("v", 3)
    P4o = "(MkPolyline %s false)" % _vs("v", 4)
    P4c = "(MkPolyline %s true)" % _vs("v", 4)

    K("flipped", {"v": V3}, lambda v: (Polyline(v).flipped().v, Polyline(v, is_closed=True).flipped_if(True).v, Polyline(v).flipped_if(False).v),
      "Lemma {T}_ok : forall {vars} : R, {T} ROps {vars} = flatv (pv (c_flipped %s)) ++ flatv (pv (c_flipped %s)) ++ flatv (pv %s).\n%s"
      % (P3o, P3c, P3o, _REFL), {"tuple": [_E(3), _E(3), _E(3)]})

    def rolled(v):
        p = Polyline(v, is_closed=True)
        out = []
        for k in (1, -1, 4):
            r, m = p.rolled(k, ret_edge_mapping=True)
            out.append((r.v, m))
        return tuple(out)

    K("rolled", {"v": V3}, rolled,
      "Lemma {T}_ok : forall {vars} : R,\n"
      "  {T} ROps {vars} = fst (out_rolled (c_rolled %s 1)) ++ fst (out_rolled (c_rolled %s (-1))) ++ fst (out_rolled (c_rolled %s 4)) /\\\n"
      "  snd (out_rolled (c_rolled %s 1)) = %s /\\ snd (out_rolled (c_rolled %s (-1))) = %s /\\ snd (out_rolled (c_rolled %s 4)) = %s.\n%s"
      % (P3c, P3c, P3c, P3c, _nats([1, 2, 0]), P3c, _nats([2, 0, 1]), P3c, _nats([1, 2, 0]), _REFL),
      {"tuple": [{"tuple": [_E(3), _I([1, 2, 0])]}, {"tuple": [_E(3), _I([2, 0, 1])]}, {"tuple": [_E(3), _I([1, 2, 0])]}]})

    K("sliced", {"v": V4},
      lambda v: (Polyline(v).sliced_at_indices(1, 3).v, Polyline(v, is_closed=True).sliced_at_indices(1, 3).v,
                 Polyline(v, is_closed=True).sliced_at_indices(3, 2).v, Polyline(v, is_closed=True).sliced_at_indices(2, 2).v),
      "Lemma {T}_ok : forall {vars} : R, {T} ROps {vars} = out_poly (c_sliced %s 1 3) ++ out_poly (c_sliced %s 1 3) ++ "
      "out_poly (c_sliced %s 3 2) ++ out_poly (c_sliced %s 2 2).\n%s" % (P4o, P4c, P4c, P4c, _REFL),
      {"tuple": [_E(2), _E(2), _E(3), _E(4)]})

    K("sectioned", {"v": V4},
      lambda v: ([x.v for x in Polyline(v).sectioned(np.array([1, 2]))], [x.v for x in Polyline(v).sectioned(np.array([], dtype=np.int64), copy_vs=True)]),
      "Lemma {T}_ok : forall {vars} : R, {T} ROps {vars} = out_polys (c_sectioned %s [1; 2]%%Z) ++ out_polys (c_sectioned %s []).\n%s"
      % (P4o, P4o, _REFL), {"tuple": [{"tuple": [_E(2), _E(2), _E(2)]}, {"tuple": [_E(4)]}]})

    K("join", {"v": V4},
      lambda v: Polyline.join(Polyline(v[:1]), Polyline(v[1:]), Polyline(v[:0]), Polyline(v[2:4]), is_closed=True).v,
      "Lemma {T}_ok : forall {vars} : R, {T} ROps {vars} = out_poly (c_join [MkPolyline %s false; MkPolyline %s false; "
      "MkPolyline [] false; MkPolyline %s false] true).\n%s" % (_vs("v", 1), _vs("v", 3, 1), _vs("v", 2, 2), _REFL), _E(6))

    # with_insertions(ret_new_indices=True): distinct, repeated, both ends, index 0 + end + negative
    for name, idx, closed in (("insert_distinct", [2, 1], False), ("insert_repeated", [1, 1, 1], True),
                              ("insert_ends", [3, 0, 3], False), ("insert_zero_negative", [0, -1, 0], True)):
        kk = len(idx)
        ref = ref_step([(V3, closed)], {"op": "insert", "a": 0, "pts": [[0.0] * 3] * kk, "idx": idx})[0]

        def ins(v, q, idx=idx, closed=closed):
            r, om, im = Polyline(v, is_closed=closed).with_insertions(q, np.array(idx), ret_new_indices=True)
            return (r.v, om, im, Polyline(v, is_closed=closed).with_insertions(q, np.array(idx)).v)

        call = "(c_insert %s %s [%s]%%Z)" % (P3c if closed else P3o, _vs("q", kk), "; ".join("(%d)" % i for i in idx))
        K(name, {"v": V3, "q": [[10.0 + j, 0.25, -1.0 * j] for j in range(kk)]}, ins,
          "Lemma {T}_ok : forall {vars} : R,\n  {T} ROps {vars} = fst (out_insert %s) ++ fst (out_insert %s) /\\\n"
          "  snd (out_insert %s) = (%s, %s).\n%s" % (call, call, call, _nats(ref["orig"]), _nats(ref["ins"]), _REFL),
          {"tuple": [_E(3 + kk), _I(ref["orig"]), _I(ref["ins"]), _E(3 + kk)]})

    decide = ("repeat (match goal with\n"
              "    | |- context [Rleb ?a ?b] => first [rewrite (proj2 (Rleb_true a b)) by lra | rewrite (proj2 (Rleb_false a b)) by lra]\n"
              "    | |- context [Rltb ?a ?b] => first [rewrite (proj2 (Rltb_true a b)) by lra | rewrite (proj2 (Rltb_false a b)) by lra]\n"
              "    end; cbv iota)")
    K("bounding_box", {"v": V3}, lambda v: (lambda b: (b.origin, b.size))(Polyline(v).bounding_box),
      "Lemma {T}_ok : forall {vars} : R, {T}_path ROps {vars} -> {T} ROps {vars} = out_box (c_bbox ROps %s).\n"
      "Proof. intros {vars} Hpath. unfold {T}_path in Hpath; rops. path_facts Hpath. unfold {T}.\n"
      "  cbv [out_box c_bbox pv fold_left vmin vmax nmin nmax vsub vlist vx vy vz app]; rops.\n  %s.\n  reflexivity. Qed."
      % (P3o, decide), {"tuple": [{"shape": [3], "data": ["e"] * 3}, {"shape": [3], "data": ["e"] * 3}]}, perturb=1e-9)

    K("apex", {"v": V3, "a": [1.0, -2.0, 0.5]}, lambda v, a: Polyline(v).apex(a),
      "Lemma {T}_ok : forall {vars} : R, {T}_path ROps {vars} -> {T} ROps {vars} = out_point (c_apex ROps %s (V3 a0 a1 a2)).\n"
      "Proof. intros {vars} Hpath. unfold {T}_path in Hpath; rops. path_facts Hpath. unfold {T}.\n"
      "  cbv [out_point c_apex argmax pv map fold_left argmax_step vdot vx vy vz]; rops.\n  %s.\n  reflexivity. Qed."
      % (P3o, decide), {"shape": [3], "data": ["e"] * 3}, perturb=1e-9)

    # aligned_with through vg.project / vg.scale_factor: the traced comparisons are literally the model's two tests
    # (zero projection, sign of the scale factor); the model's extra NaN test (zero vector) is excluded by the path
    for name, a in (("aligned_with_flip", [-1.0, -2.0, 0.5]), ("aligned_with_keep", [1.0, 0.0, 0.5])):
        K(name, {"v": V3, "a": a}, lambda v, a: Polyline(v).aligned_with(a).v,
          "Lemma {T}_ok : forall {vars} : R, {T}_path ROps {vars} -> {T} ROps {vars} = out_poly (c_aligned ROps %s (V3 a0 a1 a2)).\n"
          "Proof. intros {vars} Hpath. unfold {T}_path in Hpath; rops. destruct Hpath as [H1 [H2 _]]. pose proof H1 as H1'.\n"
          "  assert (Hn : sqrt (a0 * a0 + a1 * a1 + a2 * a2) <> 0).\n"
          "  { intros Hn. apply Reqb_false in H1'. apply H1'. apply sqrt_eq_0 in Hn; [|nra].\n"
          "    assert (a0 = 0 /\\ a1 = 0 /\\ a2 = 0) as [-> [-> ->]] by (repeat split; nra). unfold Rdiv. ring. }\n"
          "  apply Reqb_false in Hn. unfold {T}.\n"
          "  cbv [out_poly c_aligned pclosed pv length Nat.ltb Nat.leb last vsub vnorm vnorm2 vdot vdivs vscale n0 vx vy vz];\n"
          "  rops. rewrite Hn, H1, H2. reflexivity. Qed." % P3o, _E(3), perturb=1e-9)

    # index_of_vertex: first of two matching rows; the tolerance literal the code uses is the double 1e-08
    atol = Fr(1e-08)
    ATOL = "(nfrac ROps (%d) (%d))" % (atol.numerator, atol.denominator)
    K("index_of_vertex", {"v": [V3[0], V3[1], V3[1], V3[2]], "p": V3[1]}, lambda v, p: Polyline(v, is_closed=True).index_of_vertex(p),
      "Lemma {T}_ok : forall {vars} : R, {T}_path ROps {vars} ->\n"
      "  c_index_of_at ROps %s %s (V3 p0 p1 p2) = Ok 1%%nat /\\ Rabs (%s - atol8 ROps) <= 1 / 100000000000000000000.\n"
      "Proof. intros {vars} Hpath. unfold {T}_path in Hpath. unfold nfrac in *. rops. path_facts Hpath.\n"
      "  rewrite ?Rminus_0_r in *. split.\n"
      "  - cbv [c_index_of_at pv map vclose vx vy vz flatnonzero]; unfold nfrac; rops.\n"
      "    %s.\n    reflexivity.\n"
      "  - unfold atol8, nfrac; rops. apply Rabs_le. lra. Qed." % (ATOL, P4c, ATOL, decide), 1, perturb=1e-12)
    return ks


# ---------------------------------------------------------------------------------------------------------
# reference: the same operations on an ordered list of points (pure Python, no NumPy)
class RefError(Exception):
    def __init__(self, names):
        self.names = names


def _wrap_ins(n, i):
    if 0 <= i <= n:
        return i
    if -n <= i < 0:
        return n + i
    return None


def ref_edges(n, closed):
    e = [[i, i + 1] for i in range(n - 1)]
    if closed and n > 0:
        e.append([n - 1, 0])
    return e


def ref_step(pool, op):
    """returns (result, new polylines).  polylines are (list of points, closed). Raises RefError(classes)."""
    k = op["op"]
    if k == "new":
        p = ([list(x) for x in op["v"]], op["closed"])
        return {"poly": p}, [p]
    if k == "join":
        parts = [pool[i] for i in op["parts"]]
        if not parts or any(c for _, c in parts):
            raise RefError(("ValueError",))
        p = ([x for v, _ in parts for x in v], op["closed"])
        return {"poly": p}, [p]
    v, closed = pool[op["a"]]
    n = len(v)
    if k == "flipped" or (k == "flipped_if" and op["c"]):
        p = (v[::-1], closed)
        return {"poly": p}, [p]
    if k == "flipped_if":
        return {"poly": (v, closed)}, [(v, closed)]
    if k == "rolled":
        if not closed:
            raise RefError(("ValueError",))
        kk = op["k"]
        p = ([v[(i + kk) % n] for i in range(n)], True)
        return {"poly": p, "emap": [(i + kk) % n for i in range(n)]}, [p]
    if k == "sliced":
        s, t = op["start"], op["stop"]
        if s < t:
            p = (v[s:t], False)
        elif closed:
            p = (v[s:] + v[:t], False)
        else:
            raise RefError(("ValueError",))
        return {"poly": p}, [p]
    if k == "sectioned":
        if closed:
            raise RefError(("NotImplementedError", "ValueError"))
        bps = op["bps"]
        starts, ends = [0] + bps, [b + 1 for b in bps] + [n]
        if any(e - s - 1 < 1 for s, e in zip(starts, ends)):
            raise RefError(("ValueError",))
        ps = [(v[s:e], False) for s, e in zip(starts, ends)]
        return {"polys": ps}, ps
    if k == "insert":
        if len(op["idx"]) >= 2 and any(i < -n for i in op["idx"]):
            # NumPy's multi-index path wraps such an index twice (silently) or fails with ValueError: outside the
            # property's domain and not modelled (M_polyline_spec.wrap_indices); nothing is judged
            raise RefError(("unmodelled",))
        idx = [_wrap_ins(n, i) for i in op["idx"]]
        if any(i is None for i in idx):
            raise RefError(("IndexError",))
        out, pos_orig = [], []
        placed = {}
        for pos in range(n + 1):
            for j, i in enumerate(idx):
                if i == pos:
                    placed[j] = len(out)
                    out.append(list(op["pts"][j]))
            if pos < n:
                pos_orig.append(len(out))
                out.append(v[pos])
        p = (out, closed)
        return {"poly": p, "orig": pos_orig, "ins": [placed[j] for j in range(len(idx))]}, [p]
    if k == "index_of":
        pt = op["p"]
        for i, x in enumerate(v):
            if all(abs(Fr(a) - Fr(b)) <= Fr(1, 10 ** 8) for a, b in zip(x, pt)):
                return {"index": i}, []
        raise RefError(("ValueError",))
    if k == "aligned":
        if closed:
            raise RefError(("ValueError",))
        if n < 2:
            return {"poly": (v, closed)}, [(v, closed)]
        d = sum((Fr(b) - Fr(a)) * Fr(w) for a, b, w in zip(v[0], v[-1], op["v"]))
        p = (v[::-1], closed) if d < 0 else (v, closed)
        return {"poly": p}, [p]
    if k == "apex":
        if n == 0:
            raise RefError(("ValueError",))
        best, bv = 0, None
        for i, x in enumerate(v):
            c = sum(Fr(a) * Fr(w) for a, w in zip(x, op["axis"]))
            if bv is None or c > bv:
                best, bv = i, c
        return {"point": v[best]}, []
    if k == "bbox":
        if n == 0:
            return {"box": None}, []
        lo = [min(Fr(x[j]) for x in v) for j in range(3)]
        hi = [max(Fr(x[j]) for x in v) for j in range(3)]
        return {"box": [[float(a) for a in lo], [float(b - a) for a, b in zip(lo, hi)]]}, []
    if k == "len":
        return {"len": [n, n, n if closed else max(n - 1, 0)]}, []
    raise AssertionError(k)


# ---------------------------------------------------------------------------------------------------------
def _pt(rng, scale):
    if scale is None:       # integer-valued history (vertex arrays of dtype int64)
        return [float(rng.randint(-8, 8)) for _ in range(3)]
    return [rng.randint(-8, 8) / 2 * scale for _ in range(3)]


def _new_op(rng, scale, nmax=7, closed=None):
    n = rng.choice([0, 1, 2, 3, 3, 4, 4, 5, 6, nmax])
    v = [_pt(rng, scale) for _ in range(n)]
    if n >= 2 and rng.random() < 0.25:
        v[rng.randrange(n)] = list(v[rng.randrange(n)])  # repeated vertex
    op = {"op": "new", "v": v, "closed": rng.random() < 0.5 if closed is None else closed}
    if scale is None:
        op["int"] = True
    return op


def _dot0_ok(e, w):
    """aligned_with decides on the sign of extent.vector: keep away from rounding-level ties (exactly zero only
    when every product is zero, which is exact in binary64 too)."""
    d = sum(Fr(a) * Fr(b) for a, b in zip(e, w))
    return d != 0 or all(a == 0 or b == 0 for a, b in zip(e, w))


def _gen_op(rng, pool, scale, malformed):
    """one operation on the current pool (pool: list of (v, closed) from the reference)"""
    a = rng.randrange(len(pool))
    v, closed = pool[a]
    n = len(v)
    kinds = ["flipped", "flipped_if", "rolled", "sliced", "sectioned", "join", "insert", "insert", "index_of", "aligned",
             "apex", "bbox", "len", "new"]
    k = rng.choice(kinds)
    if k == "new":
        return _new_op(rng, scale)
    if k == "flipped":
        return {"op": k, "a": a}
    if k == "flipped_if":
        return {"op": k, "a": a, "c": rng.random() < 0.5}
    if k == "len" or k == "bbox":
        return {"op": k, "a": a}
    if k == "rolled":
        if not closed and not malformed:
            cl = [i for i, p in enumerate(pool) if p[1]]
            if not cl:
                return {"op": "len", "a": a}
            a = rng.choice(cl)
            n = len(pool[a][0])
        return {"op": k, "a": a, "k": rng.choice([0, 1, -1, n, n + 1, -n - 2, rng.randint(-3 * n - 3, 3 * n + 3)])}
    if k == "sliced":
        s, t = rng.randint(0, n), rng.randint(0, n)
        if not closed and not malformed and t <= s:
            s, t = min(s, t), max(s, t)
            if s == t:
                if t < n:
                    t += 1
                elif s > 0:
                    s -= 1
                else:
                    return {"op": "len", "a": a}
        return {"op": k, "a": a, "start": s, "stop": t}
    if k == "sectioned":
        if closed and not malformed:
            op = [i for i, p in enumerate(pool) if not p[1] and len(p[0]) >= 2]
            if not op:
                return {"op": "len", "a": a}
            a = rng.choice(op)
            v, closed = pool[a]
            n = len(v)
        if malformed or n < 2:
            bps = [rng.randint(-1, n + 1) for _ in range(rng.randint(0, 3))]
        else:
            cand = list(range(1, n - 1))
            rng.shuffle(cand)
            bps = sorted(cand[:rng.randint(0, min(3, len(cand)))])
        return {"op": k, "a": a, "bps": bps, "copy": rng.random() < 0.5}
    if k == "join":
        if malformed:
            parts = [rng.randrange(len(pool)) for _ in range(rng.randint(0, 3))]
        else:
            op = [i for i, p in enumerate(pool) if not p[1]]
            if not op:
                return {"op": "len", "a": a}
            parts = [rng.choice(op) for _ in range(rng.randint(1, 3))]
        return {"op": k, "parts": parts, "closed": rng.random() < 0.5}
    if k == "insert":
        kk = rng.choice([0, 1, 1, 2, 2, 3, 4])
        u = rng.random()
        if u < 0.25:
            idx = [rng.choice([0, n]) for _ in range(kk)]              # both ends
        elif u < 0.5 and kk >= 2:
            r = rng.randint(0, n)
            idx = [r if rng.random() < 0.7 else rng.randint(0, n) for _ in range(kk)]   # repeats
        else:
            idx = [rng.randint(0, n) for _ in range(kk)]
        if malformed and kk >= 1 and rng.random() < 0.6:
            # out of range: above num_v (IndexError), below -num_v (IndexError for one index; for two or more NumPy wraps
            # twice or raises ValueError: recorded, not modelled, not judged)
            idx[rng.randrange(kk)] = n + rng.randint(1, 3) if rng.random() < 0.5 else -n - rng.randint(1, 4)
        elif rng.random() < 0.08 and kk >= 1:
            idx[rng.randrange(kk)] = -n                                                # the lowest valid position
        elif rng.random() < 0.1:
            idx = [i - n if (i > 0 and rng.random() < 0.5) else i for i in idx]    # Python's negative positions
        # on integer (dtype int64) vertex arrays the inserted points are half-integers: the list model keeps them exactly
        return {"op": k, "a": a, "pts": [_pt(rng, 1.0 if scale is None else scale) for _ in range(kk)], "idx": idx}
    if k == "index_of":
        if n and rng.random() < 0.7:
            p = list(v[rng.randrange(n)])
            u = rng.random()
            if u < 0.2:
                p[rng.randrange(3)] += 2.0 ** -30      # within atol = 1e-8
            elif u < 0.35:
                p[rng.randrange(3)] += 2.0 ** -20      # outside atol
        else:
            p = _pt(rng, scale)
        return {"op": k, "a": a, "p": p}
    if k == "aligned":
        if closed and not malformed:
            op = [i for i, p in enumerate(pool) if not p[1]]
            if not op:
                return {"op": "len", "a": a}
            a = rng.choice(op)
            v, closed = pool[a]
            n = len(v)
        for _ in range(20):
            w = [float(rng.randint(-4, 4)) for _ in range(3)] if rng.random() < 0.8 else [0.0, 0.0, 0.0]
            if rng.random() < 0.2:
                w = [0.0, 0.0, 0.0]
                w[rng.randrange(3)] = float(rng.choice([-2, 1, 3]))
            if n < 2 or _dot0_ok([b - x for x, b in zip(v[0], v[-1])], w):
                return {"op": k, "a": a, "v": w}
        return {"op": "len", "a": a}
    if k == "apex":
        return {"op": k, "a": a, "axis": [float(rng.randint(-3, 3)) for _ in range(3)]}
    raise AssertionError(k)


def _history(rng, tier, malformed, length, integer=False, same_object=False):
    scale = 2.0 ** rng.randint(-10, 10) if tier != "thorough" else 2.0 ** rng.randint(-30, 30)
    if integer:
        scale = None
    ops = [_new_op(rng, scale)]
    if same_object:
        while len(ops[0]["v"]) < 2:
            ops = [_new_op(rng, scale)]
    elif rng.random() < 0.6:
        ops.append(_new_op(rng, scale))
    pool = []
    for o in ops:
        pool.extend(ref_step(pool, o)[1])
    for step in range(length):
        # same_object: every call is made on the first Polyline object, edits interleaved with queries
        o = _gen_op(rng, pool[:1] if same_object else pool, scale, malformed and rng.random() < 0.5)
        if same_object:
            if o["op"] == "new":
                o = {"op": "len", "a": 0}
            if step % 2 == 1:
                q = rng.choice(["observe", "len", "bbox", "index_of", "apex"])
                v0 = pool[0][0]
                o = {"observe": {"op": "flipped_if", "a": 0, "c": False}, "len": {"op": "len", "a": 0},
                     "bbox": {"op": "bbox", "a": 0},
                     "index_of": {"op": "index_of", "a": 0, "p": list(v0[rng.randrange(len(v0))])},
                     "apex": {"op": "apex", "a": 0, "axis": [float(rng.randint(-3, 3)) for _ in range(3)]}}[q]
        ops.append(o)
        try:
            pool.extend(ref_step(pool, o)[1])
        except RefError:
            pass
    return ops


def _exhaustive_inserts(nmax, kmax):
    """every insertion index vector of length <= kmax over 0..n on n <= nmax vertices, open and closed"""
    import itertools
    out = []
    for n in range(nmax + 1):
        v = [[float(i + 1), 0.0, float(-i)] for i in range(n)]
        for k in range(kmax + 1):
            for idx in itertools.product(range(n + 1), repeat=k):
                out.append((v, list(idx)))
    return out


def gen_cases(rng, n, tier):
    cases = []
    # exhaustive single operations on small polylines (insertions at every position, every roll amount)
    ex = _exhaustive_inserts(3, 2 if tier == "quick" else 3)
    step = 4
    for s in range(0, len(ex), step):
        chunk = ex[s:s + step]
        ops = [{"op": "new", "v": v, "closed": (s + j) % 2 == 0} for j, (v, idx) in enumerate(chunk)]
        ops += [{"op": "insert", "a": j, "pts": [[10.0 + t, 0.5, 0.25] for t in range(len(idx))], "idx": idx}
                for j, (v, idx) in enumerate(chunk)]
        cases.append({"kind": "exhaustive_insert", "ops": ops})
    # integer (int64) vertex array + non-integer inserted point, then queries and edits on the result
    cases.append({"kind": "int64_vertices_fractional_insert", "ops": [
        {"op": "new", "v": [[0.0, 0.0, 0.0], [2.0, 0.0, 0.0], [2.0, 2.0, 0.0]], "closed": False, "int": True},
        {"op": "insert", "a": 0, "pts": [[0.5, 0.5, 0.5]], "idx": [1]},
        {"op": "bbox", "a": 1}, {"op": "flipped", "a": 1}, {"op": "index_of", "a": 1, "p": [0.5, 0.5, 0.5]},
        {"op": "new", "v": [[1.0, 1.0, 1.0]], "closed": False},
        {"op": "join", "parts": [0, 3], "closed": True}, {"op": "insert", "a": 4, "pts": [[0.25, 0.0, -0.5]], "idx": [0]}]})
    # insertion indices at and beyond the edge of the valid range -n..n (beyond: IndexError, or not modelled)
    v3 = [[1.0, 0.0, 0.0], [2.0, 0.0, -1.0], [3.0, 0.0, -2.0]]
    ops = [{"op": "new", "v": v3, "closed": False}]
    for idx in ([-3], [-3, 3], [-1, -3, -2], [-4], [4], [4, 0], [0, 5, 1], [-4, 0], [-7, 0, 0], [0, -5], [-4, -4], [2]):
        ops.append({"op": "insert", "a": 0, "pts": [[10.0 + t, 0.5, 0.25] for t in range(len(idx))], "idx": idx})
    ops.append({"op": "len", "a": 0})
    cases.append({"kind": "insert_index_range_edges", "ops": ops})
    for nn in range(0, 6):
        ops = [{"op": "new", "v": [[float(i), 1.0, 0.0] for i in range(nn)], "closed": True}]
        ops += [{"op": "rolled", "a": 0, "k": kk} for kk in range(-2 * nn - 2, 2 * nn + 3)]
        ops += [{"op": "sliced", "a": 0, "start": s, "stop": t} for s in range(nn + 1) for t in range(nn + 1)]
        cases.append({"kind": "exhaustive_roll_slice", "ops": ops})
        ops = [{"op": "new", "v": [[float(i), 1.0, 0.0] for i in range(nn)], "closed": False}]
        ops += [{"op": "sliced", "a": 0, "start": s, "stop": t} for s in range(nn + 1) for t in range(s + 1, nn + 1)]
        ops += [{"op": "sectioned", "a": 0, "bps": [b], "copy": False} for b in range(0, nn)]
        ops += [{"op": "sectioned", "a": 0, "bps": [], "copy": True}, {"op": "len", "a": 0}, {"op": "bbox", "a": 0}]
        cases.append({"kind": "exhaustive_slice_section", "ops": ops})
    while len(cases) < n:
        u = rng.random()
        if u < 0.62:
            cases.append({"kind": "history", "ops": _history(rng, tier, False, rng.randint(1, 6))})
        elif u < 0.78:
            cases.append({"kind": "history_long", "ops": _history(rng, tier, False, rng.randint(7, 12))})
        elif u < 0.93:
            cases.append({"kind": "history_undefined_ops", "ops": _history(rng, tier, True, rng.randint(1, 6))})
        elif u < 0.96:
            cases.append({"kind": "history_int64_vertices", "ops": _history(rng, tier, False, rng.randint(2, 8), integer=True)})
        else:
            cases.append({"kind": "same_object_edits_and_queries",
                          "ops": _history(rng, tier, False, rng.randint(6, 14), integer=rng.random() < 0.3, same_object=True)})
    return cases


# ---------------------------------------------------------------------------------------------------------
def _snap(pl):
    return (pl.v.tobytes(), pl.v.shape, pl.e.tobytes(), pl.e.shape, pl.is_closed)


def _obs_poly(pl):
    return {"v": pl.v.tolist(), "closed": bool(pl.is_closed), "e": pl.e.tolist()}


def _value_checks(pl):
    """read-only flags, dtypes, shapes of one Polyline; returns a list of complaints"""
    bad = []
    if pl.v.flags.writeable:
        bad.append("v is writeable")
    if pl.e.flags.writeable:
        bad.append("e is writeable")
    if pl.v.dtype not in (np.float64, np.int64) or pl.v.ndim != 2 or pl.v.shape[1] != 3:   # values are judged, not the dtype
        bad.append("v has dtype/shape %s %s" % (pl.v.dtype, pl.v.shape))
    if pl.e.dtype != np.int64 or pl.e.ndim != 2 or pl.e.shape[1] != 2:
        bad.append("e has dtype/shape %s %s" % (pl.e.dtype, pl.e.shape))
    try:
        pl.v[...] = 0
        bad.append("assignment into v succeeded")
    except ValueError:
        pass
    try:
        pl.e[...] = 0
        bad.append("assignment into e succeeded")
    except ValueError:
        pass
    return bad


def _quick(p, op):
    """one call, JSON-able result (same layout as run_impl's "res")"""
    k = op["op"]

    def go():
        if k == "flipped":
            return {"poly": _obs_poly(p.flipped())}
        if k == "flipped_if":
            return {"poly": _obs_poly(p.flipped_if(op["c"]))}
        if k == "rolled":
            r, emap = p.rolled(op["k"], ret_edge_mapping=True)
            return {"poly": _obs_poly(r), "emap": [int(x) for x in emap]}
        if k == "sliced":
            return {"poly": _obs_poly(p.sliced_at_indices(op["start"], op["stop"]))}
        if k == "sectioned":
            return {"polys": [_obs_poly(x) for x in p.sectioned(np.array(op["bps"], dtype=np.int64), copy_vs=op["copy"])]}
        if k == "insert":
            r, om, im = p.with_insertions(np.array(op["pts"], dtype=np.float64).reshape(-1, 3),
                                          np.array(op["idx"], dtype=np.int64), ret_new_indices=True)
            return {"poly": _obs_poly(r), "orig": [int(x) for x in om], "ins": [int(x) for x in im]}
        if k == "index_of":
            return {"index": int(p.index_of_vertex(np.array(op["p"])))}
        if k == "aligned":
            with np.errstate(all="ignore"):
                return {"poly": _obs_poly(p.aligned_with(np.array(op["v"])))}
        if k == "apex":
            return {"point": p.apex(np.array(op["axis"])).tolist()}
        if k == "bbox":
            b = p.bounding_box
            return {"box": None if b is None else [np.asarray(b.origin).tolist(), np.asarray(b.size).tolist()]}
        if k == "len":
            return {"len": [len(p), int(p.num_v), int(p.num_e)]}
        raise AssertionError(k)

    try:
        return go()
    except Exception as e:  # noqa
        return {"raise": exn_name(e)}


def run_impl(c):
    from polliwog import Polyline

    pool, out, ref_pool, recipes = [], [], [], {}
    for op in c["ops"]:
        k = op["op"]
        rec = {"complaints": []}
        recv = [pool[i] if i < len(pool) else None for i in ([op["a"]] if "a" in op else op.get("parts", []))]
        if any(x is None for x in recv):
            # an earlier call failed where the list model produces a polyline: this step has no receiver
            rec["res"] = {"raise": "OtherError", "msg": "receiver missing after an earlier failure"}
            try:
                m = ref_step(ref_pool, op)[1]
                ref_pool.extend(m)
                pool.extend([None] * len(m))
            except RefError:
                pass
            out.append(rec)
            continue
        before = [_snap(p) for p in pool if p is not None]
        news = []
        try:
            if k == "new":
                src = np.array(op["v"], dtype=np.int64 if op.get("int") else np.float64).reshape(-1, 3)
                keep = src.copy()
                pl = Polyline(src, is_closed=op["closed"])
                if np.shares_memory(pl.v, src):
                    rec["complaints"].append("constructor: v shares memory with the source array")
                src += 1  # the caller's array stays the caller's
                if not np.array_equal(pl.v, keep):
                    rec["complaints"].append("constructor: polyline changed when the source array was modified")
                rec["res"] = {"poly": _obs_poly(pl)}
                news = [pl]
                recipes[len(pool)] = op
            elif k == "join":
                pl = Polyline.join(*recv, is_closed=op["closed"])
                rec["res"] = {"poly": _obs_poly(pl)}
                news = [pl]
                if any(np.shares_memory(pl.v, x.v) for x in recv):
                    rec["complaints"].append("join: the result shares memory with one of the pieces")
            else:
                p = recv[0]
                if k == "flipped":
                    r = p.flipped()
                elif k == "flipped_if":
                    r = p.flipped_if(op["c"])
                elif k == "rolled":
                    r, emap = p.rolled(op["k"], ret_edge_mapping=True)
                    r2 = p.rolled(op["k"])
                    if not (np.array_equal(r.v, r2.v) and r2.is_closed == r.is_closed):
                        rec["complaints"].append("rolled: result depends on ret_edge_mapping")
                    segs_ok = np.array_equal(p.segments[emap], r.segments) if p.num_v else True
                    rec["res"] = {"poly": _obs_poly(r), "emap": [int(x) for x in emap], "segs_ok": bool(segs_ok)}
                elif k == "sliced":
                    r = p.sliced_at_indices(op["start"], op["stop"])
                elif k == "sectioned":
                    rs = p.sectioned(np.array(op["bps"], dtype=np.int64), copy_vs=op["copy"])
                    rec["res"] = {"polys": [_obs_poly(x) for x in rs]}
                    news = list(rs)
                    for x in rs:
                        if np.shares_memory(x.v, p.v):
                            rec["complaints"].append("sectioned(copy_vs=%r): a section shares memory with the receiver" % op["copy"])
                elif k == "insert":
                    pts = np.array(op["pts"], dtype=np.float64).reshape(-1, 3)
                    idx = np.array(op["idx"], dtype=np.int64)
                    pts0, idx0 = pts.copy(), idx.copy()
                    r2 = call_impl(lambda: p.with_insertions(pts, idx))
                    r, om, im = p.with_insertions(pts, idx, ret_new_indices=True)
                    if isinstance(r2, dict) or not np.array_equal(r.v, r2.v) or r.is_closed != r2.is_closed:
                        rec["complaints"].append("with_insertions: polyline depends on ret_new_indices")
                    if not (np.array_equal(pts, pts0) and np.array_equal(idx, idx0)):
                        rec["complaints"].append("with_insertions modified its arguments")
                    rec["res"] = {"poly": _obs_poly(r), "orig": [int(x) for x in om], "ins": [int(x) for x in im]}
                elif k == "index_of":
                    # explicit tolerances: the model's c_index_of_at is generic in atol, the theorems and the Coq-evaluated
                    # correspondence tie the default form; the other forms are judged here against the definition itself
                    # (first row within atol of the point in every coordinate, ValueError when there is none)
                    qp = np.array(op["p"], dtype=np.float64)
                    for A in (1e-8, 0.0, 0.75):
                        hits = [i for i, row in enumerate(np.asarray(p.v)) if all(abs(float(x) - float(y)) <= A for x, y in zip(row, qp))]
                        try:
                            got = int(p.index_of_vertex(qp, atol=A))
                        except ValueError:
                            got = None
                        if got != (hits[0] if hits else None):
                            rec["complaints"].append("index_of_vertex(atol=%r) gave %r, the first vertex within atol is %r" % (
                                A, got, hits[0] if hits else None))
                    rec["res"] = {"index": int(p.index_of_vertex(np.array(op["p"])))}
                elif k == "aligned":
                    with np.errstate(all="ignore"):
                        r = p.aligned_with(np.array(op["v"]))
                elif k == "apex":
                    rec["res"] = {"point": p.apex(np.array(op["axis"])).tolist()}
                elif k == "bbox":
                    b = p.bounding_box
                    rec["res"] = {"box": None if b is None else [np.asarray(b.origin).tolist(), np.asarray(b.size).tolist()]}
                elif k == "len":
                    rec["res"] = {"len": [len(p), int(p.num_v), int(p.num_e)]}
                if "res" not in rec:
                    rec["res"] = {"poly": _obs_poly(r)}
                # the same call once more on the same (possibly long-lived, already queried and edited) object and
                # on a Polyline freshly built from the same input: all three must agree (caching / aliasing)
                if op["a"] in recipes:
                    src_op = recipes[op["a"]]
                    fresh = Polyline(np.array(src_op["v"], dtype=np.int64 if src_op.get("int") else np.float64).reshape(-1, 3),
                                     is_closed=src_op["closed"])
                    again, ffresh = _quick(p, op), _quick(fresh, op)
                    if again != ffresh:
                        rec["complaints"].append("%s on a used object differs from a fresh computation: %r vs %r" % (k, again, ffresh))
                    first = {kk: vv for kk, vv in rec["res"].items() if kk != "segs_ok"}
                    if again != first:
                        rec["complaints"].append("%s: a second identical call returns something else: %r vs %r" % (k, again, first))
                    if _obs_poly(p) != _obs_poly(fresh):
                        rec["complaints"].append("v / e / is_closed of a used object differ from a freshly built one")
                if k in ("flipped", "flipped_if", "rolled", "sliced", "insert", "aligned"):
                    news = [r]
                    if r is not p and np.shares_memory(r.v, p.v):
                        rec["complaints"].append("%s: result shares memory with the receiver" % k)
        except Exception as e:  # noqa
            rec["res"] = {"raise": exn_name(e), "msg": str(e)[:160]}
            news = []
        for x in news:
            rec["complaints"].extend("%s result: %s" % (k, s) for s in _value_checks(x))
        after = [_snap(p) for p in pool if p is not None]
        if before != after:
            rec["complaints"].append("%s changed an existing polyline" % k)
        # keep pool positions aligned with the list model even when the implementation failed unexpectedly
        try:
            expected_new = len(ref_step(ref_pool, op)[1])
            ref_pool.extend(ref_step(ref_pool, op)[1])
        except RefError as e:
            expected_new = 0
            if e.names == ("unmodelled",):
                news = []      # keep pool positions aligned with the models, which append nothing here
                rec["unmodelled"] = True
        if "raise" in rec["res"] and expected_new:
            news = [None] * expected_new
        pool.extend(news)
        out.append(rec)
    return {"steps": out}


# ---------------------------------------------------------------------------------------------------------
def _op_term(op):
    k = op["op"]
    pts = lambda ps: coq_list(qv(p) for p in ps)  # noqa
    if k == "new":
        return "OpNew %s %s" % (pts(op["v"]), coq_bool(op["closed"]))
    if k == "flipped":
        return "OpFlipped %s" % coq_nat(op["a"])
    if k == "flipped_if":
        return "OpFlippedIf %s %s" % (coq_nat(op["a"]), coq_bool(op["c"]))
    if k == "rolled":
        return "OpRolled %s %s" % (coq_nat(op["a"]), coq_Z(op["k"]))
    if k == "sliced":
        return "OpSliced %s %s %s" % (coq_nat(op["a"]), coq_nat(op["start"]), coq_nat(op["stop"]))
    if k == "sectioned":
        return "OpSectioned %s %s" % (coq_nat(op["a"]), coq_list(coq_Z(b) for b in op["bps"]))
    if k == "join":
        return "OpJoin %s %s" % (coq_list(coq_nat(i) for i in op["parts"]), coq_bool(op["closed"]))
    if k == "insert":
        return "OpInsert %s %s %s" % (coq_nat(op["a"]), pts(op["pts"]), coq_list(coq_Z(i) for i in op["idx"]))
    if k == "index_of":
        return "OpIndexOf %s %s" % (coq_nat(op["a"]), qv(op["p"]))
    if k == "aligned":
        return "OpAligned %s %s" % (coq_nat(op["a"]), qv(op["v"]))
    if k == "apex":
        return "OpApex %s %s" % (coq_nat(op["a"]), qv(op["axis"]))
    if k == "bbox":
        return "OpBBox %s" % coq_nat(op["a"])
    if k == "len":
        return "OpLen %s" % coq_nat(op["a"])
    raise AssertionError(k)


def _opoly(p):
    return "(OPoly %s %s %s)" % (coq_list(flv(x) for x in p["v"]), coq_bool(p["closed"]),
                                 coq_list("(%s, %s)" % (coq_nat(a), coq_nat(b)) for a, b in p["e"]))


def _nats(xs):
    # a negative index returned by the code can never agree with the model's position: encode it out of range
    return coq_list(coq_nat(x if x >= 0 else 10 ** 6) for x in xs)


def _obs_term(r):
    if "raise" in r:
        return "XRaise %s" % r["raise"]
    if "emap" in r:
        return "XRolled %s %s" % (_opoly(r["poly"]), _nats(r["emap"]))
    if "orig" in r:
        return "XInsert %s %s %s" % (_opoly(r["poly"]), _nats(r["orig"]), _nats(r["ins"]))
    if "poly" in r:
        return "XPoly %s" % _opoly(r["poly"])
    if "polys" in r:
        return "XPolys %s" % coq_list(_opoly(p) for p in r["polys"])
    if "index" in r:
        return "XIndex %s" % coq_nat(r["index"])
    if "point" in r:
        return "XPoint %s" % flv(r["point"])
    if "box" in r:
        return "XBox None" if r["box"] is None else "XBox (Some (%s, %s))" % (flv(r["box"][0]), flv(r["box"][1]))
    if "len" in r:
        return "XLen %s %s %s" % tuple(coq_nat(x) for x in r["len"])
    raise AssertionError(r)


def coq_case(c, o):
    return "CHist %s %s" % (coq_list("(%s)" % _op_term(op) for op in c["ops"]),
                            coq_list("(%s)" % _obs_term(s["res"]) for s in o["steps"]))


# ---------------------------------------------------------------------------------------------------------
def _same_poly(ref, got):
    v, closed = ref
    if got["closed"] != closed:
        return "closedness %r, list model says %r" % (got["closed"], closed)
    if got["v"] != [list(map(float, x)) for x in v]:
        return "vertices %r, list model says %r" % (got["v"], v)
    if got["e"] != ref_edges(len(v), closed):
        return "edges %r do not join consecutive vertices (+ closing edge iff closed)" % (got["e"],)
    return None


def oracle(c, o):
    """The property text on the implementation's own results: every call agrees with the same operation on a plain
    list of points; undefined operations raise ValueError / NotImplementedError; nothing existing changes."""
    pool = []
    for n_step, (op, s) in enumerate(zip(c["ops"], o["steps"])):
        where = "step %d %s: " % (n_step, {k: v for k, v in op.items() if k not in ("v", "pts")})
        if s["complaints"]:
            return where + "; ".join(s["complaints"])
        r = s["res"]
        try:
            want, news = ref_step(pool, op)
        except RefError as e:
            if e.names == ("unmodelled",):
                continue
            if "raise" not in r:
                return where + "undefined operation returned a value instead of raising %s" % "/".join(e.names)
            if r["raise"] not in e.names:
                return where + "raised %s (%s), the property demands %s" % (r["raise"], r.get("msg"), "/".join(e.names))
            continue
        if "raise" in r:
            return where + "raised %s (%s) but the list model gives %s" % (r["raise"], r.get("msg"), _short(want))
        for key in ("poly",):
            if key in want:
                f = _same_poly(want["poly"], r["poly"]) if "poly" in r else "no polyline returned"
                if f:
                    return where + f
        if "polys" in want:
            if "polys" not in r or len(r["polys"]) != len(want["polys"]):
                return where + "number of sections differs from the list model"
            for a, b in zip(want["polys"], r["polys"]):
                f = _same_poly(a, b)
                if f:
                    return where + f
        if "emap" in want:
            if r.get("emap") != want["emap"]:
                return where + "edge mapping %r, list model says %r" % (r.get("emap"), want["emap"])
            if not r.get("segs_ok"):
                return where + "original.segments[edge_mapping] != rolled.segments"
        if "orig" in want:
            if r.get("orig") != want["orig"]:
                return where + "new indices of the original vertices %r, list model says %r" % (r.get("orig"), want["orig"])
            if r.get("ins") != want["ins"]:
                return where + "new indices of the inserted points %r, list model says %r" % (r.get("ins"), want["ins"])
        for key in ("index", "len"):
            if key in want and r.get(key) != want[key]:
                return where + "%s = %r, list model says %r" % (key, r.get(key), want[key])
        if "point" in want and r.get("point") != list(map(float, want["point"])):
            return where + "apex %r, list model says %r" % (r.get("point"), want["point"])
        if "box" in want and r.get("box") != want["box"]:
            return where + "bounding box %r, list model says %r" % (r.get("box"), want["box"])
        pool.extend(news)
    return None


def _short(w):
    return str(w)[:200]


def classify(c, o, failure, disagrees):
    return None

# added with seeded rounds 6-7 (DESIGN 8.6)
RULE = RULE + '; index_of_vertex additionally with atol 1e-8, 0 and 0.75, judged against the definition'
