"""C08 — Arc-length queries and refinement preserve the polyline's path."""
import math
import warnings
from fractions import Fraction as Fr

import numpy as np

from common import Kernel, call_impl, coq_bool, coq_list, coq_nat, coq_opt, coq_Z, fl, flv, grid_vec, q, qv

ID = "C08"
N_CASES = {"quick": 360, "thorough": 5000, "search": 3000}
SHARD = 60
RULE = ("seeded streams over polylines whose segment vectors are scaled Pythagorean quadruples (rational lengths: cumulative "
        "lengths, ceil(len/max) and f*L decided exactly) and over generic grid polylines, open/closed, with zero-length "
        "segments, power-of-two scales: lengths/total/centroid; point_along_path at f in {0, 1, k/16, k/1024}, single and "
        "stacked, out-of-range f; subdivided_by_length with masks, exact-boundary and generic max_length; "
        "with_segments_bisected on index sets incl. empty and the closing edge; subdivide_segment(s); "
        "non-trivial = the call returned values; distinct by hash of inputs")
TRUSTED = ["Coq 8.16.1 kernel, vm_compute for the correspondence evaluation",
           "axioms (Print Assumptions): ClassicalDedekindReals.sig_forall_dec, sig_not_dec, "
           "FunctionalExtensionality.functional_extensionality_dep, Classical_Prop.classic (all Coq stdlib Reals)",
           "tools/symtrace.py tracing translator + numpy shim (re-validated numerically each run)",
           "coq/Agree.v agreement relation (tolerance 1e-9 relative to the input magnitude); ceil(len/max) compared only "
           "when exact or not within 1e-6 of an integer",
           "NumPy, vg"]
CASE_IMPORTS = [("PW.model", "M_polyline_base"), ("PW.model", "M_segment"), ("PW.model", "M_polyline_nearest"),
                ("PW.model", "M_polyline_length")]
DEFINITIONAL = ["C08_segment_lengths_shape", "C08_subdivide_closedness"]
ASSUMPTIONS = ["theorems are about exact real arithmetic; binary64 rounding is covered only by the tolerance of the "
               "correspondence check on sampled inputs",
               "the model describes point_along_path and with_segments_bisected as repaired by the fix commits b4dc017 and "
               "b67c153 (index maps of with_insertions as repaired by 9e3d823)",
               "subdivided_by_length has no traced tie (np.ceil(...).astype(int) decides an output size): it is tied by the "
               "correspondence check only"]
_IMPORTS = CASE_IMPORTS + [("PW.proofs", "P_vec"), ("PW.proofs", "P_polyline_length")]

QUADS = [(1, 2, 2), (2, 3, 6), (1, 4, 8), (4, 4, 7), (2, 6, 9), (6, 6, 7), (3, 4, 12), (3, 4, 0), (1, 0, 0), (2, 0, 0),
         (5, 12, 0), (0, 0, 3), (8, 9, 12), (2, 10, 11)]


# ---------------------------------------------------------------------------------------------------------
def kernels():
    from polliwog.segment import subdivide_segment

    ks = []
    # np.linspace produces concrete floats: only dyadic steps (1, 1/2, 1/4) are exactly the rationals of the model
    for n, endpoint in ((2, True), (3, True), (5, True), (2, False), (4, False)):
        if True:
            name = "subdivide_segment_n%d_%s" % (n, "closed" if endpoint else "open")
            ks.append(Kernel(
                name, {"a": [0.5, -1.0, 2.0], "b": [3.0, 1.5, -0.5]},
                (lambda n, endpoint: lambda a, b: subdivide_segment(a, b, n, endpoint=endpoint))(n, endpoint),
                """Lemma {T}_ok : forall {vars} : R,
  Ok (group3 ({T} ROps {vars})) = subdivide_segment ROps (V3 a0 a1 a2) (V3 b0 b1 b2) %d %s.
Proof. intros. unfold {T}, subdivide_segment, lin_t.
  match goal with |- context [seq ?a ?b] => let v := eval vm_compute in (seq a b) in change (seq a b) with v end.
  cbn [Z.ltb Z.compare Pos.compare Pos.compare_cont map app Z.of_nat Pos.of_succ_nat Pos.succ Z.sub Z.add Z.opp Z.pos_sub
       Z.succ_double Z.pred_double Z.double Pos.pred_double].
  cbv [group3 vadd vscale vsub vx vy vz n1 nfrac]; rops. f_equal.
  list_eq ltac:(apply V3_ext; first [ring | field; lra]). Qed.""" % (n, "true" if endpoint else "false"),
                imports=_IMPORTS))
    return ks + _list_kernels()


# list-level ties at fixed small sizes (symbolic vertices; square roots kept as atoms)
_LIMPORTS = [("PW.model", "M_polyline_base"), ("PW.model", "M_segment"), ("PW.model", "M_polyline_nearest"),
           ("PW.model", "M_polyline_length"), ("PW.proofs", "P_vec"), ("PW.proofs", "P_polyline_length"),
           ("PW.proofs", "P_polyline_tie")]
_V = lambda i: "(V3 v%d v%d v%d)" % (3 * i, 3 * i + 1, 3 * i + 2)
_PL = lambda n, closed: "(MkPolyline [%s] %s)" % ("; ".join(_V(i) for i in range(n)), "true" if closed else "false")
_UNF = ("cbv [segment_lengths total_length path_centroid path_centroid_segs pl_segments pv pclosed zip app map last seg_len seg_mid "
       "seg_vector vsum nsum fold_left fst snd vnorm vnorm2 vnormalize vdivs vadd vsub vscale vdot vzero vlist vx vy vz n0 n1 n2 nfrac "
       "point_along_one pap_walk path_end rmap flat_map]; rops")


def _list_kernels():
    from polliwog import Polyline
    ks = []
    P4 = [[0., 0, 0], [3, 4, 0], [3, 4, 12], [5, 4, 12]]
    ks.append(Kernel(
        "lengths_centroid_n4", {"v": P4},
        lambda v: (Polyline(v).segment_lengths, Polyline(v).total_length, Polyline(v).path_centroid),
        """Lemma {T}_ok : forall {vars} : R, {T}_path ROps {vars} ->
  Ok ({T} ROps {vars}) =
  rmap (fun c => segment_lengths ROps %s ++ [total_length ROps %s] ++ vlist c) (path_centroid ROps %s).
Proof. intros {vars} Hpath. unfold {T}_path in Hpath; rops. path_facts Hpath. revert Hp.
  unfold {T}. %s. sqrt_atoms. intros Hp.
  match goal with |- context [Reqb ?a 0] => destruct (Reqb_spec a 0) as [Hz|Hz]; [exfalso; apply Hp; lra|] end.
  cbv [rmap app]. f_equal. list_eq ltac:(first [reflexivity | ring | (field; lra)]). Qed.""" % (_PL(4, False), _PL(4, False), _PL(4, False), _UNF),
        imports=_LIMPORTS))
    DEC = ("repeat match goal with\n"
           "  | |- context [Rltb ?a ?b] => destruct (Rltb_spec a b); try (exfalso; lra)\n"
           "  | |- context [Rleb ?a ?b] => destruct (Rleb_spec a b); try (exfalso; lra)\n"
           "  end")
    P3 = [[0., 0, 0], [3, 4, 0], [3, 4, 12]]
    for name, closed, f, fcoq in (("point_along_open_mid", False, 0.5, "(1 / 2)"), ("point_along_closed_mid", True, 0.25, "(1 / 4)"),
                                  ("point_along_open_end", False, 1.0, "1"), ("point_along_closed_end", True, 1.0, "1")):
        ks.append(Kernel(
            name, {"v": P3},
            (lambda closed, f: lambda v: Polyline(v, is_closed=closed).point_along_path(f))(closed, f),
            """Lemma {T}_ok : forall {vars} : R, {T}_path ROps {vars} ->
  Some (group3 ({T} ROps {vars})) = option_map (fun p => [p]) (point_along_one ROps %s %s).
Proof. intros {vars} Hpath. unfold {T}_path in Hpath; rops. path_facts Hpath. unfold nfrac in *; rops.
  unfold {T}. %s. sqrt_atoms. %s.
  all: cbv [option_map group3]; f_equal; list_eq ltac:(apply V3_ext; first [reflexivity | ring | (field; lra)]). Qed.""" % (_PL(3, closed), fcoq, _UNF, DEC),
            imports=_LIMPORTS))
    BIS = ("cbv [bisect existsb negb Nat.ltb Nat.leb length pl_segments pv pclosed zip app map last edge_end andb orb Nat.eqb nth_error "
           "seg_mid insert_multi_from points_at filter fst snd count_le inserted_pos combine firstn seq Nat.add Nat.sub group3 "
           "vdivs vadd vzero vx vy vz n0 n1 n2 nfrac]; rops")
    for name, closed, idx, orig, ins in (("bisect_open_one", False, [1], [0, 1, 3], [2]),
                                         ("bisect_closed_two", True, [2, 0], [1, 3, 4], [0, 2])):
        nats = lambda l: "[%s]" % "; ".join("%d%%nat" % i for i in l)
        ks.append(Kernel(
            name, {"v": P3},
            (lambda closed, idx: lambda v: (lambda r: (r[0].v, r[1], r[2]))(
                Polyline(v, is_closed=closed).with_segments_bisected(np.array(idx), ret_new_indices=True)))(closed, idx),
            """Lemma {T}_ok : forall {vars} : R,
  bisect ROps %s %s = Ok (MkPolyline (group3 ({T} ROps {vars})) %s, %s, %s).
Proof. intros. unfold {T}. %s.
  repeat match goal with
         | |- Ok _ = Ok _ => f_equal
         | |- (_, _) = (_, _) => f_equal
         | |- MkPolyline _ _ = MkPolyline _ _ => f_equal
         end; try reflexivity;
  list_eq ltac:(first [reflexivity | apply V3_ext; first [reflexivity | ring | field]]). Qed.""" % (
                _PL(3, closed), nats(idx), "true" if closed else "false", nats(orig), nats(ins), BIS),
            imports=_LIMPORTS,
            expect_structure={"tuple": [{"shape": [3 + len(idx), 3], "data": ["e"] * (3 * (3 + len(idx)))},
                                        {"shape": [3], "dtype": "int64", "data": orig},
                                        {"shape": [len(idx)], "dtype": "int64", "data": ins}]}))
    from polliwog.segment import subdivide_segments
    SEG = ("cbv [subdivide_segments open_segments subdiv_seg_rows zip flat_map app map seq last repeat seg_vector fst snd group3 "
           "vnorm vnorm2 vdivs vadd vsub vscale vdot vx vy vz n0 n1 Z.of_nat Pos.of_succ_nat Pos.succ]; rops")
    ks.append(Kernel(
        "subdivide_segments_n3", {"v": P3}, lambda v: subdivide_segments(v, 2),
        """Lemma {T}_ok : forall {vars} : R,
  vnorm ROps (vsub ROps %s %s) <> 0 -> vnorm ROps (vsub ROps %s %s) <> 0 ->
  map Some (group3 ({T} ROps {vars})) = subdivide_segments ROps [%s; %s; %s] 2.
Proof. intros {vars} H1 H2. revert H1 H2. cbv [vnorm vnorm2 vsub vdot vx vy vz]; rops. unfold {T}. %s.
  sqrt_atoms. intros H1 H2.
  repeat match goal with |- context [Reqb ?a 0] => destruct (Reqb_spec a 0); [contradiction|] end.
  cbv [map]. list_eq ltac:(f_equal; apply V3_ext; first [reflexivity | ring | (field; assumption)]). Qed.""" % (
            _V(1), _V(0), _V(2), _V(1), _V(0), _V(1), _V(2), SEG),
        imports=_LIMPORTS))
    return ks


# ---------------------------------------------------------------------------------------------------------
def _pyth_polyline(rng, sc):
    k = rng.randint(1, 7)
    pts = [[float(rng.randint(-4, 4)) for _ in range(3)]]
    for _ in range(k):
        if rng.random() < 0.15:
            pts.append(list(pts[-1]))
            continue
        qd = list(rng.choice(QUADS))
        rng.shuffle(qd)
        m = rng.choice([0.5, 1.0, 1.0, 2.0])
        v = [x * m * rng.choice([1, -1]) for x in qd]
        pts.append([a + b for a, b in zip(pts[-1], v)])
    return [[x * sc for x in p] for p in pts]


def _pyth_vec(rng):
    qd = list(rng.choice(QUADS))
    rng.shuffle(qd)
    m = rng.choice([0.5, 1.0, 1.0, 2.0])
    return [x * m * rng.choice([1, -1]) for x in qd]


def _pyth_closed(rng, sc):
    """parallelogram (optionally with a repeated vertex): all four edges incl. the closing one have rational length"""
    p0 = [float(rng.randint(-4, 4)) for _ in range(3)]
    u, w = _pyth_vec(rng), _pyth_vec(rng)
    add = lambda a, b: [x + y for x, y in zip(a, b)]
    pts = [p0, add(p0, u), add(add(p0, u), w), add(p0, w)]
    if rng.random() < 0.3:
        j = rng.randrange(4)
        pts.insert(j, list(pts[j]))
    s = rng.randrange(len(pts))
    pts = pts[s:] + pts[:s]
    return [[x * sc for x in p] for p in pts]


def _generic_polyline(rng, sc):
    k = rng.randint(2, 8)
    pts = [grid_vec(rng, -4, 4, 2) for _ in range(k)]
    if rng.random() < 0.2:
        j = rng.randrange(1, k)
        pts[j] = list(pts[j - 1])
    return [[x * sc for x in p] for p in pts]


def _segs(vs, closed):
    n = len(vs)
    out = [(vs[i], vs[i + 1]) for i in range(n - 1)]
    if closed and n:
        out.append((vs[-1], vs[0]))
    return out


def _far_offset_case(rng):
    """far_offset_exact: a unit-size axis-aligned polyline on a dyadic grid, translated by 2^24 .. 2^31 per axis. Every
    coordinate, length, fraction of the length, midpoint and subdivision point is exactly representable, so the code must
    agree with the exact model to a tolerance relative to the FEATURE size; a formula that subtracts large numbers
    (|a|^2 + |b|^2 - 2 a.b) loses everything here."""
    off = [rng.choice([1, -1]) * 2.0 ** rng.randint(24, 31) for _ in range(3)]
    closed = rng.random() < 0.4
    p0 = [rng.randint(-16, 16) / 8 for _ in range(3)]
    if closed:
        ax1, ax2 = rng.sample(range(3), 2)
        d1, d2 = rng.choice([0.5, 1.0, 2.0, 4.0]) * rng.choice([1, -1]), rng.choice([0.5, 1.0, 2.0, 4.0]) * rng.choice([1, -1])
        steps = [(ax1, d1), (ax2, d2), (ax1, -d1)]
    else:
        steps = [(rng.randrange(3), rng.choice([0.5, 1.0, 2.0, 4.0]) * rng.choice([1, -1])) for _ in range(rng.randint(1, 6))]
    pts = [p0]
    for ax, d in steps:
        q_ = list(pts[-1])
        q_[ax] += d
        pts.append(q_)
        if rng.random() < 0.12:
            pts.append(list(q_))                               # zero-length segment
    pts = [[x + o for x, o in zip(p, off)] for p in pts]
    segs = _segs(pts, closed)
    r = rng.random()
    if r < 0.2:
        return {"kind": "lengths_far_offset_exact", "v": pts, "closed": closed}
    if r < 0.5:
        single = rng.random() < 0.3
        fs = [rng.choice([0.0, 1.0, rng.randint(0, 16) / 16])] if single else \
            [rng.choice([0.0, 1.0, rng.randint(0, 16) / 16, rng.randint(0, 64) / 64]) for _ in range(rng.randint(1, 4))]
        return {"kind": "point_along_far_offset_exact" + ("_closed" if closed else "_open"), "v": pts, "closed": closed,
                "fs": fs, "single": single}
    if r < 0.8:
        mask = None if rng.random() < 0.5 else [rng.random() < 0.6 for _ in segs]
        return {"kind": "subdivide_by_length_far_offset_exact", "exact": True, "v": pts, "closed": closed,
                "max_length": rng.choice([0.25, 0.5, 1.0, 2.0]), "mask": mask}
    ne = len(segs)
    idx = rng.sample(range(ne), rng.randint(1, ne))
    return {"kind": "bisect_far_offset_exact", "v": pts, "closed": closed, "idx": idx, "plain": rng.random() < 0.3}


def gen_cases(rng, n, tier):
    cases = []
    while len(cases) < n:
        u = rng.random()
        r_sc = rng.random()
        sc = 1.0 if r_sc < 0.45 else 2.0 ** (rng.randint(-10, 10) if r_sc < 0.8 else rng.randint(-30, 30))
        exact = rng.random() < 0.65
        closed = rng.random() < 0.45
        pts = (_pyth_closed(rng, sc) if closed else _pyth_polyline(rng, sc)) if exact else _generic_polyline(rng, sc)
        segs = _segs(pts, closed)
        lens = [math.dist(a, b) for a, b in segs]
        total = sum(lens)
        if rng.random() < 0.11:
            cases.append(_far_offset_case(rng))
            continue
        if u < 0.12:
            if rng.random() < 0.1:
                pts = [pts[0]] * rng.randint(1, 3)           # zero total length: path_centroid refuses
            cases.append({"kind": "lengths", "v": pts, "closed": closed})
        elif u < 0.40:
            if rng.random() < 0.08:
                # no segment at all (open, one vertex) or zero total length (repeated vertices): outside the property's
                # domain, but model and code must agree on what happens
                base = pts[0]
                pts = [list(base)] * rng.choice([1, 1, 2, 3])
                closed = rng.random() < 0.4
                segs = _segs(pts, closed)
                fs = [rng.choice([0.0, 0.5, 1.0]) for _ in range(rng.randint(0, 2))]
                cases.append({"kind": "point_along_no_segment" if not segs else "point_along_zero_length", "v": pts,
                              "closed": closed, "fs": fs, "single": len(fs) == 1 and rng.random() < 0.5})
                continue
            if rng.random() < 0.45:
                # boundary stream: every boundary fraction {0, 1, exact vertex positions} x {leading / inner / trailing
                # zero-length segment} x open / closed, rational lengths (so that f * L hits the vertices exactly or
                # within one rounding; the result is continuous in f, so either side is the same point)
                bclosed = rng.random() < 0.5
                bpts = _pyth_closed(rng, sc) if bclosed else _pyth_polyline(rng, sc)
                bpts = [p for i, p in enumerate(bpts) if i == 0 or p != bpts[i - 1]]        # start without repeats
                if bclosed and len(bpts) > 1 and bpts[-1] == bpts[0]:
                    bpts = bpts[:-1]
                where = rng.sample(["leading", "inner", "trailing"], rng.randint(1, 3))
                if "inner" in where and len(bpts) > 2:
                    j = rng.randrange(1, len(bpts) - 1)
                    bpts = bpts[:j + 1] + [list(bpts[j])] * rng.randint(1, 2) + bpts[j + 1:]
                if "leading" in where:
                    bpts = [list(bpts[0])] * rng.randint(1, 2) + bpts
                if "trailing" in where:
                    # open: repeated last vertex; closed: the last vertex equals the first (zero-length closing edge)
                    bpts = bpts + ([list(bpts[0])] if bclosed else [list(bpts[-1])] * rng.randint(1, 2))
                bsegs = _segs(bpts, bclosed)
                blens = [math.dist(p, q2) for p, q2 in bsegs]
                btotal = sum(blens)
                if btotal <= 0:
                    continue
                cum, cands = 0.0, [0.0, 1.0]
                for ln in blens:
                    cum += ln
                    cands.append(min(1.0, cum / btotal))
                single = rng.random() < 0.4
                fs = [rng.choice([0.0, 0.0, 1.0, rng.choice(cands)])] if single else \
                    [0.0, 1.0] + [rng.choice(cands) for _ in range(rng.randint(1, 3))]
                if not single:
                    rng.shuffle(fs)
                cases.append({"kind": "point_along_boundary" + ("_closed" if bclosed else "_open"), "v": bpts,
                              "closed": bclosed, "fs": fs, "single": single})
                continue
            if total <= 0:
                continue
            r = rng.random()
            single = rng.random() < 0.3
            if r < 0.08:
                fs = [rng.choice([-0.25, 1.5, 2.0, -1.0])] + [rng.randint(0, 16) / 16 for _ in range(rng.randint(0, 2))]
                kind = "point_along_out_of_range"
            else:
                cnt = 1 if single else rng.randint(1, 5)
                fs = [rng.choice([0.0, 1.0, rng.randint(0, 16) / 16, rng.randint(0, 16) / 16, rng.randint(0, 1024) / 1024])
                      for _ in range(cnt)]
                kind = "point_along"
            if not exact and len(segs) >= 8:
                continue
            cases.append({"kind": kind + ("_closed" if closed else "_open"), "v": pts, "closed": closed, "fs": fs,
                          "single": single and len(fs) == 1})
        elif u < 0.70:
            if not lens:
                continue
            mx = max(lens)
            r = rng.random()
            if exact and r < 0.45 and mx > 0:
                # exact boundary: some length is an exact multiple of max_length
                base = rng.choice([l for l in lens if l > 0])
                max_length = base / rng.choice([1, 2, 3, 4, 5])
                if Fr(max_length) * round(base / max_length) != Fr(base):
                    max_length = base / rng.choice([1, 2, 4])
            else:
                max_length = rng.choice([0.25, 0.5, 0.75, 1.0, 1.5, 2.0, 2.5, 3.0, 5.0, 7.0]) * sc
            mr = rng.random()
            if mr < 0.45:
                mask = None
            elif mr < 0.93:
                mask = [rng.random() < 0.6 for _ in segs]
            else:
                mask = [True] * (len(segs) + rng.choice([1, -1, 2]))      # wrong length -> ValueError
                if len(mask) == len(segs):
                    mask = mask + [True]
            # the generic stream is not judged by the model when some len / max_length is within 1e-6 of an integer
            # (K_C08.parts_decided): such cases are counted under their own kind so that they show in the evidence
            undecided = (not exact) and max_length > 0 and any(
                abs(l / max_length - round(l / max_length)) <= 1e-6 for l in lens)
            cases.append({"kind": "subdivide_by_length" + ("_exact" if exact else "_generic_undecided" if undecided else "_generic"),
                          "exact": exact, "v": pts,
                          "closed": closed, "max_length": max_length, "mask": mask})
        elif u < 0.85:
            ne = len(segs)
            r = rng.random()
            if r < 0.15 or ne == 0:
                idx = []
            else:
                idx = rng.sample(range(ne), rng.randint(1, ne))
                if rng.random() < 0.5:
                    idx.sort()
            if closed and ne and rng.random() < 0.3 and (ne - 1) not in idx:
                idx.append(ne - 1)                                         # the closing edge
            dup = bool(idx) and rng.random() < 0.15
            if dup:                                                        # a segment listed more than once
                idx = idx + [rng.choice(idx) for _ in range(rng.randint(1, 2))]
                rng.shuffle(idx)
            # plain Python list instead of an int64 array; an EMPTY plain list (float64 after np.asarray) is accepted since
            # fix 9cca2eb and must give the same polyline back
            plain = rng.random() < (0.5 if not idx else 0.3)
            kind = ("_empty_plain_list" if plain else "_empty") if not idx else "_repeated" if dup else ("_closed" if closed else "_open")
            cases.append({"kind": "bisect" + kind, "v": pts, "closed": closed, "idx": idx, "plain": plain})
        elif u < 0.93:
            a, b = grid_vec(rng, -4, 4, 2), grid_vec(rng, -4, 4, 2)
            num = rng.choice([2, 3, 4, 5, 7, 8, 2, 1, 0, -3])
            cases.append({"kind": "subdivide_segment", "a": [x * sc for x in a], "b": [x * sc for x in b], "num": num,
                          "endpoint": rng.random() < 0.5})
        else:
            vs = _pyth_polyline(rng, sc) if rng.random() < 0.6 else _generic_polyline(rng, sc)
            zero = any(a == b for a, b in zip(vs, vs[1:]))
            cases.append({"kind": "subdivide_segments" + ("_zero_length" if zero else ""), "v": vs,
                          "num": rng.choice([1, 2, 3, 5])})
    return cases


# ---------------------------------------------------------------------------------------------------------
def run_impl(c):
    from polliwog import Polyline
    from polliwog.segment import path_centroid, subdivide_segment, subdivide_segments

    def go():
        with warnings.catch_warnings():
            warnings.simplefilter("ignore")
            if c["kind"] in ("subdivide_segment",):
                a, b = np.array(c["a"]), np.array(c["b"])
                r = subdivide_segment(a, b, c["num"], endpoint=c["endpoint"])
                return {"pts": r.tolist()}
            v = np.array(c["v"], dtype=np.float64).reshape(-1, 3)
            if c["kind"].startswith("subdivide_segments"):
                before = v.copy()
                r = subdivide_segments(v, c["num"])
                return {"pts": r.tolist(), "args_unchanged": bool(np.array_equal(before, v))}
            pl = Polyline(v, is_closed=c["closed"])
            if c["kind"].startswith("lengths"):
                out = {"lens": pl.segment_lengths.tolist(), "total": float(pl.total_length)}
                out["centroid"] = call_impl(lambda: pl.path_centroid.tolist())
                out["centroid_fn"] = call_impl(lambda: path_centroid(pl.segments).tolist())
                return out
            if c["kind"].startswith("point_along"):
                arg = float(c["fs"][0]) if c["single"] else np.array(c["fs"], dtype=np.float64)
                r = pl.point_along_path(arg)
                shape = list(np.shape(r))
                out = {"pts": np.asarray(r).reshape(-1, 3).tolist(), "shape": shape}
                if not c["single"]:
                    # the stacked form hands the callee the caller's own float64 array: it must come back unchanged
                    # and the same array must give the same points again
                    out["args_unchanged"] = bool(np.array_equal(arg, np.array(c["fs"], dtype=np.float64)))
                    r2 = call_impl(lambda: np.asarray(pl.point_along_path(arg)).reshape(-1, 3).tolist())
                    out["same_again"] = bool(r2 == out["pts"] or _both_nan_equal(r2, out["pts"]))
                return out
            if c["kind"].startswith("subdivide_by_length"):
                mask = None if c["mask"] is None else np.array(c["mask"], dtype=bool)
                new, idx = pl.subdivided_by_length(c["max_length"], edges_to_subdivide=mask, ret_indices=True)
                new2 = pl.subdivided_by_length(c["max_length"], edges_to_subdivide=mask)
                return {"v": new.v.tolist(), "closed": bool(new.is_closed), "idx": [int(i) for i in idx],
                        "same_without_indices": bool(np.array_equal(new.v, new2.v) and new2.is_closed == new.is_closed),
                        "args_unchanged": bool(np.array_equal(pl.v, v))}
            idx = list(c["idx"]) if c.get("plain") else np.array(c["idx"], dtype=np.int64)
            new, orig, ins = pl.with_segments_bisected(idx, ret_new_indices=True)
            new2 = pl.with_segments_bisected(idx)
            return {"v": new.v.tolist(), "closed": bool(new.is_closed), "orig": [int(i) for i in orig],
                    "ins": [int(i) for i in ins],
                    "same_without_indices": bool(np.array_equal(new.v, new2.v) and new2.is_closed == new.is_closed),
                    "args_unchanged": bool(np.array_equal(pl.v, v))}

    return call_impl(go)


# ---------------------------------------------------------------------------------------------------------
def _vecs(vs):
    return coq_list(flv(v) for v in vs)


def _pl(c):
    return "(MkPolyline %s %s)" % (coq_list(qv(p) for p in c["v"]), coq_bool(c["closed"]))


def _res(o, ok):
    return "(Raise %s)" % o["raise"] if "raise" in o else "(Ok %s)" % ok(o)


def coq_case(c, o):
    k = c["kind"]
    if k.startswith("lengths"):
        if "raise" in o:
            return "CLengths %s [FNan] FNan (Raise OtherError)" % _pl(c)
        cen = o["centroid"]
        cen = "(Raise %s)" % cen["raise"] if isinstance(cen, dict) else "(Ok %s)" % flv(cen)
        return "CLengths %s %s %s %s" % (_pl(c), flv(o["lens"]), fl(o["total"]), cen)
    if k.startswith("point_along"):
        return "CPointAlong %s %s %s" % (_pl(c), coq_list(q(f) for f in c["fs"]), _res(o, lambda o: _vecs(o["pts"])))
    if k == "subdivide_segment":
        return "CSubdivSeg %s %s %s %s %s" % (qv(c["a"]), qv(c["b"]), coq_Z(c["num"]), coq_bool(c["endpoint"]),
                                              _res(o, lambda o: _vecs(o["pts"])))
    if k.startswith("subdivide_segments"):
        if "raise" in o:
            return "CSubdivSegs [] 0%nat [[FNan]]"
        return "CSubdivSegs %s %s %s" % (coq_list(qv(p) for p in c["v"]), coq_nat(c["num"]), _vecs(o["pts"]))
    if k.startswith("subdivide_by_length"):
        mask = coq_opt(c["mask"], lambda m: coq_list(coq_bool(b) for b in m))
        return "CSubdivLen %s %s %s %s %s" % (
            coq_bool(c["exact"]), _pl(c), q(c["max_length"]), mask,
            _res(o, lambda o: "(%s, %s, %s)" % (_vecs(o["v"]), coq_bool(o["closed"]), coq_list(coq_nat(i) for i in o["idx"]))))
    return "CBisect %s %s %s" % (
        _pl(c), coq_list(coq_nat(i) for i in c["idx"]),
        _res(o, lambda o: "(%s, %s, %s, %s)" % (_vecs(o["v"]), coq_bool(o["closed"]), coq_list(coq_nat(i) for i in o["orig"]),
                                                coq_list(coq_nat(max(i, 0)) for i in o["ins"]))))


# ---------------------------------------------------------------------------------------------------------
def _both_nan_equal(a, b):
    """row lists equal, NaN matching NaN"""
    try:
        return bool(np.array_equal(np.asarray(a, dtype=np.float64), np.asarray(b, dtype=np.float64), equal_nan=True))
    except Exception:  # noqa
        return False


F1_CLOSED = "point_along_path(1) on a closed polyline is not the first vertex"
F1_NAN = "point_along_path returned NaN"
BISECT_EMPTY = "with_segments_bisected(empty index set) raised ZeroDivisionError"
SEGS_ZERO = "subdivide_segments returns NaN rows for a zero-length segment"


def _mag(*lists):
    """FEATURE size: spread of the input points around the first one (a scene may sit far from the origin; an error of the
    size of the scene must be seen however large the coordinates are)"""
    pts = [p for l in lists for p in l]
    if not pts:
        return 0.0
    return max(abs(float(x) - float(r)) for p in pts for x, r in zip(p, pts[0]))


def _absmag(*lists):
    return max([0.0] + [abs(float(x)) for l in lists for p in l for x in p])


def _near(a, b, tol):
    return all(abs(float(x) - float(y)) <= tol for x, y in zip(a, b))


def _walk(vs, closed, l):
    """the point at arc length l (float arithmetic; the function is 1-Lipschitz in l, so a tolerance suffices)"""
    cur = vs[0]
    for a, b in _segs(vs, closed):
        ln = math.dist(a, b)
        if l < ln:
            return [a[j] + (l / ln) * (b[j] - a[j]) for j in range(3)]
        l -= ln
        cur = b
    return list(cur)


def _oracle_subdiv(c, o):
    v, closed = c["v"], c["closed"]
    segs = _segs(v, closed)
    if "raise" in o:
        if c["mask"] is not None and len(c["mask"]) != len(segs) and o["raise"] == "ValueError":
            return None
        return "subdivided_by_length raised %s: %s" % (o["raise"], o.get("msg"))
    if c["mask"] is not None and len(c["mask"]) != len(segs):
        return "edges_to_subdivide of the wrong length was accepted"
    if o["closed"] != closed:
        return "closedness changed"
    if not o["same_without_indices"] or not o["args_unchanged"]:
        return "result depends on ret_indices, or the polyline was modified"
    new, idx = o["v"], o["idx"]
    n = len(v)
    mag = _mag(v)
    tol = 1e-8 * mag
    if len(idx) != n or any(b <= a for a, b in zip(idx, idx[1:])) or (n and idx[0] != 0):
        return "indices of original vertices %r are not strictly increasing from 0" % (idx,)
    for k in range(n):
        if idx[k] >= len(new) or new[idx[k]] != v[k]:
            return "original vertex %d is not at its reported index %d" % (k, idx[k])
    mask = c["mask"] if c["mask"] is not None else [True] * len(segs)
    mx = float(c["max_length"])
    tot_new = sum(math.dist(a, b) for a, b in _segs(new, closed))
    tot_old = sum(math.dist(a, b) for a, b in segs)
    if abs(tot_new - tot_old) > 1e-8 * max(mag, tot_old):
        return "total length changed from %r to %r" % (tot_old, tot_new)
    for e, (a, b) in enumerate(segs):
        lo = idx[e]
        hi = idx[e + 1] if e + 1 < n else len(new)
        ins = new[lo + 1:hi]
        m = len(ins)
        ln2 = sum((Fr(x) - Fr(y)) ** 2 for x, y in zip(a, b))
        mx2 = Fr(mx) ** 2
        for j, p in enumerate(ins, 1):
            want = [a[t] + (j / (m + 1)) * (b[t] - a[t]) for t in range(3)]
            if not _near(p, want, tol):
                return "edge %d: inserted point %d of %d is not evenly spaced on its segment" % (e, j, m)
        parts = m + 1
        if not mask[e] or ln2 <= mx2 * (1 - Fr(1, 10 ** 9)):
            if (not mask[e] or ln2 <= mx2) and m != 0:
                return "edge %d (%s) was subdivided into %d parts" % (e, "unselected" if not mask[e] else "not longer than max_length", parts)
            if m == 0:
                continue
        # selected and longer than max_length: parts is the least n with len/n <= max
        exact = c["exact"]
        slack = Fr(0) if exact else Fr(1, 10 ** 9)
        if ln2 > mx2 * parts * parts * (1 + slack):
            return "edge %d: %d parts are longer than max_length (len^2=%s, max^2=%s)" % (e, parts, float(ln2), float(mx2))
        if parts > 1 and ln2 * (1 + slack) <= mx2 * (parts - 1) * (parts - 1) and (exact or ln2 * (1 + 2 * slack) < mx2 * (parts - 1) ** 2):
            return "edge %d: %d parts although %d would do" % (e, parts, parts - 1)
    return None


def _oracle_bisect(c, o):
    v, closed, idx = c["v"], c["closed"], c["idx"]
    if "raise" in o:
        if not idx and o["raise"] == "ZeroDivisionError":
            return BISECT_EMPTY
        return "with_segments_bisected raised %s: %s" % (o["raise"], o.get("msg"))
    if o["closed"] != closed or not o["same_without_indices"] or not o["args_unchanged"]:
        return "closedness changed, result depends on ret_new_indices, or the polyline was modified"
    new, orig, ins = o["v"], o["orig"], o["ins"]
    n, N = len(v), len(o["v"])
    if N != n + len(idx):
        return "%d vertices after bisecting %d segments of %d vertices" % (N, len(idx), n)
    if len(orig) != n or any(b <= a for a, b in zip(orig, orig[1:])):
        return "new indices of original vertices %r not strictly increasing" % (orig,)
    for k in range(n):
        if not (0 <= orig[k] < N) or new[orig[k]] != v[k]:
            return "original vertex %d is not at its reported index" % k
    segs = _segs(v, closed)
    tol = 1e-9 * _mag(v)
    if sorted(orig + ins) != list(range(N)):
        return "reported indices %r + %r do not partition the new vertices" % (orig, ins)
    for j, e in enumerate(idx):
        a, b = segs[e]
        mid = [(x + y) / 2 for x, y in zip(a, b)]
        i = ins[j]
        if not _near(new[i], mid, tol):
            return "inserted point for segment %d is not its midpoint" % e
        if not closed and (i == 0 or i == N - 1):
            return "midpoint of segment %d inserted at an end of an open polyline" % e
        # position: after the segment's start vertex and before its end vertex (closing edge: before vertex 0)
        lo = orig[e]
        hi = orig[e + 1] if e + 1 < n else None
        if (hi is not None and not (lo < i < hi)) or (hi is None and not (i < orig[0])):
            return "midpoint of segment %d does not lie between that segment's end vertices in the new polyline" % e
    return None


def oracle(c, o):
    k = c["kind"]
    if k.startswith("subdivide_by_length"):
        return _oracle_subdiv(c, o)
    if k.startswith("bisect"):
        return _oracle_bisect(c, o)
    if k == "subdivide_segment":
        if "raise" in o:
            return None if (c["num"] < 2 and o["raise"] == "ValueError") else "subdivide_segment raised %s" % o["raise"]
        if c["num"] < 2:
            return "num_points < 2 accepted"
        pts, a, b, n = o["pts"], c["a"], c["b"], c["num"]
        tol = 1e-9 * _mag([a, b])
        if len(pts) != n:
            return "%d points returned, %d requested" % (len(pts), n)
        div = n - 1 if c["endpoint"] else n
        for j, p in enumerate(pts):
            if not _near(p, [a[t] + (j / div) * (b[t] - a[t]) for t in range(3)], tol):
                return "point %d is not at parameter %d/%d" % (j, j, div)
        if pts[0] != a or (c["endpoint"] and pts[-1] != b):
            return "end points are not returned exactly"
        return None
    if "raise" in o and not k.startswith("point_along"):
        return "unexpected exception %s: %s" % (o["raise"], o.get("msg"))
    if k.startswith("subdivide_segments"):
        v, num, pts = c["v"], c["num"], o["pts"]
        if len(pts) != (len(v) - 1) * num + 1:
            return "%d rows for %d segments x %d" % (len(pts), len(v) - 1, num)
        tol = 1e-9 * _mag(v)
        for e in range(len(v) - 1):
            for j in range(num):
                row = pts[e * num + j]
                if any(math.isnan(x) for x in row):
                    return SEGS_ZERO if v[e] == v[e + 1] else "NaN row on a segment of positive length"
                if not _near(row, [v[e][t] + (j / num) * (v[e + 1][t] - v[e][t]) for t in range(3)], tol):
                    return "segment %d: point %d is not evenly spaced" % (e, j)
        return None if pts[-1] == v[-1] else "last vertex not returned"
    if k.startswith("lengths"):
        segs = _segs(c["v"], c["closed"])
        mag = _mag(c["v"])
        lens = [math.dist(a, b) for a, b in segs]
        if len(o["lens"]) != len(segs) or not _near(o["lens"], lens, 1e-9 * mag):
            return "segment_lengths are not the Euclidean segment lengths"
        if abs(o["total"] - sum(lens)) > 1e-9 * max(mag, sum(lens)):
            return "total_length is not the sum of the segment lengths"
        cen = o["centroid"]
        if o["centroid_fn"] != cen:
            return "Polyline.path_centroid differs from segment.path_centroid(segments)"
        if sum(lens) == 0:
            return None
        if isinstance(cen, dict):
            return "path_centroid raised %s on a polyline of positive length" % cen["raise"]
        want = [sum(l * (a[t] + b[t]) / 2 for l, (a, b) in zip(lens, segs)) / sum(lens) for t in range(3)]
        # the centroid divides by the total length: its rounding is relative to the coordinates themselves
        return None if _near(cen, want, 1e-8 * max(mag, 1e-6 * _absmag(c["v"]))) else "path_centroid is not the length-weighted mean of the midpoints"
    # point_along_path
    bad = any(f < 0 or f > 1 for f in c["fs"])
    v, closed = c["v"], c["closed"]
    nosegs = not _segs(v, closed)
    if "raise" in o:
        if (bad and o["raise"] == "ValueError") or (nosegs and not bad and o["raise"] == "IndexError"):
            return None
        return "point_along_path raised %s: %s" % (o["raise"], o.get("msg"))
    if bad:
        return "fraction outside [0,1] accepted"
    if nosegs:
        return None if not c["fs"] else "point_along_path answered on a polyline without any segment"
    if o["shape"] != ([3] if c["single"] else [len(c["fs"]), 3]):
        return "result shape %r" % (o["shape"],)
    if o.get("args_unchanged") is False:
        return "point_along_path modified the array of fractions it was given"
    if o.get("same_again") is False:
        return "point_along_path gives different points when called again with the same array of fractions"
    total = sum(math.dist(a, b) for a, b in _segs(v, closed))
    mag = _mag(v)
    for f, p in zip(c["fs"], o["pts"]):
        if any(math.isnan(x) for x in p):
            return F1_NAN
        if f == 1.0:
            want = v[0] if closed else v[-1]
            if not _near(p, want, 1e-8 * mag):
                return F1_CLOSED if closed else "point_along_path(1) on an open polyline is not the last vertex"
            continue
        if f == 0.0 and not _near(p, v[0], 1e-8 * mag):
            return "point_along_path(0) is not the first vertex"
        if not _near(p, _walk(v, closed, f * total), 1e-7 * max(mag, total)):
            return "point_along_path(%r)=%r is not the point at arc length f*L (%r)" % (f, p, _walk(v, closed, f * total))
    return None


def classify(c, o, failure, disagrees):
    # subdivide_segments normalises the segment direction: 0/0 on a zero-length segment
    if c["kind"] == "subdivide_segments_zero_length" and failure == SEGS_ZERO and not disagrees:
        return "subdivide_segments_zero_length"
    return None

# added with seeded rounds 6-7 (DESIGN 8.6)
RULE = RULE + "; stacked point_along_path is called twice with the caller's own float64 array of fractions, which must come back unchanged and give the same points"
