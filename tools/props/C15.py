"""C15 — triangle normals, areas, barycentric weights, containment, sampling, quads_to_tris, edges_of_faces."""
import math
from fractions import Fraction as Fr

import numpy as np

from common import Kernel, call_impl, coq_bool, coq_list, coq_nat, coq_Z, fl, flv, grid_vec, q, qv

ID = "C15"
N_CASES = {"quick": 360, "thorough": 5000, "search": 3000}
RULE = ("seeded streams: grid triangles (multiples of 1/2, power-of-two scale incl. a 30% share at 2^-30..2^-12 and 2^12..2^30 in "
        "every tier, far offsets, exactly degenerate ones, a 12% share as int64 arrays of whole numbers) for "
        "normals/areas/barycentric weights; exactly coplanar query points (dyadic combinations, many on edges and "
        "vertices) for containment and same-side; sample with draws supplied through a Generator subclass (dyadic "
        "weights with zero entries, u on exact thresholds incl. 0.0, coefficient sums = 1 and > 1), area weights, the "
        "default generator twice (determinism) and a frequency run; in every run a fixed handful: zero samples from 1-3 "
        "triangles, any count from no triangles (with and without ret_face_indices), and the two argument-kind refusals "
        "(num_samples=2.0, rng=RandomState), which execute the refusal lines and must raise ValueError (oracle only); "
        "random integer quads/faces; non-trivial = the "
        "call returned values; distinct by hash of inputs")
TRUSTED = ["Coq 8.16.1 kernel, vm_compute for the correspondence evaluation",
           "axioms (Print Assumptions): ClassicalDedekindReals.sig_forall_dec, sig_not_dec, "
           "FunctionalExtensionality.functional_extensionality_dep, Classical_Prop.classic (all Coq stdlib Reals)",
           "tools/symtrace.py tracing translator + numpy shim (re-validated numerically each run)",
           "coq/Agree.v agreement relation (relative tolerance 1e-9; face decisions compared only when u*T is 1e-8 away "
           "from every cumulative weight unless arithmetic is exact)",
           "NumPy (searchsorted = first index above the key on an ascending array; PCG64 is not modelled), vg"]
CASE_IMPORTS = [("PW.model", "M_tri")]
ASSUMPTIONS = ["theorems are about exact real arithmetic; binary64 rounding is covered only by the tolerance of the "
               "correspondence check on sampled inputs",
               "sample is modelled as a function of the numbers drawn from the generator; 'frequency proportional to "
               "weight' is the statement that face i is chosen on an interval of length w_i/T of the face draw",
               "the model of sample uses searchsorted side='right' (fixes/C15-sample-zero-weight.diff, commit f5126ba in /repo)",
               "barycentric weights of a ZERO-AREA triangle (outside the property's domain): float arrays give (1,0,0) through "
               "the epsilon guard; int64 arrays lose the guard (s[s == 0] = np.spacing(1) stores 0) and return a NaN row. Both "
               "are modelled (bary / bary_intarray), generated and compared; C15_bary_sum_one is about the float model, "
               "C15_bary_integer_arrays states the integer behaviour",
               "area-weighted sample cases whose face draw lies within 1e-8 T of a cumulative weight are not judged for that "
               "draw; such cases are counted under the kind sample_area_some_draws_undecided"]

IMPORTS = [("PW.model", "M_tri")]


class FixedDraws(np.random.Generator):
    """A Generator whose random() returns the supplied arrays in order (model and code see the same numbers)."""

    def __init__(self, seq):
        super().__init__(np.random.PCG64(0))
        self._seq = list(seq)

    def random(self, size=None, **kw):
        a = self._seq.pop(0)
        a = a if isinstance(a, np.ndarray) else np.array(a, dtype=np.float64)
        return a.reshape(size) if size is not None else a


# ---------------------------------------------------------------------------------------------------------
# traced kernels
# ---------------------------------------------------------------------------------------------------------
T1 = [[0.0, 0.0, 0.0], [1.0, 0.0, 0.0], [0.0, 1.0, 0.5]]
T2 = [[1.0, 2.0, 3.0], [2.0, 0.0, 1.0], [0.5, 1.0, -1.0]]
TRI_A = "(Tri (V3 t0 t1 t2) (V3 t3 t4 t5) (V3 t6 t7 t8))"
TRI_B = "(Tri (V3 t9 t10 t11) (V3 t12 t13 t14) (V3 t15 t16 t17))"
UNF = ("surface_normals_raw surface_areas surface_normal_raw surface_area tri_cross bary bary_pairs map2 zip map fst snd "
       "flat_map app ta tb tc vlist vnormalize vnorm vnorm2 vdivs vadd vsub vscale vdot vcross vx vy vz n0 n1 nfrac spacing1")


def kernels():
    from polliwog.line import coplanar_points_are_on_same_side_of_line
    from polliwog.tri import (barycentric_coordinates_of_points, edges_of_faces, quads_to_tris, sample, surface_area,
                              surface_normals, tri_contains_coplanar_point)

    ks = []
    # equal up to ring normalisation, also under a square root and with the quotient kept as an atom (so that
    # harmless rewrites such as `x / 2.0` for `0.5 * x` or a reordered sum under the root still check)
    alg = ("first [ring | (unfold Rdiv; ring) | "
           "(repeat match goal with |- context [sqrt ?a] => match goal with |- context [sqrt ?b] => "
           "tryif constr_eq a b then fail else (replace (sqrt a) with (sqrt b) by (f_equal; ring)) end end; unfold Rdiv; ring) | "
           "(f_equal; ring) | (f_equal; [ring | f_equal; ring]) | (f_equal; f_equal; ring)]")
    ks.append(Kernel(
        "normals_raw_single", {"t": T1}, lambda t: surface_normals(t, normalize=False),
        "Lemma {T}_ok : forall {vars} : R, {T} ROps {vars} = vlist (surface_normal_raw ROps %s).\n"
        "Proof. intros. unfold {T}. cbv [%s]; rops. list_eq_ring. Qed." % (TRI_A, UNF), imports=IMPORTS))
    ks.append(Kernel(
        "normals_raw_stack", {"t": [T1, T2]}, lambda t: surface_normals(t, normalize=False),
        "Lemma {T}_ok : forall {vars} : R, {T} ROps {vars} = flat_map vlist (surface_normals_raw ROps [%s; %s]).\n"
        "Proof. intros. unfold {T}. cbv [%s]; rops. list_eq_ring. Qed." % (TRI_A, TRI_B, UNF), imports=IMPORTS))
    # normalize=True: the code divides by the norm without a guard; the model's guard (NaN row) is the theorem's
    # non-degeneracy hypothesis, so the tie is stated on the quotient the model returns under `Some`
    ks.append(Kernel(
        "normals_unit_single", {"t": T1}, lambda t: surface_normals(t),
        "Lemma {T}_ok : forall {vars} : R, {T} ROps {vars} = vlist (vnormalize ROps (tri_cross ROps %s)).\n"
        "Proof. intros. unfold {T}. cbv [%s]; rops. list_eq ltac:(%s). Qed." % (TRI_A, UNF, alg), imports=IMPORTS))
    ks.append(Kernel(
        "normals_unit_stack", {"t": [T1, T2]}, lambda t: surface_normals(t),
        "Lemma {T}_ok : forall {vars} : R, {T} ROps {vars} =\n"
        "  vlist (vnormalize ROps (tri_cross ROps %s)) ++ vlist (vnormalize ROps (tri_cross ROps %s)).\n"
        "Proof. intros. unfold {T}. cbv [%s]; rops. list_eq ltac:(%s). Qed." % (TRI_A, TRI_B, UNF, alg), imports=IMPORTS))
    ks.append(Kernel(
        "area_single", {"t": T1}, lambda t: surface_area(t),
        "Lemma {T}_ok : forall {vars} : R, {T} ROps {vars} = [surface_area ROps %s].\n"
        "Proof. intros. unfold {T}. cbv [%s]; rops. list_eq ltac:(%s). Qed." % (TRI_A, UNF, alg), imports=IMPORTS))
    ks.append(Kernel(
        "area_stack", {"t": [T1, T2]}, lambda t: surface_area(t),
        "Lemma {T}_ok : forall {vars} : R, {T} ROps {vars} = surface_areas ROps [%s; %s].\n"
        "Proof. intros. unfold {T}. cbv [%s]; rops. list_eq ltac:(%s). Qed." % (TRI_A, TRI_B, UNF, alg), imports=IMPORTS))

    # barycentric weights: non-degenerate pair of rows, and a degenerate row (s == 0 -> spacing(1))
    bary_proof = (
        "Proof. intros {vars} Hpath. unfold {T}_path in Hpath; rops. path_facts Hpath. unfold {T}.\n"
        "  cbv [%s]; rops.\n"
        "  repeat match goal with |- context [Reqb ?a ?b] => let E := fresh \"E\" in destruct (Reqb_spec a b) as [E|E];\n"
        "    (* the guard of the code and of the model are ring-equal, not syntactically equal (sum, einsum, ...): compare\n"
        "       them through transitivity + ring (never by rewriting a literal 0, which may occur inside the traced sum) *)\n"
        "    [ try (exfalso; match goal with H : _ <> _ |- _ => apply H; etransitivity; [|exact E]; ring end)\n"
        "    | try (exfalso; apply E; match goal with H : _ = _ |- _ => etransitivity; [|exact H]; ring end) ] end;\n"
        "  list_eq ltac:(first [ring | (unfold Rdiv; ring) | (field; auto)\n"
        "    | (field; repeat split; intro Hz; match goal with H : _ <> _ |- _ => apply H; etransitivity; [|exact Hz]; ring end)]). Qed." % UNF)
    ks.append(Kernel(
        "bary_pairs", {"t": [T1, T2], "p": [[0.25, 0.25, 1.0], [2.0, -1.0, 0.5]]},
        lambda t, p: barycentric_coordinates_of_points(t, p),
        "Lemma {T}_ok : forall {vars} : R, {T}_path ROps {vars} ->\n"
        "  {T} ROps {vars} = flat_map vlist (bary_pairs ROps [%s; %s] [V3 p0 p1 p2; V3 p3 p4 p5]).\n%s"
        % (TRI_A, TRI_B, bary_proof), imports=IMPORTS))
    ks.append(Kernel(
        "bary_degenerate", {"t": [[[1.0, 2.0, 3.0], [2.0, 3.0, 4.0], [3.0, 4.0, 5.0]]], "p": [[0.25, 0.25, 1.0]]},
        lambda t, p: barycentric_coordinates_of_points(t, p),
        "Lemma {T}_ok : forall {vars} : R, {T}_path ROps {vars} ->\n"
        "  {T} ROps {vars} = flat_map vlist (bary_pairs ROps [%s] [V3 p0 p1 p2]).\n%s"
        % (TRI_A, bary_proof), imports=IMPORTS, perturb=0.0))

    # containment / same side: concrete results, tie = path condition implies the model's decision
    dec_proof = (
        "Proof. intros {vars} Hpath. unfold {T}_path in Hpath; rops. path_facts Hpath.\n"
        "  cbv [tri_contains same_side same_side_value vsub vcross vdot vx vy vz n0]; rops.\n"
        "  repeat match goal with |- context [Rleb ?a ?b] => destruct (Rleb_spec a b); try (exfalso; lra) end; reflexivity. Qed.")
    A, B, C, P = "(V3 a0 a1 a2)", "(V3 b0 b1 b2)", "(V3 c0 c1 c2)", "(V3 p0 p1 p2)"
    for name, pt, res in (("contains_inside", [0.25, 0.25, 0.125], True), ("contains_outside", [0.75, 0.75, 0.375], False),
                          ("contains_on_edge", [0.5, 0.0, 0.0], True), ("contains_beyond_vertex", [-0.5, -0.5, -0.25], False)):
        ks.append(Kernel(
            name, {"a": T1[0], "b": T1[1], "c": T1[2], "p": pt},
            lambda a, b, c, p: tri_contains_coplanar_point(a, b, c, p),
            "Lemma {T}_ok : forall {vars} : R, {T}_path ROps {vars} -> tri_contains ROps %s %s %s %s = %s.\n%s"
            % (A, B, C, P, coq_bool(res), dec_proof), imports=IMPORTS, expect_structure=res, perturb=0.0 if "edge" in name else 1e-3))
    for name, p1, p2, res in (("same_side_yes", [0.5, 1.0, 0.0], [0.0, 2.0, 1.0], True),
                              ("same_side_no", [0.5, 1.0, 0.0], [0.0, -2.0, 1.0], False)):
        ks.append(Kernel(
            name, {"a": [0.0, 0.0, 0.0], "b": [1.0, 0.0, 0.0], "c": p1, "p": p2},
            lambda a, b, c, p: coplanar_points_are_on_same_side_of_line(a, b, c, p),
            "Lemma {T}_ok : forall {vars} : R, {T}_path ROps {vars} -> same_side ROps %s %s %s %s = %s.\n%s"
            % (A, B, C, P, coq_bool(res), dec_proof), imports=IMPORTS, expect_structure=res))

    # sample on two faces with symbolic triangles, weights and draws (second draw needs the reflection)
    def run_sample(t, w, u, ab):
        return sample(t, 2, rng=FixedDraws([u, ab]), weights=w, ret_face_indices=True)

    ks.append(Kernel(
        "sample_two", {"t": [T1, T2], "w": [1.0, 2.0], "u": [0.25, 0.75], "ab": [0.25, 0.5, 0.75, 0.5]}, run_sample,
        "Lemma {T}_ok : forall {vars} : R, {T}_path ROps {vars} ->\n"
        "  exists l, sample ROps [%s; %s] (Some [w0; w1]) [u0; u1] [(ab0, ab1); (ab2, ab3)] = Ok l /\\\n"
        "    flat_map (fun x => vlist (fst x)) l = {T} ROps {vars} /\\ map snd l = [0; 1]%%nat.\n"
        "Proof. intros {vars} Hpath. unfold {T}_path in Hpath; rops. path_facts Hpath. unfold {T}.\n"
        "  cbv [sample sample_all sample_one face_choice total_weight cumsum cumsum_from last searchsorted_right n0 n1]; rops.\n"
        "  repeat (match goal with |- context [Rltb ?a ?b] => destruct (Rltb_spec a b); try (exfalso; lra) end;\n"
        "          cbv beta iota delta [nth_error cons_res]).\n"
        "  eexists; split; [reflexivity|]. split; [|reflexivity].\n"
        "  cbv [flat_map app fst snd sample_point reflect_coeffs vlist vadd vsub vscale vx vy vz ta tb tc n1]; rops.\n"
        "  repeat (match goal with |- context [Rltb ?a ?b] => destruct (Rltb_spec a b); try (exfalso; lra) end;\n"
        "          cbv beta iota delta [fst snd]).\n"
        "  list_eq_ring. Qed." % (TRI_A, TRI_B),
        imports=IMPORTS,
        expect_structure={"tuple": [{"shape": [2, 3], "data": ["e"] * 6}, {"shape": [2], "dtype": "int64", "data": [0, 1]}]}))

    # a draw exactly on a cumulative weight: side="right" gives the NEXT face (side="left" would give face 0)
    ks.append(Kernel(
        "sample_on_threshold", {"t": [T1, T2], "w": [1.0, 1.0], "u": [0.5], "ab": [0.25, 0.5]},
        lambda t, w, u, ab: sample(t, 1, rng=FixedDraws([u, ab]), weights=w, ret_face_indices=True),
        "Lemma {T}_ok : forall {vars} : R, {T}_path ROps {vars} ->\n"
        "  exists l, sample ROps [%s; %s] (Some [w0; w1]) [u0] [(ab0, ab1)] = Ok l /\\\n"
        "    flat_map (fun x => vlist (fst x)) l = {T} ROps {vars} /\\ map snd l = [1]%%nat.\n"
        "Proof. intros {vars} Hpath. unfold {T}_path in Hpath; rops. path_facts Hpath. unfold {T}.\n"
        "  cbv [sample sample_all sample_one face_choice total_weight cumsum cumsum_from last searchsorted_right n0 n1]; rops.\n"
        "  repeat (match goal with |- context [Rltb ?a ?b] => destruct (Rltb_spec a b); try (exfalso; lra) end;\n"
        "          cbv beta iota delta [nth_error cons_res]).\n"
        "  eexists; split; [reflexivity|]. split; [|reflexivity].\n"
        "  cbv [flat_map app fst snd sample_point reflect_coeffs vlist vadd vsub vscale vx vy vz ta tb tc n1]; rops.\n"
        "  repeat (match goal with |- context [Rltb ?a ?b] => destruct (Rltb_spec a b); try (exfalso; lra) end;\n"
        "          cbv beta iota delta [fst snd]).\n"
        "  list_eq_ring. Qed." % (TRI_A, TRI_B),
        imports=IMPORTS, perturb=0.0,
        expect_structure={"tuple": [{"shape": [1, 3], "data": ["e"] * 3}, {"shape": [1], "dtype": "int64", "data": [1]}]}))

    # literal index patterns: the real functions on labelled integer arrays (no symbolic input is used)
    quads = np.array([[10, 11, 12, 13], [20, 21, 22, 23]], dtype=np.int64)
    faces = np.array([[10, 11, 12], [22, 21, 20]], dtype=np.int64)
    ks.append(Kernel(
        "quads_to_tris_pattern", {"d": [0.0]}, lambda d: quads_to_tris(quads, ret_mapping=True),
        "Lemma {T}_ok : quads_to_tris [Quad 10 11 12 13; Quad 20 21 22 23] =\n"
        "  [Face 10 11 12; Face 10 12 13; Face 20 21 22; Face 20 22 23] /\\\n"
        "  quads_mapping [Quad 10 11 12 13; Quad 20 21 22 23] = [(0, 1); (2, 3)]%Z.\n"
        "Proof. split; reflexivity. Qed.", imports=IMPORTS,
        expect_structure={"tuple": [
            {"shape": [4, 3], "dtype": "int64", "data": [10, 11, 12, 10, 12, 13, 20, 21, 22, 20, 22, 23]},
            {"shape": [2, 2], "dtype": "int64", "data": [0, 1, 2, 3]}]}))
    ks.append(Kernel(
        "edges_of_faces_pattern", {"d": [0.0]},
        lambda d: (edges_of_faces(faces, normalize=False), edges_of_faces(faces, normalize=True)),
        "Lemma {T}_ok : edges_of_faces false [Face 10 11 12; Face 22 21 20] =\n"
        "  [(10, 11); (11, 12); (12, 10); (22, 21); (21, 20); (20, 22)]%Z /\\\n"
        "  edges_of_faces true [Face 10 11 12; Face 22 21 20] =\n"
        "  [(10, 11); (11, 12); (10, 12); (21, 22); (20, 21); (20, 22)]%Z.\n"
        "Proof. split; reflexivity. Qed.", imports=IMPORTS,
        expect_structure={"tuple": [
            {"shape": [6, 2], "dtype": "int64", "data": [10, 11, 11, 12, 12, 10, 22, 21, 21, 20, 20, 22]},
            {"shape": [6, 2], "dtype": "int64", "data": [10, 11, 11, 12, 10, 12, 21, 22, 20, 21, 20, 22]}]}))
    return ks


# ---------------------------------------------------------------------------------------------------------
# generators
# ---------------------------------------------------------------------------------------------------------
def _scale(rng, tier):
    """power-of-two scale (exact in binary64). Absolute thresholds hidden in the code (an epsilon guard, an atol) only
    bite on very small or very large features, so every tier draws a share of its cases at extreme scales."""
    if tier in ("thorough", "search"):
        return 2.0 ** rng.randint(-30, 30)
    r = rng.random()
    if r < 0.2:
        return 2.0 ** rng.randint(-30, -12)
    if r < 0.3:
        return 2.0 ** rng.randint(12, 30)
    return 2.0 ** rng.randint(-10, 10)


def _tri(rng, scale, degenerate=False, offset=None):
    while True:
        a, b, c = grid_vec(rng), grid_vec(rng), grid_vec(rng)
        if degenerate:
            m = rng.randrange(3)
            if m == 0:
                c = list(a)
            elif m == 1:
                b = list(a)
                c = list(a)
            else:
                k = rng.choice([-1.0, 0.5, 2.0])
                c = [a[j] + k * (b[j] - a[j]) for j in range(3)]
            break
        n = np.cross(np.array(b) - np.array(a), np.array(c) - np.array(a))
        if n.dot(n) >= 1.0:
            break
    off = offset or [0.0, 0.0, 0.0]
    return [[(x + o) * scale for x, o in zip(v, off)] for v in (a, b, c)]


def _offset(rng):
    if rng.random() < 0.6:
        return [0.0, 0.0, 0.0]
    s = 2.0 ** rng.choice([0, 5, 12])
    return [x * s for x in grid_vec(rng)]


def _right_tri(rng, scale):
    """axis-aligned right triangle: the cross product has one non-zero component, so its norm is exact"""
    ax = rng.randrange(3)
    w, h = rng.randint(1, 8) / 2, rng.randint(1, 8) / 2
    a = grid_vec(rng)
    b, c = list(a), list(a)
    b[(ax + 1) % 3] += w
    c[(ax + 2) % 3] += h
    t = [a, b, c]
    r = rng.randrange(3)
    t = t[r:] + t[:r]
    return [[x * scale for x in v] for v in t]


def _coplanar_point(rng, t):
    s, u = rng.randint(-2, 6) / 4, rng.randint(-2, 6) / 4
    if rng.random() < 0.3:
        u = 1 - s  # on the line through b and c
    return [t[0][j] + s * (t[1][j] - t[0][j]) + u * (t[2][j] - t[0][j]) for j in range(3)]


def _fixed_handful(rng):
    """in every run: zero samples from 1-3 non-degenerate triangles (supplied and area weights), any count from no
    triangles at all (both exercised with and without ret_face_indices), and the two argument-kind refusals"""
    out = []
    for k in (1, 2, 3):
        ts = [_tri(rng, 1.0) for _ in range(k)]
        out.append({"kind": "sample_weights", "exact": True, "tris": ts, "weights": [1.0] * k, "us": [], "abs": []})
        out.append({"kind": "sample_area", "exact": True, "dec": [], "tris": ts, "weights": None, "us": [], "abs": []})
    for count in (0, 3):
        out.append({"kind": "sample_no_triangles", "exact": True, "dec": [], "tris": [], "weights": None, "us": [], "abs": [], "n": count})
    ts = [_tri(rng, 1.0)]
    out.append({"kind": "sample_refusal", "what": "num_samples_float", "tris": ts})
    out.append({"kind": "sample_refusal", "what": "rng_not_generator", "tris": ts})
    return out


def gen_cases(rng, n, tier):
    cases = _fixed_handful(rng)
    n = max(0, n - len(cases))
    for i in range(n):
        r = rng.random()
        scale = _scale(rng, tier)
        # integer-dtype stream: the same kind of data as whole numbers in int64 arrays (moderate size: int64 products
        # must not wrap; no far offsets)
        is_int = rng.random() < 0.12
        if is_int:
            scale = 2.0 ** rng.randint(3, 5)
        if r < 0.22:
            k = rng.randint(0, 5)
            off = [0.0, 0.0, 0.0] if is_int else _offset(rng)
            ts = [_tri(rng, scale, degenerate=rng.random() < 0.15, offset=off) for _ in range(k)]
            d = [x * scale for x in grid_vec(rng)]
            cases.append({"kind": "normals", "tris": ts, "shift": d})
        elif r < 0.40 and not is_int and i % 4 == 1:
            # slivers: slender but non-degenerate triangles (height / base = 2^-18 .. 2^-26), axis-aligned and dyadic so
            # that the code's cross-product route is exact in binary64 while an expanded (Lagrange-identity) route cancels
            ts, ps = [], []
            for _ in range(rng.randint(1, 3)):
                L = 2.0 ** rng.randint(-6, 6)
                if rng.random() < 0.3:
                    # axis-aligned, dyadic: every intermediate of the cross-product route is exact
                    ax = rng.sample([0, 1, 2], 3)
                    hgt = L * 2.0 ** -rng.randint(18, 26)
                    a3 = [L * rng.randint(-2, 2) for _ in range(3)]
                    u3, v3, lift = [0.0] * 3, [0.0] * 3, [0.0] * 3
                    u3[ax[0]] = L
                    v3[ax[0]] = L * rng.choice([0.0, 0.5, 1.0])
                    v3[ax[1]] = hgt
                    lift[ax[2]] = L * rng.choice([0.0, 0.25, -1.0])
                else:
                    # general position, full-mantissa coordinates, height / base about 2^-14 .. 2^-18: the cross-product
                    # route loses about eps / (h/L) (< 1e-10), an expanded |u|^2 |v|^2 - (u.v)^2 route eps / (h/L)^2
                    a3 = [L * rng.uniform(-1, 1) for _ in range(3)]
                    u3 = [L * rng.uniform(-1, 1) for _ in range(3)]
                    p3 = [L * rng.uniform(-1, 1) for _ in range(3)]
                    sf, hf = rng.uniform(0.2, 1.0), 2.0 ** -rng.randint(14, 18)
                    v3 = [sf * u3[j] + hf * p3[j] for j in range(3)]
                    lift = [L * rng.choice([0.0, 0.25]) * rng.uniform(-1, 1) for _ in range(3)]
                b3 = [a3[j] + u3[j] for j in range(3)]
                c3 = [a3[j] + v3[j] for j in range(3)]
                w0, w1 = rng.randint(0, 4) / 4, rng.randint(0, 4) / 4
                q = [a3[j] + w0 * (b3[j] - a3[j]) + w1 * (c3[j] - a3[j]) + lift[j] for j in range(3)]
                ts.append([a3, b3, c3])
                ps.append(q)
            cases.append({"kind": "bary", "tris": ts, "points": ps, "sliver": True})
        elif r < 0.40:
            k = rng.randint(1, 4)
            ts, ps = [], []
            for _ in range(k):
                # (a zero-area triangle is outside the property's domain for barycentric weights; it is generated all the
                # same: float arrays give (1,0,0) through the epsilon guard, int64 arrays lose the guard and give a NaN
                # row -- modelled by bary_intarray)
                t = _tri(rng, scale, degenerate=rng.random() < (0.25 if is_int else 0.08))
                ts.append(t)
                ps.append(_coplanar_point(rng, t) if rng.random() < 0.5 else [x * scale for x in grid_vec(rng)])
            cases.append({"kind": "bary", "tris": ts, "points": ps})
        elif r < 0.56:
            rows = []
            for _ in range(rng.randint(1, 4)):
                t = _tri(rng, scale)
                rows.append(t + [_coplanar_point(rng, t)])
            cases.append({"kind": "contains", "rows": rows, "single": len(rows) == 1 and rng.random() < 0.5})
        elif r < 0.64:
            rows = []
            for _ in range(rng.randint(1, 4)):
                t = _tri(rng, scale, degenerate=rng.random() < 0.1)
                rows.append([t[0], t[1], _coplanar_point(rng, t), _coplanar_point(rng, t)])
            cases.append({"kind": "same_side", "rows": rows, "single": len(rows) == 1 and rng.random() < 0.5})
        elif r < 0.80:
            k = rng.randint(1, 4)
            ts = [_tri(rng, scale, degenerate=rng.random() < 0.1) for _ in range(k)]
            while True:
                ws = [rng.choice([0, 0, 1, 2, 3, 4, 6, 8]) / 4 for _ in range(k)]
                if sum(ws) > 0:
                    break
            if rng.random() < 0.35:
                ws[0] = 0.0
                if sum(ws) == 0:
                    ws[-1] = 1.0
            m = rng.randint(0, 5)
            T = sum(ws)
            cum = np.cumsum(ws)
            us = []
            for _ in range(m):
                v = rng.random()
                if v < 0.25:
                    us.append(0.0)
                elif v < 0.5:
                    # exactly on a threshold when that is representable and below 1
                    c = float(rng.choice(list(cum)))
                    x = c / T
                    us.append(x if (x < 1 and Fr(x) * Fr(T) == Fr(c)) else rng.randint(0, 15) / 16)
                else:
                    us.append(rng.randint(0, 15) / 16)
            abs_ = [[rng.randint(0, 8) / 8, rng.randint(0, 8) / 8] for _ in range(m)]
            cases.append({"kind": "sample_weights", "exact": True, "tris": ts, "weights": ws, "us": us, "abs": abs_})
        elif r < 0.88:
            k = rng.randint(1, 4)
            exact = rng.random() < 0.5
            ts = [_right_tri(rng, scale) if exact else _tri(rng, scale) for _ in range(k)]
            if exact and k > 1 and rng.random() < 0.3:
                ts[0] = _tri(rng, scale, degenerate=True)  # zero-area first face
            m = rng.randint(1, 4)
            us = [rng.choice([0.0, rng.randint(0, 15) / 16]) for _ in range(m)]
            abs_ = [[rng.randint(0, 8) / 8, rng.randint(0, 8) / 8] for _ in range(m)]
            dec = [True] * m if exact else _decided_draws(ts, us)
            cases.append({"kind": "sample_area" if all(dec) else "sample_area_some_draws_undecided", "exact": exact, "dec": dec,
                          "tris": ts, "weights": None, "us": us, "abs": abs_})
        elif r < 0.89:
            ts = [_tri(rng, scale, degenerate=True) for _ in range(rng.randint(1, 2))]
            cases.append({"kind": "sample_all_degenerate", "exact": True, "tris": ts, "weights": None, "us": [0.5],
                          "abs": [[0.25, 0.25]]})
        elif r < 0.94:
            k = rng.randint(0, 4)
            ts = [_tri(rng, scale) for _ in range(k)]
            ws = None
            if rng.random() < 0.5 and k:
                ws = [rng.choice([0, 1, 2, 3]) / 2 for _ in range(k)]
                if sum(ws) == 0:
                    ws[rng.randrange(k)] = 1.0
            cases.append({"kind": "sample_default", "tris": ts, "weights": ws, "n": rng.choice([0, 1, 3, 17]),
                          "seed": rng.choice([None, rng.randint(0, 10 ** 6)])})
        elif r < 0.95:
            ts = [_tri(rng, 1.0) for _ in range(4)]
            cases.append({"kind": "sample_frequency", "tris": ts, "weights": [1.0, 3.0, 0.0, 4.0], "n": 4000,
                          "seed": rng.randint(0, 10 ** 6)})
        elif r < 0.975:
            qs = [[rng.randint(0, 20) for _ in range(4)] for _ in range(rng.randint(0, 5))]
            cases.append({"kind": "quads", "quads": qs})
        else:
            fs = [[rng.randint(0, 20) for _ in range(3)] for _ in range(rng.randint(0, 5))]
            cases.append({"kind": "edges", "faces": fs, "normalize": rng.random() < 0.5})
        if is_int and cases[-1]["kind"] in INT_KINDS:
            cases[-1]["int"] = True
            cases[-1]["kind_detail"] = "int64"
    return cases


INT_KINDS = ("normals", "bary", "contains", "same_side", "sample_weights", "sample_area", "sample_area_some_draws_undecided")
SAMPLE_FIXED = ("sample_weights", "sample_area", "sample_area_some_draws_undecided", "sample_all_degenerate",
                "sample_no_triangles")
# theorems that only restate the shape of the model (reported separately by the driver)
DEFINITIONAL = ["C15_normal_is_cross", "C15_stacked_is_map_single", "C15_bary_pairs_is_map_single",
                "C15_contains_is_three_same_side", "C15_bary_integer_arrays"]


def _decided_draws(ts, us):
    """per draw: is u*T at least 1e-8 T away from every cumulative area weight?  (areas in binary64 exactly as NumPy
    computes them; a draw nearer than that to a threshold is not judged by the correspondence and is counted in the
    evidence through the case kind `sample_area_some_draws_undecided`)"""
    t = np.array(ts, dtype=np.float64).reshape(-1, 3, 3)
    n = np.cross(t[:, 1] - t[:, 0], t[:, 2] - t[:, 0])
    cum = np.cumsum(0.5 * np.sqrt((n * n).sum(axis=1)))
    T = float(cum[-1])
    return [bool(T > 0 and np.all(np.abs(u * T - cum) > 1e-8 * T)) for u in us]


def _arr(x, c, shape):
    a = np.array(x, dtype=np.float64).reshape(shape)
    if c.get("int"):
        b = a.astype(np.int64)
        if np.array_equal(a, b):  # (a case whose data are not whole numbers simply stays float64)
            return b
    return a


# ---------------------------------------------------------------------------------------------------------
# implementation runs
# ---------------------------------------------------------------------------------------------------------
def _tris(ts):
    return np.array(ts, dtype=np.float64).reshape(-1, 3, 3)


def run_impl(c):
    from polliwog.line import coplanar_points_are_on_same_side_of_line
    from polliwog.tri import (barycentric_coordinates_of_points, edges_of_faces, quads_to_tris, sample, surface_area,
                              surface_normals, tri_contains_coplanar_point)

    def go():
        kind = c["kind"]
        if kind == "normals":
            ts = _arr(c["tris"], c, (-1, 3, 3))
            before = ts.copy()
            with np.errstate(all="ignore"):
                o = {"raw": surface_normals(ts, normalize=False).tolist(), "unit": surface_normals(ts).tolist(),
                     "area": surface_area(ts).tolist()}
                for name, tt in (("cyc", ts[:, [1, 2, 0]]), ("shift", ts + _arr(c["shift"], c, (3,))), ("swap", ts[:, [0, 2, 1]])):
                    o[name + "_raw"] = surface_normals(tt, normalize=False).tolist()
                    o[name + "_unit"] = surface_normals(tt).tolist()
                    o[name + "_area"] = surface_area(tt).tolist()
                o["single_raw"] = [surface_normals(t, normalize=False).tolist() for t in ts]
                o["single_unit"] = [surface_normals(t).tolist() for t in ts]
                o["single_area"] = [float(surface_area(t)) for t in ts]
            o["args_unchanged"] = bool(np.array_equal(before, ts))
            return o
        if kind == "bary":
            ts, ps = _arr(c["tris"], c, (-1, 3, 3)), _arr(c["points"], c, (-1, 3))
            before = (ts.copy(), ps.copy())
            with np.errstate(all="ignore"):
                w = barycentric_coordinates_of_points(ts, ps)
            return {"w": w.tolist(), "int_dtype": bool(ts.dtype.kind == "i"), "args_unchanged": bool(np.array_equal(before[0], ts) and np.array_equal(before[1], ps))}
        if kind in ("contains", "same_side"):
            f = tri_contains_coplanar_point if kind == "contains" else coplanar_points_are_on_same_side_of_line
            rows = _arr(c["rows"], c, (-1, 4, 3))
            one = [bool(f(r[0], r[1], r[2], r[3])) for r in rows]
            if c["single"]:
                return {"res": one, "single": one}
            st = f(rows[:, 0], rows[:, 1], rows[:, 2], rows[:, 3])
            return {"res": [bool(x) for x in st], "single": one}
        if kind in SAMPLE_FIXED:
            ts = _arr(c["tris"], c, (-1, 3, 3))
            ws = None if c["weights"] is None else np.array(c["weights"], dtype=np.float64)
            m = c.get("n", len(c["us"]))

            def draws():
                return FixedDraws([np.array(c["us"], dtype=np.float64), np.array(c["abs"], dtype=np.float64).reshape(-1)])

            with np.errstate(all="ignore"):
                pts, fi = sample(ts, m, rng=draws(), weights=ws, ret_face_indices=True)
                only_pts = sample(ts, m, rng=draws(), weights=ws)
            return {"points": pts.tolist(), "faces": [int(x) for x in fi],
                    "points_only_same": bool(np.array_equal(only_pts, pts))}
        if kind == "sample_refusal":
            ts = _tris(c["tris"])
            if c["what"] == "num_samples_float":
                r = sample(ts, 2.0)
            else:
                r = sample(ts, 2, rng=np.random.RandomState(0))
            return {"shape": list(np.asarray(r).shape)}
        if kind in ("sample_default", "sample_frequency"):
            ts = _tris(c["tris"])
            ws = None if c["weights"] is None else np.array(c["weights"], dtype=np.float64)

            def rng():
                return None if c["seed"] is None else np.random.default_rng(c["seed"])

            p1, f1 = sample(ts, c["n"], rng=rng(), weights=ws, ret_face_indices=True)
            p2, f2 = sample(ts, c["n"], rng=rng(), weights=ws, ret_face_indices=True)
            o = {"shape": list(p1.shape), "faces": [int(x) for x in f1], "same": bool(np.array_equal(p1, p2) and np.array_equal(f1, f2))}
            if kind == "sample_default":
                o["points"] = p1.tolist()
            else:
                o["counts"] = np.bincount(np.asarray(f1, dtype=np.int64), minlength=len(ts)).tolist()
                o["inside"] = bool(_all_inside_float(ts, p1, f1))
            return o
        if kind == "quads":
            qs = np.array(c["quads"], dtype=np.int64).reshape(-1, 4)
            tris, mp = quads_to_tris(qs, ret_mapping=True)
            return {"tris": tris.tolist(), "mapping": mp.tolist(), "plain_same": bool(np.array_equal(quads_to_tris(qs), tris)),
                    "dtype": str(tris.dtype)}
        fs = np.array(c["faces"], dtype=np.int64).reshape(-1, 3)
        return {"edges": edges_of_faces(fs, normalize=c["normalize"]).tolist()}

    return call_impl(go)


def _all_inside_float(ts, pts, fi):
    for p, i in zip(pts, fi):
        a, b, cc = ts[int(i)]
        n = np.cross(b - a, cc - a)
        s = n.dot(n)
        w2 = np.cross(b - a, p - a).dot(n) / s
        w1 = np.cross(p - a, cc - a).dot(n) / s
        if min(w1, w2, 1 - w1 - w2) < -1e-9 or abs((p - a).dot(n)) > 1e-9 * max(1.0, s):
            return False
    return True


# ---------------------------------------------------------------------------------------------------------
# Coq case terms
# ---------------------------------------------------------------------------------------------------------
def _tri_q(t):
    return "(Tri %s %s %s)" % (qv(t[0]), qv(t[1]), qv(t[2]))


def _vecs(vs):
    return coq_list(flv(v) for v in vs)


BAD = "CContains [] [true]"  # a case that fails in Coq: used when the implementation raised unexpectedly


def coq_case(c, o):
    kind = c["kind"]
    raised = isinstance(o, dict) and "raise" in o
    if kind in SAMPLE_FIXED:
        ws = "None" if c["weights"] is None else "(Some %s)" % coq_list(q(w) for w in c["weights"])
        obs = ("(Raise %s)" % o["raise"]) if raised else "(Ok (%s, %s))" % (_vecs(o["points"]), coq_list(coq_nat(i) for i in o["faces"]))
        dec = c["dec"] if "dec" in c else [True] * len(c["us"])
        return "CSample %s %s %s %s %s %s" % (
            coq_list(coq_bool(d) for d in dec), coq_list(_tri_q(t) for t in c["tris"]), ws, coq_list(q(u) for u in c["us"]),
            coq_list("(%s, %s)" % (q(a), q(b)) for a, b in c["abs"]), obs)
    if kind == "sample_refusal":
        return "COracleOnly"  # argument-kind refusals are not part of the model: judged by the oracle only
    if raised:
        return BAD
    if kind == "normals":
        return "CNormals %s %s %s %s" % (coq_list(_tri_q(t) for t in c["tris"]), _vecs(o["raw"]), _vecs(o["unit"]), flv(o["area"]))
    if kind == "bary":
        return "CBary %s %s %s %s" % (coq_bool(bool(o.get("int_dtype"))), coq_list(_tri_q(t) for t in c["tris"]),
                                      coq_list(qv(p) for p in c["points"]), _vecs(o["w"]))
    if kind in ("contains", "same_side"):
        rows = coq_list("(Row4 %s %s %s %s)" % tuple(qv(v) for v in r) for r in c["rows"])
        return "%s %s %s" % ("CContains" if kind == "contains" else "CSameSide", rows, coq_list(coq_bool(b) for b in o["res"]))
    if kind == "quads":
        return "CQuads %s %s %s" % (
            coq_list("(Quad %s)" % " ".join(coq_Z(x) for x in r) for r in c["quads"]),
            coq_list("(Face %s)" % " ".join(coq_Z(x) for x in r) for r in o["tris"]),
            coq_list("(%s, %s)" % (coq_Z(a), coq_Z(b)) for a, b in o["mapping"]))
    if kind == "edges":
        return "CEdges %s %s %s" % (
            coq_bool(c["normalize"]), coq_list("(Face %s)" % " ".join(coq_Z(x) for x in r) for r in c["faces"]),
            coq_list("(%s, %s)" % (coq_Z(a), coq_Z(b)) for a, b in o["edges"]))
    return "COracleOnly"


# ---------------------------------------------------------------------------------------------------------
# oracle: the property text on the implementation's outputs, exact rational arithmetic
# ---------------------------------------------------------------------------------------------------------
TOL = Fr(1, 10 ** 9)


def _F(v):
    return [Fr(float(x)) for x in v]


def _sub(a, b):
    return [x - y for x, y in zip(a, b)]


def _dot(a, b):
    return sum(x * y for x, y in zip(a, b))


def _cross(a, b):
    return [a[1] * b[2] - a[2] * b[1], a[2] * b[0] - a[0] * b[2], a[0] * b[1] - a[1] * b[0]]


def _nan_row(v):
    return all(isinstance(x, float) and math.isnan(x) for x in v)


def _finite(v):
    return all(isinstance(x, (int, float)) and math.isfinite(x) for x in v)


def _vclose(obs, want, mag):
    return all(abs(Fr(float(a)) - b) <= TOL * mag for a, b in zip(obs, want))


def _weights(t, p):
    """exact barycentric weights of the projection of p (t non-degenerate) and the out-of-plane offset"""
    a, b, c = t
    u, v, w = _sub(b, a), _sub(c, a), _sub(p, a)
    n = _cross(u, v)
    s = _dot(n, n)
    b2 = _dot(_cross(u, w), n) / s
    b1 = _dot(_cross(w, v), n) / s
    return [1 - b1 - b2, b1, b2], _dot(w, n), n, s


def _normals_oracle(c, o):
    if not o["args_unchanged"]:
        return "argument array was modified"
    ts = [[_F(v) for v in t] for t in c["tris"]]
    k = len(ts)
    for key in ("raw", "unit", "area"):
        if len(o[key]) != k:
            return "surface_%s returned %d rows for %d triangles" % (key, len(o[key]), k)
    for i, t in enumerate(ts):
        n = _cross(_sub(t[1], t[0]), _sub(t[2], t[0]))
        nn = _dot(n, n)
        # tolerances relative to the size of the triangle itself (products of its edge components), not floored at 1:
        # a small triangle is judged at its own scale
        e = max([abs(x) for x in _sub(t[1], t[0]) + _sub(t[2], t[0])] + [Fr(1, 2 ** 1000)])
        mag = 2 * e * e
        if not _finite(o["raw"][i]) or not _vclose(o["raw"][i], n, mag):
            return "un-normalised normal of triangle %d is not cross(p2-p1, p3-p1)" % i
        a2 = Fr(float(o["area"][i])) ** 2
        if abs(4 * a2 - nn) > 4 * TOL * mag * mag or o["area"][i] < 0:
            return "area of triangle %d is not half the length of the cross product" % i
        variants = (("cyc", 1), ("shift", 1), ("swap", -1), ("single", 1))
        if nn == 0:
            for name, sg in variants:
                if not _vclose(o[name + "_raw"][i], n, mag) or abs(o[name + "_area"][i]) > 1e-300:
                    return "degenerate triangle %d: %s variant has non-zero normal or area" % (i, name)
            continue
        un = o["unit"][i]
        if not _finite(un):
            return "normalised normal of non-degenerate triangle %d is not finite" % i
        uf = _F(un)
        if abs(_dot(uf, uf) - 1) > TOL * 10:
            return "normalised normal of triangle %d does not have unit length" % i
        cr = _cross(uf, n)
        if _dot(uf, n) <= 0 or _dot(cr, cr) > TOL * TOL * nn * 100:
            return "normalised normal of triangle %d is not parallel to the cross product" % i
        for name, sg in variants:
            if not _vclose(o[name + "_raw"][i], [sg * x for x in n], mag):
                return "%s variant: un-normalised normal of triangle %d is not %s the original" % (name, i, "minus" if sg < 0 else "equal to")
            if not _finite(o[name + "_unit"][i]) or not _vclose(o[name + "_unit"][i], [sg * x for x in uf], 1):
                return "%s variant: normalised normal of triangle %d is not %s the original" % (name, i, "minus" if sg < 0 else "equal to")
            if abs(Fr(float(o[name + "_area"][i])) - Fr(float(o["area"][i]))) > TOL * abs(Fr(float(o["area"][i]))):
                return "%s variant: area of triangle %d changed" % (name, i)
    return None


def _bary_oracle(c, o):
    if not o["args_unchanged"]:
        return "argument array was modified"
    if len(o["w"]) != len(c["tris"]):
        return "wrong number of weight rows"
    for i, (t, p) in enumerate(zip(c["tris"], c["points"])):
        t, p = [_F(v) for v in t], _F(p)
        if _area_sq(t) == 0:
            continue  # zero-area triangle: outside the property's domain for barycentric weights (judged by the model only)
        if not _finite(o["w"][i]):
            return "weights of row %d are not finite" % i
        w = _F(o["w"][i])
        wm = max([1] + [abs(x) for x in w])
        if abs(sum(w) - 1) > TOL * wm:
            return "weights of row %d sum to %s, not 1" % (i, float(sum(w)))
        n = _cross(_sub(t[1], t[0]), _sub(t[2], t[0]))
        s = _dot(n, n)
        if s == 0:
            continue
        h = _dot(_sub(p, t[0]), n) / s
        proj = [p[j] - h * n[j] for j in range(3)]
        rec = [sum(w[m] * t[m][j] for m in range(3)) for j in range(3)]
        # tolerance relative to the size of the data (no floor at 1: small triangles must be judged at their own scale)
        mag = max([abs(x) for v in t for x in v] + [abs(x) for x in p]) * wm
        if any(abs(rec[j] - proj[j]) > TOL * mag for j in range(3)):
            return "weights of row %d do not reconstruct the projection of the point onto the triangle's plane" % i
        # the weights that do reconstruct the projection are unique (and independent of scale)
        exact, _, _, _ = _weights(t, p)
        if any(abs(w[m] - exact[m]) > 1000 * TOL * max(1, max(abs(x) for x in exact)) for m in range(3)):
            return "weights of row %d are %s, the weights of the projected point are %s" % (
                i, [float(x) for x in w], [float(x) for x in exact])
    return None


def _contains_oracle(c, o):
    if o["res"] != o["single"]:
        return "stacked call and row-by-row calls disagree: %r vs %r" % (o["res"], o["single"])
    for i, r in enumerate(c["rows"]):
        a, b, cc, p = [_F(v) for v in r]
        if c["kind"] == "same_side":
            al = _sub(b, a)
            want = _dot(_cross(al, _sub(cc, a)), _cross(al, _sub(p, a))) >= 0
            if o["res"][i] != want:
                return "same-side test of row %d is %r but the product of the two cross products is %s 0" % (i, o["res"][i], ">=" if want else "<")
            continue
        w, off, n, s = _weights([a, b, cc], p)
        if off != 0:
            continue  # not exactly coplanar (cannot happen with the dyadic generators)
        want = all(x >= 0 for x in w)
        if o["res"][i] != want:
            return "row %d: contains=%r but barycentric weights are %s" % (i, o["res"][i], [float(x) for x in w])
    return None


def _area_sq(t):
    n = _cross(_sub(t[1], t[0]), _sub(t[2], t[0]))
    return _dot(n, n)


def _sample_fixed_oracle(c, o):
    ts = [[_F(v) for v in t] for t in c["tris"]]
    m = len(c["us"])
    if len(o["points"]) != m or len(o["faces"]) != m:
        return "sample returned %d points / %d indices for num_samples=%d" % (len(o["points"]), len(o["faces"]), m)
    if not o["points_only_same"]:
        return "points differ between ret_face_indices on and off for the same draws"
    ws = None if c["weights"] is None else _F(c["weights"])
    for j, (fi, p) in enumerate(zip(o["faces"], o["points"])):
        if not (0 <= fi < len(ts)):
            return "face index %d out of range" % fi
        zero = (ws[fi] == 0) if ws is not None else (_area_sq(ts[fi]) == 0)
        if zero:
            return "sample %d (u=%r) was drawn from face %d whose weight is zero" % (j, c["us"][j], fi)
        if ws is not None:
            cum = [sum(ws[:i + 1]) for i in range(len(ws))]
            x = Fr(c["us"][j]) * cum[-1]
            lo = cum[fi - 1] if fi > 0 else 0
            if not (lo <= x <= cum[fi]):
                return "sample %d: u*T=%s is outside the weight interval [%s, %s] of the chosen face %d" % (j, float(x), float(lo), float(cum[fi]), fi)
        a, b = Fr(c["abs"][j][0]), Fr(c["abs"][j][1])
        if a + b > 1:
            a, b = 1 - a, 1 - b
        t = ts[fi]
        want = [t[0][k] + a * (t[1][k] - t[0][k]) + b * (t[2][k] - t[0][k]) for k in range(3)]
        mag = max([abs(x) for v in t for x in v] + [Fr(1, 2 ** 1000)])
        if not _finite(p) or not _vclose(p, want, mag):
            # the point may still be a legitimate point of the triangle (a different but valid use of the draws)
            if _area_sq(t) != 0:
                w, off, n, s = _weights(t, _F(p))
                if min(w) < -TOL or off * off > TOL * TOL * s * mag * mag:
                    return "sample %d = %r is not inside triangle %d" % (j, p, fi)
            else:
                return "sample %d = %r is not the point of (degenerate) triangle %d given by the draws" % (j, p, fi)
    return None


def _sample_default_oracle(c, o):
    n, k = c["n"], len(c["tris"])
    if not o["same"]:
        return "two calls with identical generator state returned different samples"
    want_n = 0 if k == 0 else n
    if o["shape"] != [want_n, 3] or len(o["faces"]) != want_n:
        return "sample returned shape %r / %d indices for num_samples=%d, k=%d" % (o["shape"], len(o["faces"]), n, k)
    ts = [[_F(v) for v in t] for t in c["tris"]]
    ws = None if c["weights"] is None else c["weights"]
    if c["kind"] == "sample_frequency":
        if not o["inside"]:
            return "a sample lies outside the triangle named by its face index"
        T = sum(ws)
        for i, w in enumerate(ws):
            got, p = o["counts"][i], w / T
            if w == 0 and got:
                return "zero-weight face %d was sampled %d times" % (i, got)
            if abs(got - n * p) > 6 * math.sqrt(n * p * (1 - p)) + 1:
                return "face %d sampled %d times out of %d, expected about %.0f (weights %r)" % (i, got, n, n * p, ws)
        return None
    for j, (fi, p) in enumerate(zip(o["faces"], o["points"])):
        if not (0 <= fi < k):
            return "face index %d out of range" % fi
        if ws is not None and ws[fi] == 0:
            return "sample %d was drawn from face %d whose weight is zero" % (j, fi)
        t = ts[fi]
        w, off, nrm, s = _weights(t, _F(p))
        mag = max([abs(x) for v in t for x in v] + [Fr(1, 2 ** 1000)])
        if min(w) < -TOL or off * off > TOL * TOL * s * mag * mag:
            return "sample %d = %r is not inside triangle %d" % (j, p, fi)
    return None


def _quads_oracle(c, o):
    qs = c["quads"]
    if o["dtype"] != "int64" or not o["plain_same"]:
        return "quads_to_tris: dtype or ret_mapping=False result differs"
    if len(o["tris"]) != 2 * len(qs) or len(o["mapping"]) != len(qs):
        return "quads_to_tris: wrong number of rows"
    for i, qd in enumerate(qs):
        cyc = [[qd[(s + j) % 4] for j in range(4)] for s in range(4)]
        pair = (o["tris"][2 * i], o["tris"][2 * i + 1])
        # both triangles must run in the quad's cyclic order and together cover the quad along one diagonal
        ok = any((pair[0] in ([r[0], r[1], r[2]], [r[1], r[2], r[0]], [r[2], r[0], r[1]])) and
                 (pair[1] in ([r[0], r[2], r[3]], [r[2], r[3], r[0]], [r[3], r[0], r[2]])) for r in cyc)
        if not ok:
            return "quad %d %r was split into %r, which does not keep its winding" % (i, qd, pair)
        if o["mapping"][i] != [2 * i, 2 * i + 1]:
            return "mapping row %d is %r" % (i, o["mapping"][i])
    return None


def _edges_oracle(c, o):
    fs = c["faces"]
    if len(o["edges"]) != 3 * len(fs):
        return "edges_of_faces returned %d rows for %d faces" % (len(o["edges"]), len(fs))
    for i, f in enumerate(fs):
        got = [tuple(e) for e in o["edges"][3 * i:3 * i + 3]]
        want = [(f[0], f[1]), (f[1], f[2]), (f[2], f[0])]
        if c["normalize"]:
            if any(e[0] > e[1] for e in got):
                return "normalized edge not ascending in face %d" % i
            if sorted(got) != sorted(tuple(sorted(e)) for e in want):
                return "face %d %r: edges %r are not its three edges once each" % (i, f, got)
        else:
            rots = [want[s:] + want[:s] for s in range(3)]
            if got not in rots:
                return "face %d %r: edges %r are not its three directed edges in winding order" % (i, f, got)
    return None


def oracle(c, o):
    kind = c["kind"]
    if kind == "sample_refusal":
        # a non-int sample count / a non-Generator rng must be refused with ValueError (the code's documented argument
        # types; functions.py raises it explicitly)
        if isinstance(o, dict) and "raise" in o:
            return None if o["raise"] == "ValueError" else "%s: refused with %s instead of ValueError" % (c["what"], o["raise"])
        return "%s: accepted (returned shape %r) instead of raising ValueError" % (c["what"], o["shape"])
    if isinstance(o, dict) and "raise" in o:
        if kind == "sample_all_degenerate":
            return None  # total weight 0: outside the property's domain (needs a positive weight)
        return "unexpected exception %s: %s" % (o["raise"], o.get("msg"))
    if kind == "normals":
        return _normals_oracle(c, o)
    if kind == "bary":
        return _bary_oracle(c, o)
    if kind in ("contains", "same_side"):
        return _contains_oracle(c, o)
    if kind in ("sample_weights", "sample_area", "sample_area_some_draws_undecided", "sample_no_triangles"):
        return _sample_fixed_oracle(c, o)
    if kind == "sample_all_degenerate":
        return None
    if kind in ("sample_default", "sample_frequency"):
        return _sample_default_oracle(c, o)
    if kind == "quads":
        return _quads_oracle(c, o)
    return _edges_oracle(c, o)


def classify(c, o, failure, disagrees):
    return None

# added with seeded rounds 6-7 (DESIGN 8.6)
RULE = RULE + '; sliver triangles (height/base 2^-14..2^-26: an exact dyadic axis-aligned family and a full-mantissa general-position family) in the barycentric cases'
