"""C03 — CompositeTransform applies its steps in order and reverse undoes them."""
from fractions import Fraction as Fr

import numpy as np

from common import Kernel, call_impl, coq_bool, coq_list, coq_nat, coq_Z, flv, grid, grid_vec, q, qv
from props import C11 as _c11

ID = "C03"
N_CASES = {"quick": 120, "thorough": 1600, "search": 1200}
SHARD = 24
RULE = ("seeded histories of 0-8 appending calls over all nine methods (rotations as rational rotation matrices and "
        "as Rodrigues vectors, explicit matrices with and without their inverse, unit conversions through ounce, "
        "rejected calls: zero / negative factors, flip dims outside 0..2, singular explicit matrices, degenerate "
        "reorient); per history: every returned index, the stored pairs, transform_matrix_for and __call__ on "
        "all-steps and 2-4 sub-ranges (10% outside 0<=a<=b<=len to exercise Python slice semantics), reverse on/off, "
        "single and stacked points, treat_input_as_vector / discard_z_coord on/off; non-trivial = history with at "
        "least one accepted step; distinct by hash")
TRUSTED = _c11.TRUSTED + ["np.linalg.inv is modelled by the cofactor inverse (Mat.minv); ounce.factor is data"]
CASE_IMPORTS = [("PW.model", "M_rodrigues"), ("PW.model", "M_affine"), ("PW.model", "M_rotation"),
                ("PW.model", "M_composite")]
ASSUMPTIONS = ["theorems are about exact real arithmetic; binary64 rounding is covered only by the tolerance of the "
               "correspondence check on sampled inputs",
               "explicit matrices passed to append_transform are assumed affine (last row 0,0,0,1) and, when a reverse "
               "matrix is passed, really inverse; rotation matrices passed to rotate are assumed orthogonal "
               "(op_ok in proofs/P_composite.v): apply_transform drops w without dividing, so for projective matrices "
               "the composed call is not the sequential action",
               "ounce unit factors are inputs (positive reals)"]

DEFINITIONAL = ["C03_append_returns_index", "C03_error_leaves_state", "C03_single_equals_stack_row", "C03_discard_z_only_drops_z"]
BASE_RULE = RULE
_STATS = {}


def _count(key):
    """what was actually reached in this run, by method / outcome / query form; appended to RULE for the evidence"""
    global RULE
    _STATS[key] = _STATS.get(key, 0) + 1
    RULE = BASE_RULE + " | reached in this run: " + ", ".join("%s=%d" % kv for kv in sorted(_STATS.items()))


UNITS = ["mm", "cm", "m", "in", "ft"]


def _imports():
    return [("PW.model", "M_rodrigues"), ("PW.model", "M_affine"), ("PW.model", "M_rotation"),
            ("PW.model", "M_composite")]


UNF = "cbv -[Rplus Rminus Rmult Rdiv Ropp Rinv IZR Rltb Rleb Reqb sqrt cos sin acos Rabs Rlt Rle]"


def kernels():
    """symbolic histories: the real CompositeTransform object driven with symbolic parameters"""
    from polliwog import CompositeTransform

    ks = []

    def hist1(s, t, f, p):
        ct = CompositeTransform()
        i0 = ct.uniform_scale(s[0])
        i1 = ct.translate(t)
        # the object is used while it is being built up: the same questions are asked again after more appends
        early = (ct.transform_matrix_for(), ct.transform_matrix_for(reverse=True), ct(p), ct(p, reverse=True))
        i2 = ct.non_uniform_scale(f[0], f[1], f[2], allow_flipping=True)
        i3 = ct.flip(1)
        assert (i0, i1, i2, i3) == (0, 1, 2, 3)
        return _c11._full(early + (ct.transform_matrix_for(), ct.transform_matrix_for(reverse=True),
                           ct.transform_matrix_for(from_range=(1, 3)), ct.transform_matrix_for(from_range=(1, 3), reverse=True),
                           ct(p), ct(p, reverse=True), ct(p, from_range=(2, 4), treat_input_as_vector=True),
                           ct(p, from_range=(0, 2), discard_z_coord=True)), p)

    OPS1 = ("[OUniformScale s0 false; OTranslate (V3 t0 t1 t2); ONonUniformScale f0 f1 f2 true; OFlip 1]")
    ks.append(Kernel(
        "history_scale_translate_flip",
        {"s": [2.0], "t": [0.5, -1.0, 3.0], "f": [1.5, -2.0, 0.5], "p": [1.0, 2.0, -0.5]}, hist1,
        """Lemma {T}_ok : forall {vars} : R, {T}_path ROps {vars} ->
  let st := run_ops ROps %s [] in let P := V3 p0 p1 p2 in
  let st2 := run_ops ROps [OUniformScale s0 false; OTranslate (V3 t0 t1 t2)] [] in
  {T} ROps {vars} =
  mlist (transform_matrix_for ROps st2 None false) ++ mlist (transform_matrix_for ROps st2 None true) ++
  call_single ROps st2 None false false false P ++ call_single ROps st2 None true false false P ++
  mlist (transform_matrix_for ROps st None false) ++ mlist (transform_matrix_for ROps st None true) ++
  mlist (transform_matrix_for ROps st (Some (1, 3)%%Z) false) ++ mlist (transform_matrix_for ROps st (Some (1, 3)%%Z) true) ++
  call_single ROps st None false false false P ++ call_single ROps st None true false false P ++
  call_single ROps st (Some (2, 4)%%Z) false false true P ++ call_single ROps st (Some (0, 2)%%Z) false true false P.
Proof. intros {vars} Hpath. unfold {T}_path in Hpath; rops. path_facts Hpath.
  unfold run_ops, step_state, step, op_pair. cbn [fold_left Z.eqb Pos.eqb].
  unfold tm_uniform_scale, tm_non_uniform_scale, n0, n1; rops.
  repeat match goal with |- context [Reqb ?a ?b] => destruct (Reqb_spec a b) as [?E|?E]; [exfalso; first [contradiction | lra]|] end.
  cbn [orb negb andb].
  repeat match goal with |- context [Rltb ?a ?b] => destruct (Rltb_spec a b) as [?E|?E]; [exfalso; lra|] end.
  cbn [orb negb andb rmap app fst snd]. unfold {T}. %s.
  list_eq ltac:(first [ring | (field; repeat split; first [assumption | lra])]). Qed.""" % (OPS1, UNF),
        imports=_imports(), timeout=600))

    rot = [[2 / 3, -1 / 3, 2 / 3], [2 / 3, 2 / 3, -1 / 3], [-1 / 3, 2 / 3, 2 / 3]]
    g = [[1.0, 0.5, -2.0, 3.0], [0.25, -1.0, 2.0, -0.5], [4.0, 1.5, 0.5, 1.0], [0.0, 0.0, 0.0, 1.0]]
    h = [[0.5, 2.0, 1.0, -1.0], [1.0, 0.0, -0.5, 2.0], [3.0, 1.0, 1.0, 0.5], [0.0, 0.0, 0.0, 1.0]]

    def hist2(r, t, g, h, p):
        ct = CompositeTransform()
        i0 = ct.rotate(r)
        i1 = ct.translate(t)
        i2 = ct.append_transform(g, h)
        assert (i0, i1, i2) == (0, 1, 2)
        return _c11._full((ct.transform_matrix_for(), ct.transform_matrix_for(reverse=True),
                           ct.transform_matrix_for(from_range=(0, 2), reverse=True),
                           ct(p), ct(p, reverse=True), ct(p, from_range=(1, 3))), p)

    OPS2 = ("[ORotate (RotMat (M3 r0 r1 r2 r3 r4 r5 r6 r7 r8)); OTranslate (V3 t0 t1 t2); OAppend %s (Some %s)]"
            % (_c11._M4("g"), _c11._M4("h")))
    ks.append(Kernel(
        "history_rotate_translate_append",
        {"r": rot, "t": [0.5, -1.0, 3.0], "g": g, "h": h, "p": [[1.0, 2.0, -0.5], [0.5, 0.25, 4.0]]}, hist2,
        """Lemma {T}_ok : forall {vars} : R,
  let st := run_ops ROps %s [] in let P := [V3 p0 p1 p2; V3 p3 p4 p5] in
  {T} ROps {vars} =
  mlist (transform_matrix_for ROps st None false) ++ mlist (transform_matrix_for ROps st None true) ++
  mlist (transform_matrix_for ROps st (Some (0, 2)%%Z) true) ++
  flat_map (fun x => x) (call_stack ROps st None false false false P) ++
  flat_map (fun x => x) (call_stack ROps st None true false false P) ++
  flat_map (fun x => x) (call_stack ROps st (Some (1, 3)%%Z) false false false P).
Proof. intros. unfold st, P, run_ops, step_state, step, op_pair. cbn [fold_left rmap app fst snd].
  unfold {T}. %s. list_eq_ring. Qed.""" % (OPS2, UNF),
        imports=_imports(), timeout=600))
    return ks


# ---------------------------------------------------------------------------------------------------------
def _gen_op(rng, tier, wild=True):
    """wild: also steps outside the documented argument domain (non-affine explicit matrices without an inverse,
    non-orthogonal matrices passed to rotate): the model mirrors the code there too (cofactor inverse vs
    np.linalg.inv, transpose as 'inverse'); the oracle judges only what the property states for them"""
    u = rng.random()
    sc = 2.0 ** rng.randint(-3, 3) if tier != "thorough" else 2.0 ** rng.randint(-8, 8)
    if u < 0.12:
        v = rng.random()
        s = rng.choice([0.5, 2.0, 1.5, 3.0, 0.25, 10.0, 0.75])
        allow = rng.random() < 0.4
        if v < 0.15:
            s = 0.0
        elif v < 0.4:
            s = -s
        return {"op": "uniform_scale", "s": s, "allow": allow}
    if u < 0.24:
        f = [rng.choice([0.5, 2.0, 1.5, 3.0, 0.25, 1.0, 4.0]) for _ in range(3)]
        allow = rng.random() < 0.4
        v = rng.random()
        if v < 0.12:
            f[rng.randrange(3)] = 0.0
        elif v < 0.4:
            f[rng.randrange(3)] *= -1
        return {"op": "non_uniform_scale", "f": f, "allow": allow}
    if u < 0.32:
        a, b = rng.choice(UNITS), rng.choice(UNITS)
        return {"op": "convert_units", "from": a, "to": b}
    if u < 0.42:
        return {"op": "flip", "dim": rng.choice([0, 1, 2, 0, 1, 2, 0, 1, 2, 3, -1, 5])}
    if u < 0.58:
        return {"op": "translate", "t": [x * sc for x in grid_vec(rng)]}
    if u < 0.68:
        if wild and rng.random() < 0.3:
            return {"op": "rotate_matrix", "r": [grid_vec(rng, -2, 2) for _ in range(3)], "nonorth": True}
        return {"op": "rotate_matrix", "r": _c11._quat_rotation(rng)}
    if u < 0.76:
        r = [x * rng.choice([0.25, 1.0, 1.0]) for x in grid_vec(rng)]
        if 0 < np.linalg.norm(r) < 1e-3:
            r = [0.0, 0.0, 0.0]
        return {"op": "rotate_rodrigues", "r": r}
    if u < 0.86:
        v = rng.random()
        if v < 0.12:
            up, look = [0.0, 0.0, 0.0], grid_vec(rng)
        elif v < 0.2:
            up, look = [0.0, 2.0, 0.0], [0.0, -1.0, 0.0]
        else:
            while True:
                up, look = grid_vec(rng), grid_vec(rng)
                cr = np.cross(up, look)
                if np.linalg.norm(cr) > 1e-2 * np.linalg.norm(up) * np.linalg.norm(look) > 0:
                    break
        if v >= 0.2 and rng.random() < 0.08:
            # "at any magnitude": the same directions at the far ends of the binary64 range
            import math
            ku, kl = [rng.choice([1, -1]) * rng.randint(520, 1020) for _ in range(2)]
            return {"op": "reorient", "up": [math.ldexp(x, ku) for x in up], "look": [math.ldexp(x, kl) for x in look],
                    "exp": [ku, kl]}
        return {"op": "reorient", "up": up, "look": look}
    # explicit matrix
    v = rng.random()
    if v < 0.12:
        m = [[0.0] * 4 for _ in range(4)]
        if rng.random() < 0.5:
            m = _c11._grid_m4(rng, True)
            for i in range(4):
                m[i][1] = 0.0  # a zero column: exactly singular, LU meets an exact zero pivot
        return {"op": "append", "f": m, "r": None}
    if wild and v < 0.3:
        # arbitrary invertible 4x4 (projective), inverse left to np.linalg.inv
        while True:
            m = _c11._grid_m4(rng, False)
            if abs(np.linalg.det(np.array(m))) >= 1.0 and m[3] != [0.0, 0.0, 0.0, 1.0]:
                return {"op": "append", "f": m, "r": None, "projective": True}
    while True:
        m = _c11._grid_m4(rng, True)
        d = np.linalg.det(np.array(m))
        if abs(d) >= 1.0:
            break
    if v < 0.6:
        return {"op": "append", "f": m, "r": None}
    inv = np.linalg.inv(np.array(m))
    inv[3] = [0.0, 0.0, 0.0, 1.0]
    return {"op": "append", "f": m, "r": inv.tolist()}


def _gen_range(rng, n, wild):
    if wild:
        return [rng.randint(-n - 2, n + 2), rng.randint(-n - 2, n + 2)]
    a = rng.randint(0, n)
    return [a, rng.randint(a, n)]


def _gen_call(rng, r, as_int=False):
    sc = 2.0 ** rng.randint(-3, 3)
    if as_int:  # integer-dtype point array (integer-valued coordinates)
        pts = [[float(rng.randint(-9, 9)) for _ in range(3)] for _ in range(rng.randint(1, 3))]
    else:
        pts = [[x * sc for x in grid_vec(rng)] for _ in range(rng.randint(1, 3))]
    return {"ev": "query", "q": "call", "range": r, "rev": rng.random() < 0.4, "discard": rng.random() < 0.25,
            "asvec": rng.random() < 0.3, "points": pts, "int": as_int}


def _gen_query(rng, n, r, as_int=False):
    if rng.random() < 0.45:
        return {"ev": "query", "q": "matrix", "range": r, "rev": rng.random() < 0.4}
    return _gen_call(rng, r, as_int)


def gen_queries(rng, n, tier):
    """queries put to the object when it has n steps: the default (all steps) form more often than not, so that the
    same question is asked again and again while the object grows"""
    qs = []
    for _ in range(rng.randint(1, 3)):
        r = None if rng.random() < 0.6 else _gen_range(rng, n, rng.random() < 0.1)
        qs.append(_gen_query(rng, n, r, rng.random() < 0.2))
    return qs


def gen_cases(rng, n, tier):
    cases = []
    for _ in range(n):
        k = rng.choice([0, 1, 2, 2, 3, 3, 4, 4, 5, 6, 7, 8])
        ops = [_gen_op(rng, tier) for _ in range(k)]
        events, n_ok = [], 0
        if rng.random() < 0.5:
            events += gen_queries(rng, 0, tier)  # the empty object is asked too
        for o in ops:
            events.append(dict(o, ev="op"))
            if expected_outcome(o, 1.0)[0] == "ok":
                n_ok += 1
            if rng.random() < 0.45:
                events += gen_queries(rng, n_ok, tier)
        # at the end: all steps and a few sub-ranges, forward and reverse
        for r in [None] + [_gen_range(rng, n_ok, rng.random() < 0.1) for _ in range(rng.randint(1, 3))]:
            rev = rng.random() < 0.5
            events.append({"ev": "query", "q": "matrix", "range": r, "rev": rev})
            events.append({"ev": "query", "q": "matrix", "range": r, "rev": not rev})
            events.append(_gen_call(rng, r, rng.random() < 0.2))
        kind = "empty" if not ops else ("short" if k <= 2 else ("medium" if k <= 5 else "long"))
        cases.append({"kind": kind, "events": events})
    return cases


def apply_op(ct, o):
    """one appending call on a CompositeTransform-like object; returns what the call returned"""
    k = o["op"]
    if k == "uniform_scale":
        return ct.uniform_scale(o["s"], allow_flipping=o["allow"])
    if k == "non_uniform_scale":
        return ct.non_uniform_scale(*o["f"], allow_flipping=o["allow"])
    if k == "convert_units":
        return ct.convert_units(o["from"], o["to"])
    if k == "flip":
        return ct.flip(o["dim"])
    if k == "translate":
        return ct.translate(np.array(o["t"]))
    if k in ("rotate_matrix", "rotate_rodrigues"):
        return ct.rotate(np.array(o["r"], dtype=np.float64))
    if k == "reorient":
        return ct.reorient(np.array(o["up"]), np.array(o["look"]))
    if k == "append":
        if o["r"] is None:
            return ct.append_transform(np.array(o["f"]))
        return ct.append_transform(np.array(o["f"]), np.array(o["r"]))
    raise ValueError(k)


def run_query(ct, qu):
    rng_ = None if qu["range"] is None else tuple(qu["range"])
    if qu["q"] == "matrix":
        m = ct.transform_matrix_for(from_range=rng_, reverse=qu["rev"])
        return {"m": np.asarray(m, dtype=np.float64).reshape(-1).tolist(), "shape": list(np.shape(m))}
    pts = np.array(qu["points"], dtype=np.int64 if qu.get("int") else np.float64).reshape(-1, 3)
    before = pts.copy()
    kw = {"from_range": rng_, "reverse": qu["rev"], "discard_z_coord": qu["discard"], "treat_input_as_vector": qu["asvec"]}
    st = ct(pts, **kw)
    singles = [ct(p, **kw) for p in pts]
    kw2 = dict(kw, discard_z_coord=False)
    full = ct(pts, **kw2)
    back = ct(full, **dict(kw2, reverse=not qu["rev"]))
    return {"stack": st.tolist(), "stack_shape": list(st.shape), "singles": [s.tolist() for s in singles],
            "single_shapes": [list(s.shape) for s in singles], "full": full.tolist(), "back": back.tolist(),
            "args_unchanged": bool(np.array_equal(before, pts))}


def run_impl(c):
    from polliwog import CompositeTransform

    def go():
        import ounce
        ct = CompositeTransform()
        obs = []
        for e in c["events"]:
            if e["ev"] == "query":
                ob = run_query(ct, e)
                ob["n"] = len(ct.transforms)
                obs.append(ob)
                r_ = e["range"]
                rk = "all" if r_ is None else ("sub" if 0 <= r_[0] <= r_[1] <= ob["n"] else "wild")
                if e["q"] == "matrix":
                    _count("query:matrix/%s/%s" % (rk, "rev" if e["rev"] else "fwd"))
                else:
                    _count("query:call/%s/%s%s%s%s" % (rk, "rev" if e["rev"] else "fwd", "/vector" if e["asvec"] else "",
                                                        "/discard_z" if e["discard"] else "", "/int64" if e.get("int") else ""))
                continue
            before = len(ct.transforms)
            r = call_impl(lambda: apply_op(ct, e))
            if isinstance(r, dict) and "raise" in r:
                if len(ct.transforms) != before:
                    r["state_changed"] = True
            else:
                r = {"index": int(r), "len_before": before, "len_after": len(ct.transforms)}
            r["factor"] = float(ounce.factor(e["from"], e["to"])) if e["op"] == "convert_units" else None
            _count("op:%s/%s" % (e["op"] + ("+inverse" if e["op"] == "append" and e["r"] is not None else "")
                                 + ("/projective" if e.get("projective") else "") + ("/extreme_magnitude" if "exp" in e else "") + ("/non_orthogonal" if e.get("nonorth") else ""),
                                 r.get("raise", "accepted")))
            obs.append(r)
        pairs = [[np.asarray(f, dtype=np.float64).reshape(-1).tolist(), np.asarray(i, dtype=np.float64).reshape(-1).tolist()]
                 for f, i in ct.transforms]
        return {"events": obs, "pairs": pairs}

    return call_impl(go)


# ---- Coq terms ------------------------------------------------------------------------------------------------
def coq_op(o, factor=None):
    k = o["op"]
    if k == "uniform_scale":
        return "OUniformScale %s %s" % (q(o["s"]), coq_bool(o["allow"]))
    if k == "non_uniform_scale":
        return "ONonUniformScale %s %s %s %s" % (q(o["f"][0]), q(o["f"][1]), q(o["f"][2]), coq_bool(o["allow"]))
    if k == "convert_units":
        return "OConvertUnits %s" % q(factor)
    if k == "flip":
        return "OFlip %s" % coq_Z(o["dim"])
    if k == "translate":
        return "OTranslate %s" % qv(o["t"])
    if k == "rotate_matrix":
        return "ORotate (RotMat %s)" % _c11._q_m3(o["r"])
    if k == "rotate_rodrigues":
        return "ORotate (RotVec %s)" % qv(o["r"])
    if k == "reorient":
        if "exp" in o:  # the Q model runs on the vectors scaled back by exact powers of two (C11_up_look_scale_invariant)
            ku, kl = o["exp"]
            return "OReorient %s %s" % (qv([Fr(x) / Fr(2) ** ku for x in o["up"]]), qv([Fr(x) / Fr(2) ** kl for x in o["look"]]))
        return "OReorient %s %s" % (qv(o["up"]), qv(o["look"]))
    if k == "append":
        return "OAppend %s %s" % (_c11._q_m4(o["f"]), "None" if o["r"] is None else "(Some %s)" % _c11._q_m4(o["r"]))
    raise ValueError(k)


def coq_range(r):
    return "None" if r is None else "(Some (%s, %s))" % (coq_Z(r[0]), coq_Z(r[1]))


def coq_result(r):
    if "raise" in r:
        return "(Raise %s)" % r["raise"]
    return "(Ok %s)" % coq_nat(r["index"])


def coq_query(qu, ob):
    if qu["q"] == "matrix":
        return "QMatrix %s %s %s" % (coq_range(qu["range"]), coq_bool(qu["rev"]), flv(ob["m"]))
    return "QCall %s %s %s %s %s %s %s" % (
        coq_range(qu["range"]), coq_bool(qu["rev"]), coq_bool(qu["discard"]), coq_bool(qu["asvec"]),
        coq_list(qv(p) for p in qu["points"]), coq_list(flv(r) for r in ob["stack"]),
        coq_list(flv(r) for r in ob["singles"]))


BAD_CASE = "CTimeline [EOp (OFlip 0%Z) (Raise OtherError)] []"


def coq_case(c, o):
    if isinstance(o, dict) and "raise" in o:
        return BAD_CASE
    evs = []
    for e, ob in zip(c["events"], o["events"]):
        if e["ev"] == "op":
            evs.append("EOp (%s) %s" % (coq_op(e, ob["factor"]), coq_result(ob)))
        else:
            evs.append("EQ (%s)" % coq_query(e, ob))
    pairs = coq_list("(%s, %s)" % (flv(f), flv(i)) for f, i in o["pairs"])
    return "CTimeline %s %s" % (coq_list(evs), pairs)


# ---- oracle ---------------------------------------------------------------------------------------------------
_F, _mat, _mm, _near_I, _apply = _c11._F, _c11._mat, _c11._mm, _c11._near_I, _c11._apply
TOL = Fr(1, 10 ** 7)


def expected_outcome(o, factor):
    """('ok', documented action or None) or ('raise', exception class) as the property text demands"""
    k = o["op"]
    if k == "uniform_scale":
        if o["s"] == 0 or (o["s"] < 0 and not o["allow"]):
            return "raise", "ValueError"
        s = Fr(o["s"])
        return "ok", lambda p: [s * x for x in p]
    if k == "non_uniform_scale":
        if any(x == 0 for x in o["f"]) or (any(x < 0 for x in o["f"]) and not o["allow"]):
            return "raise", "ValueError"
        f = _F(o["f"])
        return "ok", lambda p: [a * x for a, x in zip(f, p)]
    if k == "convert_units":
        s = Fr(factor)
        return "ok", lambda p: [s * x for x in p]
    if k == "flip":
        if o["dim"] not in (0, 1, 2):
            return "raise", "ValueError"
        return "ok", lambda p: [-x if i == o["dim"] else x for i, x in enumerate(p)]
    if k == "translate":
        t = _F(o["t"])
        return "ok", lambda p: [a + b for a, b in zip(p, t)]
    if k == "rotate_matrix":
        r = [_F(row) for row in o["r"]]
        return "ok", lambda p: [sum(r[i][j] * p[j] for j in range(3)) for i in range(3)]
    if k == "rotate_rodrigues":
        return "ok", None
    if k == "reorient":
        up, look = np.array(o["up"]), np.array(o["look"])
        if not np.any(up) or not np.any(look):
            return "raise", "ValueError"
        with np.errstate(all="ignore"):  # extreme magnitudes overflow here; only an exact zero matters
            exactly_collinear = np.linalg.norm(np.cross(up, look)) == 0
        if exactly_collinear:
            return "either", None  # collinear: outside the documented domain
        return "ok", None
    if k == "append":
        f = [_F(row) for row in o["f"]]
        if o["r"] is None and abs(np.linalg.det(np.array(o["f"]))) < 1e-9:
            return "either", None
        return "ok", lambda p: _apply(f, p)
    raise ValueError(k)


def _select(n, r):
    return list(range(n)) if r is None else list(range(n))[r[0]:r[1]]


def _in_domain(n, r):
    return r is None or (0 <= r[0] <= r[1] <= n)


def oracle(c, o):
    if isinstance(o, dict) and "raise" in o:
        return "harness: unexpected exception %s: %s" % (o["raise"], o.get("msg"))
    # 1. returned indices / rejections
    n = 0
    actions = []
    op_events = [(e, ob) for e, ob in zip(c["events"], o["events"]) if e["ev"] == "op"]
    for op, r in op_events:
        what, act = expected_outcome(op, r["factor"])
        if "raise" in r:
            if r.get("state_changed"):
                return "%s raised %s but still changed the list of transforms" % (op["op"], r["raise"])
            if what == "ok":
                return "%s%r rejected with %s" % (op["op"], {k: v for k, v in op.items() if k != "op"}, r["raise"])
            if what == "raise" and r["raise"] != act:
                return "%s raised %s instead of %s" % (op["op"], r["raise"], act)
            continue
        if what == "raise":
            return "%s%r accepted, %s demanded" % (op["op"], {k: v for k, v in op.items() if k != "op"}, act)
        if r["index"] != n or r["len_before"] != n or r["len_after"] != n + 1:
            return "%s returned index %d but it is step %d (len %d -> %d)" % (op["op"], r["index"], n, r["len_before"], r["len_after"])
        actions.append((op, act))
        n += 1
    if len(o["pairs"]) != n:
        return "transforms has %d entries after %d accepted calls" % (len(o["pairs"]), n)
    # 2. per-step: forward acts as documented, inverse undoes forward (both orders)
    fw = [_mat(f, 4) for f, _ in o["pairs"]]
    iv = [_mat(i, 4) for _, i in o["pairs"]]
    probe = [Fr(1, 2), Fr(-3), Fr(5, 4)]
    for i, ((op, act), f, r) in enumerate(zip(actions, fw, iv)):
        mag = max([1] + [abs(x) for row in f + r for x in row])
        if f[3] != [0, 0, 0, 1] and not op.get("projective"):
            return "step %d (%s): forward matrix is not affine" % (i, op["op"])
        # a non-orthogonal matrix handed to rotate() is not a rotation: the property promises no inverse for it
        if not op.get("nonorth"):
            if not _near_I(_mm(r, f), TOL * mag * mag) or not _near_I(_mm(f, r), TOL * mag * mag):
                return "step %d (%s): stored inverse does not undo the stored forward matrix" % (i, op["op"])
        if op["op"] in ("rotate_rodrigues", "reorient", "rotate_matrix") and not op.get("nonorth"):
            # whatever the parametrisation, a rotation step stores a proper rotation about the origin
            blk = [row[:3] for row in f[:3]]
            bad = _c11._proper(blk, "step %d (%s)" % (i, op["op"]), Fr(1, 10 ** 9))
            if bad:
                return bad
            if [f[k][3] for k in range(3)] != [0, 0, 0]:
                return "step %d (%s): rotation step has a translation column" % (i, op["op"])
        if act is not None:
            want, got = act(probe), _apply(f, probe)
            if any(abs(a - b) > TOL * max(1, abs(a)) for a, b in zip(want, got)):
                return "step %d (%s): forward matrix does not perform the documented action" % (i, op["op"])
    # 3. queries
    n_final, n_seen = n, 0
    for qu, ob in zip(c["events"], o["events"]):
        if qu["ev"] == "op":
            n_seen += 0 if "raise" in ob else 1
            continue
        # the object as it was when the question was asked: the first n_seen accepted steps
        n = n_seen
        if ob["n"] != n:
            return "query saw %d transforms after %d accepted calls" % (ob["n"], n)
        r = qu["range"]
        if not _in_domain(n, r):
            continue
        idx = _select(n, r)
        seq = [iv[i] for i in reversed(idx)] if qu["rev"] else [fw[i] for i in idx]
        mag = Fr(1)
        for m in seq:
            mag *= max([1] + [abs(x) for row in m for x in row])
        if qu["q"] == "matrix":
            if ob["shape"] != [4, 4]:
                return "transform_matrix_for: shape %r" % ob["shape"]
            want = [[Fr(int(i == j)) for j in range(4)] for i in range(4)]
            for m in seq:
                want = _mm(m, want)
            got = _mat(ob["m"], 4)
            if any(abs(want[i][j] - got[i][j]) > TOL * mag for i in range(4) for j in range(4)):
                return "transform_matrix_for(from_range=%r, reverse=%r) is not the ordered product of the selected steps" % (r, qu["rev"])
            continue
        w = 0 if qu["asvec"] else 1
        ncol = 2 if qu["discard"] else 3
        sel_ops = [actions[i][0] for i in (reversed(idx) if qu["rev"] else idx)]
        projective_inside = any(op_.get("projective") for op_ in sel_ops[:-1])  # followed by another step
        no_round_trip = any(op_.get("projective") or op_.get("nonorth") for op_ in sel_ops)
        k = len(qu["points"])
        if ob["stack_shape"] != [k, ncol]:
            return "__call__: stacked result has shape %r" % ob["stack_shape"]
        if not ob["args_unchanged"]:
            return "__call__ modified its argument"
        for j, p in enumerate(qu["points"]):
            cur = _F(p)
            pm = max([1] + [abs(x) for x in cur])
            for m in seq:
                cur = _apply(m, cur, w)
            got = _F(ob["full"][j])
            if projective_inside and any(abs(a - b) > TOL * mag * pm for a, b in zip(cur, got)):
                # what the call must still be: the composed matrix applied once (C11 apply clause)
                prod = [[Fr(int(a_ == b_)) for b_ in range(4)] for a_ in range(4)]
                for m in seq:
                    prod = _mm(m, prod)
                once = _apply(prod, _F(p), w)
                if any(abs(a - b) > TOL * mag * pm for a, b in zip(once, got)):
                    return "__call__(from_range=%r, reverse=%r) is not the composed matrix applied to the points" % (r, qu["rev"])
                return ("NONAFFINE __call__(from_range=%r, reverse=%r) over a non-affine explicit step followed by another step "
                        "differs from applying the steps one after another (apply_transform drops w without dividing)"
                        % (r, qu["rev"]))
            if any(abs(a - b) > TOL * mag * pm for a, b in zip(cur, got)):
                return ("__call__(from_range=%r, reverse=%r, vector=%r, %s points) with %d steps appended differs from applying the "
                        "selected steps one after another" % (r, qu["rev"], qu["asvec"], "int64" if qu.get("int") else "float64", n))
            if ob["stack"][j] != ob["full"][j][:ncol]:
                return "discard_z_coord does not just drop the third coordinate"
            if ob["single_shapes"][j] != [ncol] or any(abs(Fr(a) - Fr(b)) > TOL * mag * pm for a, b in zip(ob["singles"][j], ob["stack"][j])):
                return "single point and stacked row %d differ" % j
            back = _F(ob["back"][j])
            projective_sel = any(op_.get("projective") for op_ in sel_ops)
            nonorth_sel = any(op_.get("nonorth") for op_ in sel_ops)
            if projective_sel and not nonorth_sel and any(abs(a - b) > TOL * mag * mag * pm for a, b in zip(back, _F(p))):
                return ("NONAFFINE reverse=True does not give the points back over from_range=%r containing a non-affine explicit "
                        "step (apply_transform drops w without dividing)" % (r,))
            if not no_round_trip and any(abs(a - b) > TOL * mag * mag * pm for a, b in zip(back, _F(p))):
                return "reverse does not undo forward on from_range=%r (vector=%r)" % (r, qu["asvec"])
            if qu["asvec"]:
                # translations have no effect on vectors
                cur2 = _F(p)
                for i2 in (reversed(idx) if qu["rev"] else idx):
                    if actions[i2][0]["op"] == "translate":
                        continue
                    cur2 = _apply((iv if qu["rev"] else fw)[i2], cur2, 0)
                if any(abs(a - b) > TOL * mag * pm for a, b in zip(cur2, got)):
                    return "a translation step changed a vector"
    return None


def classify(c, o, failure, disagrees):
    """the C11 finding compose_non_affine seen through CompositeTransform: a non-affine explicit step followed by
    another step; only the sequential-action clause, only when model and implementation agree"""
    if failure and failure.startswith("NONAFFINE ") and not disagrees:
        return "compose_non_affine"
    return None
