"""C16 — Tessellated prisms are closed, outward-facing and of the right size."""
import math
from fractions import Fraction as Fr

import numpy as np

from common import Kernel, call_impl, coq_list, coq_nat, fl, grid_vec, q, qv

ID = "C16"
N_CASES = {"quick": 320, "thorough": 6000, "search": 3000}
SHARD = 80
RULE = ("seeded streams: rectangular_prism (dyadic origin/size, power-of-two scales 2^-10..2^10, thorough 2^-30..2^30 "
        "~ 1e-9..1e9), cube (float sizes; int / float32 / str / None sizes), triangular_prism (non-collinear dyadic "
        "triangles in arbitrary orientation incl. thin nearly collinear ones (2^-8..2^-20), float heights; non-float heights; exactly collinear triangles); every case "
        "observes the indexed and the flattened return value; non-trivial = the call returned a surface; distinct by hash")
TRUSTED = ["Coq 8.16.1 kernel, vm_compute for the correspondence evaluation and the finite face-table claims",
           "axioms (Print Assumptions): ClassicalDedekindReals.sig_forall_dec, sig_not_dec, "
           "FunctionalExtensionality.functional_extensionality_dep, Classical_Prop.classic (all Coq stdlib Reals)",
           "tools/symtrace.py tracing translator + numpy shim (re-validated numerically each run)",
           "coq/corr/K_C16.v agreement relation close_rel (1e-9 relative to max(input magnitude, |a|, |b|), no absolute floor; "
           "integers and exception classes exact)",
           "NumPy, vg"]
CASE_IMPORTS = [("PW.model", "M_shapes")]
# theorems of props/C16.v that hold by the definition of the model (their content is carried by ties / correspondence)
DEFINITIONAL = ["C16_flatten_rows", "C16_flattened_is_take", "C16_tri_flattened_is_take", "C16_nonfloat_rejected",
                "C16_float_accepted"]
ASSUMPTIONS = ["theorems are about exact real arithmetic; binary64 rounding is covered only by the tolerance of the "
               "correspondence check on sampled inputs",
               "cube and triangular_prism test `isinstance(x, float)`: while tracing, `isinstance` is shadowed in the module "
               "globals of polliwog.shapes._shapes so that the symbolic size/height counts as a float (run time only); the "
               "rejection of non-floats is tied by correspondence and oracle"]

_IMPORTS = [("PW.model", "M_shapes"), ("PW.model", "M_shapes_spec"), ("PW.proofs", "P_vec"), ("PW.proofs", "P_mat"), ("PW.proofs", "P_shapes")]
_SUNF = ("cbv [vecs_of tri_flat_list rectangular_prism_flat flatten rect_prism_faces rect_prism_quads quads_to_tris quad_to_tris "
         "tri_prism_faces flat_map app map tri_at nth_error rect_prism_vertices tri_prism_vertices tri_normal tri_cross "
         "signed_volume six_volume somes nsum fold_left tri_det vlist]; munf")
_GEN = "repeat match goal with |- context [sqrt ?e] => let n := fresh \"n\" in generalize (sqrt e); intro n end"
RECT_FACES = [0, 1, 2, 0, 2, 3, 7, 6, 5, 7, 5, 4, 4, 5, 1, 4, 1, 0, 5, 6, 2, 5, 2, 1, 6, 7, 3, 6, 3, 2, 3, 7, 4, 3, 4, 0]
TRI_FACES = [0, 1, 2, 0, 3, 4, 0, 4, 1, 1, 4, 5, 1, 5, 2, 2, 5, 3, 2, 3, 0, 5, 4, 3]


def _faces_coq(rows):
    return "[%s]%%nat" % "; ".join("(%d, %d, %d)" % tuple(int(x) for x in r) for r in rows)


def _sym_is_float(fn):
    """cube / triangular_prism test `isinstance(x, float)`. During tracing the symbolic scalar STANDS FOR a Python float:
    shadow `isinstance` in the module's globals (run time only, /repo untouched) so that the test accepts it; every other
    isinstance query, and every concrete argument, is answered by the builtin."""
    import builtins
    import polliwog.shapes._shapes as sh
    import symtrace

    def traced_isinstance(x, t):
        if t is float and isinstance(x, symtrace.Sym):
            return True
        return builtins.isinstance(x, t)

    def run(**kw):
        sh.__dict__["isinstance"] = traced_isinstance
        try:
            return fn(**kw)
        finally:
            sh.__dict__.pop("isinstance", None)
    return run


def _lifted(fn):
    """Every plain number stored inside an object array the code returns becomes a traced constant, so that the traced output
    list does not depend on whether the code writes a matrix entry as the int 0, the float 0.0 or a computed value (plain
    ints inside an object array would otherwise be reported as concrete structure and drop out of the list of expressions).
    Integer-dtype arrays (index tables) and float runs (validation) are left as they are."""
    import symtrace

    def lift(t, x):
        if isinstance(x, (tuple, list)):
            return type(x)(lift(t, y) for y in x)
        if isinstance(x, np.ndarray) and x.dtype == object:
            out = np.empty(x.shape, dtype=object)
            flat = out.reshape(-1)
            for k, e in enumerate(x.reshape(-1)):
                flat[k] = e if isinstance(e, symtrace.Sym) else t.lift(e)
            return out
        return x

    def run(**kw):
        res = fn(**kw)
        t = next((e.t for a in kw.values() for e in np.asarray(a, dtype=object).reshape(-1) if isinstance(e, symtrace.Sym)), None)
        return res if t is None else lift(t, res)
    return run


def kernels():
    from polliwog.shapes import cube, rectangular_prism, triangular_prism
    ks = []
    O, S = "(V3 o0 o1 o2)", "(V3 s0 s1 s2)"
    P1, P2, P3 = "(V3 p0 p1 p2)", "(V3 p3 p4 p5)", "(V3 p6 p7 p8)"
    # the face tables as the code returns them right now (they do not depend on the inputs)
    rect_faces = rectangular_prism(np.zeros(3), np.ones(3), ret_unique_vertices_and_faces=True)[1].tolist()
    tri_faces = triangular_prism(np.zeros(3), np.array([1.0, 0, 0]), np.array([0, 1.0, 0]), 1.0,
                                 ret_unique_vertices_and_faces=True)[1].tolist()
    e8, e6 = ["e"] * 24, ["e"] * 18

    # ---- rectangular_prism, indexed --------------------------------------------------------------------------
    ks.append(Kernel(
        "rect_indexed", {"o": [1.0, 2.0, 3.0], "s": [0.5, 1.0, 4.0]},
        lambda o, s: rectangular_prism(o, s, ret_unique_vertices_and_faces=True),
        """Definition code_faces : list face := %(faces)s.
Lemma code_faces_are_model : code_faces = rect_prism_faces.  Proof. reflexivity. Qed.
(* closedness of the table the code returned on this run *)
Lemma code_faces_closed : closed_oriented code_faces = true /\\ forallb (face_in_range 8) code_faces = true /\\ length code_faces = 12%%nat.
Proof. repeat split; vm_compute; reflexivity. Qed.
Lemma {T}_ok : forall {vars} : R, vecs_of ({T} ROps {vars}) = rect_prism_vertices ROps %(O)s %(S)s.
Proof. intros. unfold {T}. %(sunf)s. repeat (apply cons_eq; [apply V3_ext; ring|]). reflexivity. Qed.
(* signed volume of the traced surface, directly on the traced definition *)
Lemma {T}_volume : forall {vars} : R, signed_volume ROps (vecs_of ({T} ROps {vars})) code_faces = s0 * s1 * s2.
Proof. intros. unfold {T}, code_faces. %(sunf)s. field. Qed.
Lemma {T}_property : forall {vars} : R, 0 < s0 -> 0 < s1 -> 0 < s2 ->
  let vs := vecs_of ({T} ROps {vars}) in
  surface_area ROps vs code_faces = 2 * (s0 * s1 + s1 * s2 + s0 * s2) /\\
  Forall (outward_from (vadd ROps %(O)s (vscale ROps (1 / 2) %(S)s))) (somes (flatten vs code_faces)) /\\
  (forall v, In v vs <-> exists bx by_ bz, v = corner %(O)s %(S)s bx by_ bz).
Proof.
  intros {vars} H0 H1 H2. cbv zeta. rewrite {T}_ok, code_faces_are_model.
  split; [apply (rect_surface_area %(O)s %(S)s); cbn [vx vy vz]; lra|].
  split; [apply (rect_outward %(O)s %(S)s); assumption | apply rect_vertices_span].
Qed.""" % {"faces": _faces_coq(rect_faces), "O": O, "S": S, "sunf": _SUNF},
        imports=_IMPORTS,
        expect_structure={"tuple": [{"shape": [8, 3], "data": e8}, {"shape": [12, 3], "dtype": "int64", "data": RECT_FACES}]}))

    # ---- rectangular_prism, flattened -------------------------------------------------------------------------
    ks.append(Kernel(
        "rect_flat", {"o": [1.0, 2.0, 3.0], "s": [0.5, 1.0, 4.0]},
        lambda o, s: rectangular_prism(o, s),
        """Lemma {T}_ok : forall {vars} : R, {T} ROps {vars} = tri_flat_list (rectangular_prism_flat ROps %(O)s %(S)s).
Proof. intros. unfold {T}. %(sunf)s. list_eq_ring. Qed.""" % {"O": O, "S": S, "sunf": _SUNF},
        imports=_IMPORTS, expect_structure={"shape": [12, 3, 3], "data": ["e"] * 108}))

    # ---- cube: symbolic size (see _sym_is_float) ------------------------------------------------------------------
    ks.append(Kernel(
        "cube_indexed", {"o": [1.0, 2.0, 3.0], "s": [2.5]},
        _sym_is_float(lambda o, s: cube(o, s[0], ret_unique_vertices_and_faces=True)),
        """Lemma {T}_ok : forall {vars} : R, vecs_of ({T} ROps {vars}) = rect_prism_vertices ROps %(O)s (V3 s0 s0 s0).
Proof. intros. unfold {T}. %(sunf)s. repeat (apply cons_eq; [apply V3_ext; ring|]). reflexivity. Qed.
Lemma {T}_property : forall {vars} : R, 0 <= s0 ->
  signed_volume ROps (vecs_of ({T} ROps {vars})) rect_prism_faces = s0 * s0 * s0 /\\
  surface_area ROps (vecs_of ({T} ROps {vars})) rect_prism_faces = 6 * (s0 * s0).
Proof.
  intros {vars} H. rewrite {T}_ok. split; [rewrite rect_volume; reflexivity|].
  rewrite rect_surface_area by (cbn [vx vy vz]; assumption). cbn [vx vy vz]. ring.
Qed.""" % {"O": O, "sunf": _SUNF},
        imports=_IMPORTS,
        expect_structure={"tuple": [{"shape": [8, 3], "data": e8}, {"shape": [12, 3], "dtype": "int64", "data": RECT_FACES}]}))

    # ---- triangular_prism, indexed (height concrete for the same reason) ----------------------------------------
    tri_pts = [[1.0, 2.0, 3.0], [0.5, -1.0, 4.0], [0.25, 1.0, 0.5]]
    ks.append(Kernel(
        "tri_indexed", {"p": tri_pts, "h": [2.5]},
        _sym_is_float(lambda p, h: triangular_prism(p[0], p[1], p[2], h[0], ret_unique_vertices_and_faces=True)),
        """Definition code_faces : list face := %(faces)s.
Lemma code_faces_are_model : code_faces = tri_prism_faces.  Proof. reflexivity. Qed.
Lemma code_faces_closed : closed_oriented code_faces = true /\\ forallb (face_in_range 6) code_faces = true /\\ length code_faces = 8%%nat.
Proof. repeat split; vm_compute; reflexivity. Qed.
Lemma {T}_ok : forall {vars} : R, vecs_of ({T} ROps {vars}) = tri_prism_vertices ROps %(P1)s %(P2)s %(P3)s h0.
Proof. intros. unfold {T}. %(sunf)s; unfold nfrac; rops. %(gen)s.
  repeat (apply cons_eq; [apply V3_ext; first [reflexivity | ring | (unfold Rdiv; ring)]|]). reflexivity. Qed.
Lemma {T}_property : forall {vars} : R, noncollinear %(P1)s %(P2)s %(P3)s -> 0 < h0 ->
  let vs := vecs_of ({T} ROps {vars}) in
  signed_volume ROps vs code_faces = base_area %(P1)s %(P2)s %(P3)s * h0 /\\
  surface_area ROps vs code_faces = 2 * base_area %(P1)s %(P2)s %(P3)s + h0 * perimeter %(P1)s %(P2)s %(P3)s /\\
  0 < base_area %(P1)s %(P2)s %(P3)s /\\
  Forall (outward_from (tri_prism_centre %(P1)s %(P2)s %(P3)s (vscale ROps h0 (vneg ROps (tri_normal ROps %(P1)s %(P2)s %(P3)s)))))
         (somes (flatten vs code_faces)).
Proof.
  intros {vars} H Hh. cbv zeta. rewrite {T}_ok, code_faces_are_model.
  split; [apply tri_volume; exact H|]. split; [apply tri_surface_area; [exact H | lra]|].
  split; [apply base_area_pos; exact H | apply tri_outward; [exact H | lra]].
Qed.""" % {"faces": _faces_coq(tri_faces), "P1": P1, "P2": P2, "P3": P3, "sunf": _SUNF, "gen": _GEN},
        imports=_IMPORTS, perturb=1e-3, validate_n=48,
        expect_structure={"tuple": [{"shape": [6, 3], "data": e6}, {"shape": [8, 3], "dtype": "int64", "data": TRI_FACES}]}))

    # ---- triangular_prism, flattened -----------------------------------------------------------------------------
    ks.append(Kernel(
        "tri_flat", {"p": tri_pts, "h": [0.75]},
        _sym_is_float(lambda p, h: triangular_prism(p[0], p[1], p[2], h[0])),
        """Lemma {T}_ok : forall {vars} : R,
  {T} ROps {vars} = tri_flat_list (flatten (tri_prism_vertices ROps %(P1)s %(P2)s %(P3)s h0) tri_prism_faces).
Proof. intros. unfold {T}. %(sunf)s; unfold nfrac; rops. %(gen)s.
  list_eq ltac:(first [reflexivity | ring | (unfold Rdiv; ring)]). Qed.""" % {"P1": P1, "P2": P2, "P3": P3, "sunf": _SUNF, "gen": _GEN},
        imports=_IMPORTS, validate_n=48, expect_structure={"shape": [8, 3, 3], "data": ["e"] * 72}))

    # ---- the isinstance(x, float) rejection, pinned at trace time on concrete non-float arguments (NO isinstance shadowing
    #      here): outcome 1 = ValueError, 2 = another exception, 0 = accepted; fail-closed comparison of the outcome ----
    def outcome(fn):
        def run(**kw):
            try:
                fn(**kw)
            except ValueError:
                return np.array([1])
            except Exception:  # noqa
                return np.array([2])
            return np.array([0])
        return run

    rej = {"shape": [1], "dtype": "int64", "data": [1]}
    ks.append(Kernel(
        "cube_rejects_int", {"o": [1.0, 2.0, 3.0]},
        outcome(lambda o: cube(o, 2, ret_unique_vertices_and_faces=True)),
        """Lemma {T}_ok : forall {vars} : R, cube ROps %(O)s (PyInt 2) = Raise ValueError.
Proof. reflexivity. Qed.""" % {"O": O}, imports=_IMPORTS, expect_structure=rej, validate_n=0))
    ks.append(Kernel(
        "cube_rejects_float32", {"o": [1.0, 2.0, 3.0]},
        outcome(lambda o: cube(o, np.float32(2.0))),
        """Lemma {T}_ok : forall {vars} : R, cube ROps %(O)s PyOther = Raise ValueError.
Proof. reflexivity. Qed.""" % {"O": O}, imports=_IMPORTS, expect_structure=rej, validate_n=0))
    ks.append(Kernel(
        "tri_rejects_int", {"p": tri_pts},
        outcome(lambda p: triangular_prism(p[0], p[1], p[2], 2, ret_unique_vertices_and_faces=True)),
        """Lemma {T}_ok : forall {vars} : R, triangular_prism ROps %(P1)s %(P2)s %(P3)s (PyInt 2) = Raise ValueError.
Proof. reflexivity. Qed.""" % {"P1": P1, "P2": P2, "P3": P3}, imports=_IMPORTS, expect_structure=rej, validate_n=0))
    ks.append(Kernel(
        "tri_rejects_float32", {"p": tri_pts},
        outcome(lambda p: triangular_prism(p[0], p[1], p[2], np.float32(2.0))),
        """Lemma {T}_ok : forall {vars} : R, triangular_prism ROps %(P1)s %(P2)s %(P3)s PyOther = Raise ValueError.
Proof. reflexivity. Qed.""" % {"P1": P1, "P2": P2, "P3": P3}, imports=_IMPORTS, expect_structure=rej, validate_n=0))
    # ... and a float IS accepted (outcome 0) without any shadowing
    ks.append(Kernel(
        "cube_accepts_float", {"o": [1.0, 2.0, 3.0]},
        outcome(lambda o: cube(o, 2.0)),
        """Lemma {T}_ok : forall {vars} s : R, exists r, cube ROps %(O)s (PyFloat s) = Ok r.
Proof. intros. eexists. reflexivity. Qed.""" % {"O": O}, imports=_IMPORTS,
        expect_structure={"shape": [1], "dtype": "int64", "data": [0]}, validate_n=0))
    ks.append(Kernel(
        "tri_accepts_float", {"p": tri_pts},
        outcome(lambda p: triangular_prism(p[0], p[1], p[2], 2.0)),
        """Lemma {T}_ok : forall {vars} h : R, noncollinear %(P1)s %(P2)s %(P3)s ->
  exists r, triangular_prism ROps %(P1)s %(P2)s %(P3)s (PyFloat h) = Ok r.
Proof. intros {vars} h H. eexists. apply (float_accepted %(P1)s %(P1)s %(P2)s %(P3)s h h H). Qed.""" % {"P1": P1, "P2": P2, "P3": P3},
        imports=_IMPORTS, expect_structure={"shape": [1], "dtype": "int64", "data": [0]}, validate_n=0))
    for k in ks:
        k.call = _lifted(k.call)
    return ks


# ---------------------------------------------------------------------------------------------------------
def _scales(rng, tier):
    """(origin scale, size scale): powers of two; a tenth of the quick cases use the extreme range too"""
    k = 30 if (tier == "thorough" or rng.random() < 0.1) else 10
    ss = rng.randint(-k, k)
    so = ss + rng.randint(-10, 10)  # origin and size close enough in magnitude for their sum to be exact
    return 2.0 ** so, 2.0 ** ss


NONFLOAT = ["int", "int64", "float32", "str", "none", "bool"]


def _cross(a, b):
    return [a[1] * b[2] - a[2] * b[1], a[2] * b[0] - a[0] * b[2], a[0] * b[1] - a[1] * b[0]]


def _int_vec(rng, lo=-9, hi=9):
    return [float(rng.randint(lo, hi)) for _ in range(3)]


def gen_cases(rng, n, tier):
    cases = []
    for _ in range(n):
        u, b = rng.random(), rng.random()
        so, ss = _scales(rng, tier)
        origin = [x * so for x in grid_vec(rng)] if rng.random() < 0.85 else [0.0, 0.0, 0.0]
        # integer-dtype arrays (same values as a float array would hold): origin int64 with a fractional float size,
        # both int64, integer corner points of the base triangle
        idt = rng.random() < 0.22
        if u < 0.3:
            size = [rng.randint(1, 16) / 2 * ss for _ in range(3)]
            if b > 0.85:
                size = [size[0]] * 3 if rng.random() < 0.5 else [ss, size[1], ss]
            c = {"kind": "rect" if b <= 0.85 else "rect_boundary", "origin": origin, "size": size}
            if idt:
                c["origin"], c["origin_dtype"] = _int_vec(rng), "int64"
                if rng.random() < 0.7:   # fractional sizes, small enough for the sums to be exact
                    c["size"] = [rng.randint(1, 40) / 4 for _ in range(3)]
                else:
                    c["size"], c["size_dtype"] = [float(rng.randint(1, 9)) for _ in range(3)], "int64"
                c["kind"] = "rect_intdtype"
            cases.append(c)
        elif u < 0.5:
            if b < 0.7:
                c = {"kind": "cube", "origin": origin, "size_kind": rng.choice(["float", "float", "float64"]),
                     "size": rng.randint(1, 16) / 2 * ss}
                if idt:
                    c.update(kind="cube_intdtype", origin=_int_vec(rng), origin_dtype="int64", size=rng.randint(1, 40) / 4)
                cases.append(c)
            else:
                cases.append({"kind": "cube_nonfloat", "origin": origin, "size_kind": rng.choice(NONFLOAT), "size": rng.randint(1, 5)})
        else:
            while True:
                p1 = grid_vec(rng)
                e1, e2 = grid_vec(rng), grid_vec(rng)
                if idt:
                    p1, e1, e2 = _int_vec(rng), _int_vec(rng, -6, 6), _int_vec(rng, -6, 6)
                if any(_cross(e1, e2)):
                    break
            thin = (not idt) and rng.random() < 0.15
            if thin:   # nearly collinear base: e2 = k e1 + 2^-m e3, everything dyadic (cross product still exact)
                e3 = e2
                kk, mm = rng.choice([1.0, 2.0, -1.0, 0.5, -3.0]), rng.randint(8, 20)
                e2 = [kk * a + 2.0 ** -mm * c for a, c in zip(e1, e3)]
                origin = [x * min(so, ss * 16) / so for x in origin]
            if b < 0.72:
                kind, hk, h = ("tri_thin" if thin else "tri"), rng.choice(["float", "float", "float64"]), rng.randint(1, 16) / 4 * ss
            elif b < 0.87:
                kind, hk, h = "tri_nonfloat", rng.choice(NONFLOAT), rng.randint(1, 5)
            else:  # exactly collinear (outside the property; the code raises ValueError from the Plane constructor)
                kind, hk, h = "tri_collinear", "float", rng.randint(1, 16) / 4 * ss
                kk = rng.choice([2.0, -1.0, 3.0])
                e2 = [x * kk for x in e1]
            raw = (p1, [a + c for a, c in zip(p1, e1)], [a + c for a, c in zip(p1, e2)])
            if idt:
                c = {"kind": kind + ("_intdtype" if kind == "tri" else ""), "points": [list(p) for p in raw], "points_dtype": "int64",
                     "height_kind": hk, "height": h if hk not in ("float", "float64") else rng.randint(1, 40) / 4}
            else:
                pts = [[x * ss + o for x, o in zip(p, origin)] for p in raw]
                c = {"kind": kind, "points": pts, "height_kind": hk, "height": h}
            cases.append(c)
    return cases


def _pyval(kind, v):
    return {"float": lambda: float(v), "float64": lambda: np.float64(v), "bool": lambda: bool(v), "int": lambda: int(v), "int64": lambda: np.int64(v), "float32": lambda: np.float32(v),
            "str": lambda: str(v), "none": lambda: None}[kind]()


def _arr(v, dtype):
    return np.array(v, dtype=np.int64) if dtype == "int64" else np.array(v, dtype=np.float64)


def _base(kind):
    return kind.split("_")[0]


def run_impl(c):
    from polliwog.shapes import cube, rectangular_prism, triangular_prism
    kind = _base(c["kind"])
    if kind == "rect":
        args = [_arr(c["origin"], c.get("origin_dtype")), _arr(c["size"], c.get("size_dtype"))]
        f = rectangular_prism
    elif kind == "cube":
        args = [_arr(c["origin"], c.get("origin_dtype")), _pyval(c["size_kind"], c["size"])]
        f = cube
    else:
        args = [_arr(p, c.get("points_dtype")) for p in c["points"]] + [_pyval(c["height_kind"], c["height"])]
        f = triangular_prism
    before = [a.copy() if isinstance(a, np.ndarray) else a for a in args]

    def unchanged():
        return all(np.array_equal(a, b) and a.dtype == b.dtype if isinstance(a, np.ndarray) else True for a, b in zip(before, args))

    def go():
        with np.errstate(all="ignore"):
            v, fs = f(*args, ret_unique_vertices_and_faces=True)
            flat = f(*args)
            o = {"vertices": v.tolist(), "faces": [[int(x) for x in r] for r in fs], "flat": flat.reshape(len(flat), -1).tolist(),
                 "flat_shape": list(flat.shape), "faces_dtype_kind": fs.dtype.kind, "vertices_dtype_kind": v.dtype.kind,
                 "flat_dtype_kind": flat.dtype.kind, "args_unchanged": unchanged()}
            # the caller now edits what it was given (appending the solid to a bigger mesh, flipping the winding, moving
            # it) and asks again: the second answer must be the first one, and the arguments must still be untouched
            v0, f0, flat0 = v.copy(), fs.copy(), flat.copy()
            fs += 8
            fs[:] = fs[:, ::-1]
            v *= -3
            v += 1
            flat[...] = 7
            try:
                v2, fs2 = f(*args, ret_unique_vertices_and_faces=True)
                flat2 = f(*args)
            except Exception as e:  # noqa
                o.update(repeat_same=False, repeat={"raise": "%s: %s" % (type(e).__name__, e)}, args_unchanged_after_edit=unchanged())
                return o
            o["repeat_same"] = bool(np.array_equal(v2, v0) and np.array_equal(fs2, f0) and np.array_equal(flat2, flat0)
                                    and v2.dtype == v0.dtype and fs2.dtype == f0.dtype)
            o["repeat"] = {"vertices": v2.tolist(), "faces": fs2.tolist(), "flat_equal": bool(np.array_equal(flat2, flat0))}
            o["args_unchanged_after_edit"] = unchanged()
        return o

    return call_impl(go)


def _pynum(kind, v):
    if kind in ("float", "float64"):   # np.float64 is a subclass of float
        return "(PyFloat %s)" % q(v)
    if kind == "int":
        return "(PyInt (%d)%%Z)" % int(v)
    return "PyOther"


def coq_case(c, o):
    if "raise" in o:
        obs = "(Raise %s)" % o["raise"]
    else:
        obs = "(Ok (%s, %s, %s))" % (coq_list("[%s]" % "; ".join(fl(x) for x in r) for r in o["vertices"]),
                                     coq_list(coq_list(coq_nat(x) for x in r) for r in o["faces"]),
                                     coq_list("[%s]" % "; ".join(fl(x) for x in r) for r in o["flat"]))
    kind = _base(c["kind"])
    if kind == "rect":
        return "CRect %s %s %s" % (qv(c["origin"]), qv(c["size"]), obs)
    if kind == "cube":
        return "CCube %s %s %s" % (qv(c["origin"]), _pynum(c["size_kind"], c["size"]), obs)
    p = c["points"]
    return "CTri %s %s %s %s %s" % (qv(p[0]), qv(p[1]), qv(p[2]), _pynum(c["height_kind"], c["height"]), obs)


# ---------------------------------------------------------------------------------------------------------
# oracle: the property text on the implementation's own output, exact rational arithmetic
def _F(v):
    return [Fr(float(x)) for x in v]


def _sub(a, b):
    return [x - y for x, y in zip(a, b)]


def _dot(a, b):
    return sum(x * y for x, y in zip(a, b))


def _closed(faces, nv):
    edges = {}
    for f in faces:
        if len(set(f)) != 3 or not all(0 <= i < nv for i in f):
            return "face %r is degenerate or out of range" % (f,)
        for a, b in ((f[0], f[1]), (f[1], f[2]), (f[2], f[0])):
            edges[(a, b)] = edges.get((a, b), 0) + 1
    for (a, b), k in edges.items():
        if k != 1:
            return "directed edge (%d,%d) is used %d times" % (a, b, k)
        if edges.get((b, a), 0) != 1:
            return "edge (%d,%d) has no opposite twin: the surface is open or inconsistently oriented" % (a, b)
    return None


def _measures(verts, faces):
    """6*signed volume (exact, translation removed) and total area (float of exact squared cross products)"""
    v0 = verts[0]
    vs = [_sub(v, v0) for v in verts]
    six, area = Fr(0), 0.0
    for a, b, c in faces:
        six += _dot(vs[a], _cross(vs[b], vs[c]))
        cr = _cross(_sub(vs[b], vs[a]), _sub(vs[c], vs[a]))
        area += 0.5 * math.sqrt(_dot(cr, cr))
    return six, area


def oracle(c, o):
    kind = _base(c["kind"])
    nonfloat = c["kind"] in ("cube_nonfloat", "tri_nonfloat")
    if nonfloat:
        if "raise" not in o:
            return "non-float %s argument (%s) was accepted" % ("size" if kind == "cube" else "height", c.get("size_kind") or c.get("height_kind"))
        if o["raise"] != "ValueError":
            return "non-float argument rejected with %s instead of ValueError" % o["raise"]
        return None
    if c["kind"] == "tri_collinear":
        return None  # outside the quantifier of the property
    if "raise" in o:
        return "unexpected exception %s: %s" % (o["raise"], o.get("msg"))
    if not o["args_unchanged"]:
        return "argument array was modified"
    if not o["args_unchanged_after_edit"]:
        return "editing the returned arrays changed the caller's argument arrays (the result aliases its input)"
    if not o["repeat_same"]:
        if "raise" in o["repeat"]:
            return "after the returned arrays were edited in place, the same call raised %s" % o["repeat"]["raise"]
        return ("after the returned arrays were edited in place, the same call returned something else: faces %r, vertices %r"
                % (o["repeat"]["faces"][:3], o["repeat"]["vertices"][:2]))
    if o["faces_dtype_kind"] not in "iu":
        return "faces have non-integer dtype kind %r" % o["faces_dtype_kind"]
    verts = [_F(v) for v in o["vertices"]]
    faces = o["faces"]
    nv, nf = (8, 12) if kind in ("rect", "cube") else (6, 8)
    if len(verts) != nv or len(faces) != nf:
        return "%d vertices / %d faces, expected %d / %d" % (len(verts), len(faces), nv, nf)
    r = _closed(faces, nv)
    if r:
        return r
    # flattened == vertices[faces], exactly
    want = [sum((o["vertices"][i] for i in f), []) for f in faces]
    if o["flat_shape"] != [nf, 3, 3] or o["flat"] != want:
        return "flattened return value is not vertices[faces]"
    six, area = _measures(verts, faces)
    # outward: every face normal points away from the centroid of the (convex) solid
    ctr = [sum(v[k] for v in verts) / len(verts) for k in range(3)]
    for f in faces:
        a, b, cc = (verts[i] for i in f)
        if _dot(_cross(_sub(b, a), _sub(cc, a)), _sub(a, ctr)) <= 0:
            return "face %r does not face outward (its normal points towards the centroid)" % (f,)
    # magnitude of the coordinates, no absolute floor: a prism of size 1e-9 is judged as strictly as one of size 1
    M = max([abs(x) for v in verts for x in v] + [abs(x) for v in verts for x in _sub(v, verts[0])])
    L = max(abs(x - y) for v in verts for x, y in zip(v, verts[0]))
    slack = Fr(1, 10 ** 9) * M * L * L  # vertex coordinates carry rounding error relative to their own magnitude
    if kind in ("rect", "cube"):
        origin = _F(c["origin"])
        size = _F(c["size"]) if kind == "rect" else [Fr(float(c["size"]))] * 3
        vol = size[0] * size[1] * size[2]
        if abs(six / 6 - vol) > Fr(1, 10 ** 7) * vol + 6 * slack:
            return "enclosed signed volume %s differs from the product of the sizes %s" % (float(six / 6), float(vol))
        want_area = float(2 * (size[0] * size[1] + size[1] * size[2] + size[0] * size[2]))
        if abs(area - want_area) > 1e-7 * want_area + 1e-9 * float(M * L):
            return "total area %s differs from the analytic surface area %s" % (area, want_area)
        for k in range(3):
            lo, hi = min(v[k] for v in verts), max(v[k] for v in verts)
            if lo != origin[k] or abs(hi - (origin[k] + size[k])) > Fr(1, 10 ** 9) * M:
                return "prism spans [%s, %s] on axis %d, expected [%s, %s]" % (float(lo), float(hi), k, float(origin[k]), float(origin[k] + size[k]))
        if len({tuple(v) for v in verts}) != 8:
            return "the eight corners are not distinct"
        return None
    p = [_F(x) for x in c["points"]]
    h = Fr(float(c["height"]))
    if verts[:3] != p:
        return "the first three vertices are not the given triangle"
    cr = _cross(_sub(p[1], p[0]), _sub(p[2], p[0]))
    c2 = _dot(cr, cr)
    if six <= 0:
        return "enclosed signed volume is not positive (%s): faces are not outward" % float(six / 6)
    # (2V)^2 = |c|^2 h^2   <=>   V = base area x height
    if abs((six / 3) ** 2 - c2 * h * h) > Fr(1, 10 ** 6) * c2 * h * h + 40 * slack * abs(six):
        return "enclosed volume %s is not base area x height %s" % (float(six / 6), math.sqrt(float(c2)) / 2 * float(h))
    per = sum(math.sqrt(float(_dot(_sub(a, b), _sub(a, b)))) for a, b in ((p[1], p[0]), (p[2], p[1]), (p[0], p[2])))
    want_area = math.sqrt(float(c2)) + float(h) * per
    if abs(area - want_area) > 1e-6 * want_area + 1e-9 * float(M * L):
        return "total area %s differs from 2 x base + height x perimeter = %s" % (area, want_area)
    for k in range(3):
        d = _sub(verts[k + 3], p[k])
        if _dot(d, cr) >= 0:
            return "the second base is not on the side opposite to the counter-clockwise normal"
        if abs(_dot(d, d) - h * h) > Fr(1, 10 ** 6) * h * h + Fr(1, 10 ** 9) * M * max(M, h):
            return "the second base is not at distance height from the first (vertex %d: %s vs %s)" % (k, math.sqrt(float(_dot(d, d))), float(h))
        for a, b in ((p[1], p[0]), (p[2], p[0])):
            e = _sub(a, b)
            if abs(_dot(d, e)) > Fr(1, 10 ** 6) * h * max(abs(x) for x in e) + Fr(1, 10 ** 9) * M * max(M, h):
                return "the offset to the second base is not perpendicular to the base triangle"
    return None


def classify(c, o, failure, disagrees):
    return None
