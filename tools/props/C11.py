"""C11 — Rotation and affine matrix builders act as documented and invert exactly."""
import math
from fractions import Fraction as Fr

import numpy as np

from common import Kernel, call_impl, coq_bool, coq_list, fl, flv, grid, grid_vec, q, qv

ID = "C11"
N_CASES = {"quick": 360, "thorough": 6000, "search": 3000}
SHARD = 60
RULE = ("seeded streams: euler (0-4 angles, all axis strings over x,y,z plus ignored characters, deg and rad), "
        "rotation_from_up_and_look (grid pairs at power-of-two scales, zero and exactly collinear pairs), the four "
        "transform_matrix_for_* builders (rational rotation matrices, Rodrigues vectors, grid translations, scale "
        "factors incl. zero / negative with and without allow_flipping), apply_transform (single, stacked, vector, "
        "discard_z) and compose_transforms (0-5 matrices); non-trivial = the call returned values; distinct by hash")
TRUSTED = ["Coq 8.16.1 kernel, vm_compute for the correspondence evaluation",
           "axioms (Print Assumptions): ClassicalDedekindReals.sig_forall_dec, sig_not_dec, "
           "FunctionalExtensionality.functional_extensionality_dep, Classical_Prop.classic (all Coq stdlib Reals)",
           "tools/symtrace.py tracing translator + numpy shim (re-validated numerically each run)",
           "coq/Agree.v agreement relation (relative tolerance 1e-9; exact equality on dyadic-grid cases)",
           "NumQ.v 1e-30 approximations of sqrt/cos/sin for running the model; Reals' cos/sin/acos in theorems",
           "NumPy, vg; np.radians uses the binary64 value of pi (the model uses PI)"]
CASE_IMPORTS = [("PW.model", "M_rodrigues"), ("PW.model", "M_affine"), ("PW.model", "M_rotation")]
ASSUMPTIONS = ["theorems are about exact real arithmetic; binary64 rounding is covered only by the tolerance of the "
               "correspondence check on sampled inputs",
               "known finding compose_non_affine: the compose clause holds when every matrix that is followed by another "
               "has last row (0,0,0,1) (C11_compose_left_to_right_partial) and fails otherwise "
               "(C11_compose_projective_refuted): apply_transform drops w without dividing",
               "the binary64 value of pi used by np.radians differs from PI by < 1.3e-16 (not proved in Coq)"]

DEFINITIONAL = ["C11_euler_deg_pi_constant_gap", "C11_apply_point_is_mapply", "C11_apply_w1_w0", "C11_apply_stack_is_rowwise",
                "C11_apply_discard_z_only_drops_z", "C11_compose_two", "C11_compose_nil_identity"]

AXES = {"x": "AX", "y": "AY", "z": "AZ"}
PI_F = Fr(math.pi)

PROJ = ("m00 m01 m02 m03 m10 m11 m12 m13 m20 m21 m22 m23 m30 m31 m32 m33 "
        "a00 a01 a02 a10 a11 a12 a20 a21 a22 vx vy vz fst snd app")
UNF = ("cbv [tm_rotation tm_translation convert_33_to_44 rotation3 apply_point apply_single apply_stack out_row hom_w "
       "compose_transforms rev fold_left flat_map map mlist m3list m33to44 mtranspose mtranslation mapply_w mmul I4 I3 "
       "m3mul vneg n0 n1 euler_rad euler_step axis_rotation zip " + PROJ + "]; rops")


def _imports():
    return [("PW.model", "M_rodrigues"), ("PW.model", "M_affine"), ("PW.model", "M_rotation")]


def _full(res, probe):
    """make every entry of the (object) result arrays symbolic: literal ints 0/1 left by np.pad / np.diag become
    constants of the trace, so a changed literal changes the traced definition"""
    first = np.asarray(probe, dtype=object).reshape(-1)[0]
    t = getattr(first, "t", None)

    def one(a):
        a = np.asarray(a)
        if t is None or a.dtype != object:
            return a
        out = np.empty(a.shape, dtype=object)
        fo = out.reshape(-1)
        for k, e in enumerate(a.reshape(-1)):
            fo[k] = t.lift(e)
        return out

    if isinstance(res, tuple):
        return tuple(one(a) for a in res)
    return one(res)


def _M4(p, off=0):
    return "(M4 %s)" % " ".join("%s%d" % (p, off + i) for i in range(16))


def kernels():
    from polliwog.transform import (apply_transform, compose_transforms, euler, rotation_from_up_and_look,
                                    transform_matrix_for_non_uniform_scale, transform_matrix_for_rotation,
                                    transform_matrix_for_translation, transform_matrix_for_uniform_scale)
    from polliwog.transform._affine_transform import _convert_33_to_44

    ks = []
    PAIR = "let fi := %s in mlist (fst fi) ++ mlist (snd fi)"
    R9 = "(M3 r0 r1 r2 r3 r4 r5 r6 r7 r8)"
    rot = [[2 / 3, -1 / 3, 2 / 3], [2 / 3, 2 / 3, -1 / 3], [-1 / 3, 2 / 3, 2 / 3]]

    ks.append(Kernel(
        "convert_33_to_44", {"r": rot}, lambda r: _full(_convert_33_to_44(r), r),
        "Lemma {T}_ok : forall {vars} : R, {T} ROps {vars} = mlist (convert_33_to_44 ROps %s).\n"
        "Proof. intros. unfold {T}. %s. list_eq_ring. Qed." % (R9, UNF), imports=_imports()))
    ks.append(Kernel(
        "rotation_matrix", {"r": rot},
        lambda r: _full(transform_matrix_for_rotation(r, ret_inverse_matrix=True), r),
        "Lemma {T}_ok : forall {vars} : R, {T} ROps {vars} = %s.\n"
        "Proof. intros. unfold {T}. %s. list_eq_ring. Qed." % (PAIR % ("tm_rotation ROps (RotMat %s)" % R9), UNF),
        imports=_imports()))
    ks.append(Kernel(
        "rotation_matrix_fwd_only", {"r": rot}, lambda r: _full(transform_matrix_for_rotation(r), r),
        "Lemma {T}_ok : forall {vars} : R, {T} ROps {vars} = mlist (fst (tm_rotation ROps (RotMat %s))).\n"
        "Proof. intros. unfold {T}. %s. list_eq_ring. Qed." % (R9, UNF), imports=_imports()))
    ks.append(Kernel(
        "rotation_rodrigues", {"r": [0.5, -1.0, 2.0]},
        lambda r: _full(transform_matrix_for_rotation(r, ret_inverse_matrix=True), r),
        "Lemma {T}_ok : forall {vars} : R, {T}_path ROps {vars} -> {T} ROps {vars} = %s.\n"
        "Proof. intros {vars} Hpath. unfold {T}_path, nfrac in Hpath; rops. path_facts Hpath.\n"
        "  unfold {T}. cbv [tm_rotation rotation3 rodrigues_fwd rod_theta rod_eps rod_axis vnorm vnorm2 vdot nfrac vx vy vz]; rops.\n"
        "  match goal with |- context [Rltb ?a ?b] => destruct (Rltb_spec a b) as [?E|?E]; [exfalso; lra|] end.\n"
        "  cbv [rod_matrix m3add m3scale m3outer m3skew vscale]; %s. list_eq_ring. Qed."
        % (PAIR % "tm_rotation ROps (RotVec (V3 r0 r1 r2))", UNF), imports=_imports()))
    ks.append(Kernel(
        "translation", {"t": [0.5, -1.0, 2.0]},
        lambda t: _full(transform_matrix_for_translation(t, ret_inverse_matrix=True), t),
        "Lemma {T}_ok : forall {vars} : R, {T} ROps {vars} = %s.\n"
        "Proof. intros. unfold {T}. %s. list_eq_ring. Qed." % (PAIR % "tm_translation ROps (V3 t0 t1 t2)", UNF),
        imports=_imports()))

    SCALE_PROOF = (
        "Proof. intros {vars} Hpath. unfold {T}_path in Hpath; rops. path_facts Hpath.\n"
        "  unfold tm_uniform_scale, tm_non_uniform_scale, n0; rops.\n"
        "  repeat match goal with |- context [Reqb ?a ?b] => destruct (Reqb_spec a b) as [?E|?E]; [exfalso; first [contradiction | lra]|] end.\n"
        "  cbn [orb negb andb].\n"
        "  repeat match goal with |- context [Rltb ?a ?b] => destruct (Rltb_spec a b) as [?E|?E]; [exfalso; lra|] end.\n"
        "  cbn [orb negb andb rmap]; f_equal; unfold {T}; %s; list_eq_ring. Qed." % UNF)
    RM = "rmap (fun fi => mlist (fst fi) ++ mlist (snd fi))"
    for name, vals, allow in (("scale_nu_pos", [2.0, 0.5, 3.0], False), ("scale_nu_flip", [2.0, -0.5, 3.0], True),
                              ("scale_nu_pos_allow", [2.0, 0.5, 3.0], True)):
        ks.append(Kernel(
            name, {"s": vals},
            (lambda allow: lambda s: _full(transform_matrix_for_non_uniform_scale(
                s[0], s[1], s[2], allow_flipping=allow, ret_inverse_matrix=True), s))(allow),
            "Lemma {T}_ok : forall {vars} : R, {T}_path ROps {vars} ->\n"
            "  %s (tm_non_uniform_scale ROps s0 s1 s2 %s) = Ok ({T} ROps {vars}).\n%s"
            % (RM, coq_bool(allow), SCALE_PROOF), imports=_imports()))
    for name, val, allow in (("scale_u_pos", 2.5, False), ("scale_u_flip", -2.5, True)):
        ks.append(Kernel(
            name, {"s": [val]},
            (lambda allow: lambda s: _full(transform_matrix_for_uniform_scale(
                s[0], allow_flipping=allow, ret_inverse_matrix=True), s))(allow),
            "Lemma {T}_ok : forall {vars} : R, {T}_path ROps {vars} ->\n"
            "  %s (tm_uniform_scale ROps s0 %s) = Ok ({T} ROps {vars}).\n%s"
            % (RM, coq_bool(allow), SCALE_PROOF), imports=_imports()))

    # apply_transform
    m = [[1.0, 0.5, -2.0, 3.0], [0.25, -1.0, 2.0, -0.5], [4.0, 1.5, 0.5, 1.0], [0.5, -0.25, 2.0, 1.5]]
    p2 = [[1.0, 2.0, 3.0], [-0.5, 4.0, 2.5]]
    P1, P2 = "(V3 p0 p1 p2)", "(V3 p3 p4 p5)"
    for name, pts, kw, model in (
            ("apply_single", p2[0], {}, "apply_single ROps %s false false %s" % (_M4("t"), P1)),
            ("apply_stack", p2, {}, "flat_map (fun x => x) (apply_stack ROps %s false false [%s; %s])" % (_M4("t"), P1, P2)),
            ("apply_vector", p2, {"treat_input_as_vector": True},
             "flat_map (fun x => x) (apply_stack ROps %s false true [%s; %s])" % (_M4("t"), P1, P2)),
            ("apply_discard_z", p2, {"discard_z_coord": True},
             "flat_map (fun x => x) (apply_stack ROps %s true false [%s; %s])" % (_M4("t"), P1, P2)),
            ("apply_single_vector_discard_z", p2[0], {"discard_z_coord": True, "treat_input_as_vector": True},
             "apply_single ROps %s true true %s" % (_M4("t"), P1))):
        ks.append(Kernel(
            name, {"t": m, "p": pts}, (lambda kw: lambda t, p: _full(apply_transform(t)(p, **kw), p))(kw),
            "Lemma {T}_ok : forall {vars} : R, {T} ROps {vars} = %s.\n"
            "Proof. intros. unfold {T}. %s. list_eq_ring. Qed." % (model, UNF), imports=_imports()))

    # compose_transforms
    a = [[1.0, 0.5, -2.0, 3.0], [0.25, -1.0, 2.0, -0.5], [4.0, 1.5, 0.5, 1.0], [0.0, 0.0, 0.0, 1.0]]
    b = [[0.5, 2.0, 1.0, -1.0], [1.0, 0.0, -0.5, 2.0], [3.0, 1.0, 1.0, 0.5], [0.0, 0.0, 0.0, 1.0]]
    c = [[2.0, 0.0, 0.0, 1.0], [0.0, 0.5, 0.0, -2.0], [0.0, 0.0, 4.0, 0.5], [0.5, 0.0, 0.0, 1.0]]
    ks.append(Kernel(
        "compose_0", {}, lambda: compose_transforms(),
        "Lemma {T}_ok : {T} ROps = mlist (compose_transforms ROps []).\n"
        "Proof. unfold {T}. %s. list_eq_ring. Qed." % UNF, imports=_imports()))
    ks.append(Kernel(
        "compose_1", {"g": a}, lambda g: compose_transforms(g),
        "Lemma {T}_ok : forall {vars} : R, {T} ROps {vars} = mlist (compose_transforms ROps [%s]).\n"
        "Proof. intros. unfold {T}. %s. list_eq_ring. Qed." % (_M4("g"), UNF), imports=_imports()))
    ks.append(Kernel(
        "compose_2", {"g": a, "h": b}, lambda g, h: compose_transforms(g, h),
        "Lemma {T}_ok : forall {vars} : R, {T} ROps {vars} = mlist (compose_transforms ROps [%s; %s]).\n"
        "Proof. intros. unfold {T}. %s. list_eq_ring. Qed." % (_M4("g"), _M4("h"), UNF), imports=_imports()))
    ks.append(Kernel(
        "compose_3", {"g": a, "h": b, "k": c}, lambda g, h, k: compose_transforms(g, h, k),
        "Lemma {T}_ok : forall {vars} : R, {T} ROps {vars} = mlist (compose_transforms ROps [%s; %s; %s]).\n"
        "Proof. intros. unfold {T}. %s. list_eq_ring. Qed." % (_M4("g"), _M4("h"), _M4("k"), UNF), imports=_imports()))

    # euler: the three elementary matrices, orders with all three axes, an ignored character, a short order
    for order in ("x", "y", "z", "xyz", "zyx", "yxz", "xwz", "xx"):
        n = len(order)
        ks.append(Kernel(
            "euler_" + order, {"a": [0.3, -1.1, 2.0][:n]},
            (lambda order: lambda a: euler(a, order, "rad"))(order),
            "Lemma {T}_ok : forall {vars} : R, {T} ROps {vars} = m3list (euler_rad ROps [%s] [%s]).\n"
            "Proof. intros. unfold {T}. %s. list_eq_ring. Qed."
            % ("; ".join("a%d" % i for i in range(n)), "; ".join(AXES.get(ch, "AOther") for ch in order), UNF),
            imports=_imports()))
    # more angles than axes: zip truncates
    ks.append(Kernel(
        "euler_truncated", {"a": [0.3, -1.1, 2.0]}, lambda a: euler(a, "zy", "rad"),
        "Lemma {T}_ok : forall {vars} : R, {T} ROps {vars} = m3list (euler_rad ROps [a0; a1; a2] [AZ; AY]).\n"
        "Proof. intros. unfold {T}. %s. list_eq_ring. Qed." % UNF, imports=_imports()))
    # degrees: the same matrix as radians on angle * pi_float / 180 (np.radians; pi_float = binary64 pi)
    K = "nfrac ROps (%d) (%d)" % (PI_F.numerator, PI_F.denominator)
    ks.append(Kernel(
        "euler_deg", {"a": [30.0, -75.0]}, lambda a: euler(a, "zx", "deg"),
        "Lemma {T}_ok : forall {vars} : R, {T} ROps {vars} =\n"
        "  m3list (euler_rad ROps [ndiv ROps (nmul ROps a0 (%s)) (nofZ ROps 180); ndiv ROps (nmul ROps a1 (%s)) (nofZ ROps 180)] [AZ; AX]).\n"
        "Proof. intros. unfold {T}. unfold nfrac. %s. list_eq_ring. Qed." % (K, K, UNF), imports=_imports()))

    # rotation_from_up_and_look: Gram-Schmidt with two nested square roots; equality by unfolding.
    # The code rescales each vector by a power of two (np.frexp / np.ldexp) before any norm is taken (repair 8a2fbc5); the
    # trace then computes on u * 2^-e.  The proof script does not look at the source: it first tries the direct
    # unfolding (no rescaling), then the route through the scale-invariance lemma of P_rotation.v with the power of two
    # that belongs to the scenario's values; square roots with ring-equal arguments are unified (TraceTac.ring_sqrt), so
    # norm / sqrt(dot) / a length computed once or twice all close.  Anything that is not the model breaks.
    import math
    uv, lv = [0.5, 3.0, 1.0], [3.0, -1.0, 0.5]

    def pow2(v):  # the factor 2^-e of np.frexp(max|v|), as Coq text
        f = Fr(2) ** (-math.frexp(max(abs(x) for x in v))[1])
        return "(%d / %d)" % (f.numerator, f.denominator)

    cu, cl = pow2(uv), pow2(lv)
    UL_BODY = ("(unfold rotation_from_up_and_look; cbv [vnorm vnorm2 vdot vdivs vsub vscale vcross m3rows n0 vx vy vz]; rops;\n"
               "   repeat match goal with |- context [Reqb ?a ?b] => destruct (Reqb_spec a b) as [?E|?E];\n"
               "     [exfalso; first [contradiction | lra | sqrt_contra]|] end;\n"
               "   cbn [rmap]; f_equal; unfold {T}, nfrac; %s; list_eq ltac:(elem_eq))" % UNF)
    UL_SCALE = ("(rewrite <- (up_look_scale_invariant %s %s (V3 u0 u1 u2) (V3 l0 l1 l2)) by lra;\n"
                "   replace (vscale ROps %s (V3 u0 u1 u2)) with (V3 (u0 * %s) (u1 * %s) (u2 * %s))\n"
                "     by (unfold vscale; cbn [vx vy vz]; rops; apply V3_ext; ring);\n"
                "   replace (vscale ROps %s (V3 l0 l1 l2)) with (V3 (l0 * %s) (l1 * %s) (l2 * %s))\n"
                "     by (unfold vscale; cbn [vx vy vz]; rops; apply V3_ext; ring))" % (cu, cl, cu, cu, cu, cu, cl, cl, cl, cl))
    ks.append(Kernel(
        "up_look", {"u": uv, "l": lv}, lambda u, l: rotation_from_up_and_look(u, l),
        "(* a path fact  sqrt a <> 0  against a case hypothesis  sqrt b = 0  with ring-equal a, b *)\n"
        "Ltac sqrt_contra := match goal with Hn : sqrt ?a <> 0, He : sqrt ?b = 0 |- _ =>\n"
        "  apply Hn; rewrite <- He; f_equal; ring end.\n"
        "(* one entry: syntactically equal, or equal as polynomials in the square roots taken as opaque atoms (division\n"
        "   unfolded to multiplication by an inverse), or the same after unifying ring-equal square-root arguments *)\n"
        "Ltac abs_sqrts := repeat match goal with |- context [sqrt ?a] =>\n"
        "  let n := fresh \"n\" in set (n := sqrt a) in *; clearbody n end.\n"
        "Ltac elem_eq := first [ reflexivity | solve [clear; abs_sqrts; unfold Rdiv; ring] | ring_sqrt ].\n"
        "Lemma {T}_ok : forall {vars} : R, {T}_path ROps {vars} ->\n"
        "  rmap (m3list (F:=R)) (rotation_from_up_and_look ROps (V3 u0 u1 u2) (V3 l0 l1 l2)) = Ok ({T} ROps {vars}).\n"
        "Proof. intros {vars} Hpath. unfold {T}_path, nfrac in Hpath; rops. path_facts Hpath.\n"
        "  first [ timeout 60 solve [ " + UL_BODY + " ]\n        | timeout 60 solve [ " + UL_SCALE + ";\n  " + UL_BODY + " ] ]. Qed.",
        imports=_imports() + [("PW.proofs", "P_vec"), ("PW.proofs", "P_rotation")], perturb=1e-3))
    return ks


# ---------------------------------------------------------------------------------------------------------
def _scale(rng, tier):
    return 2.0 ** (rng.randint(-30, 30) if tier == "thorough" else rng.randint(-10, 10))


def _grid_m4(rng, affine):
    m = [[grid(rng) for _ in range(4)] for _ in range(4)]
    if affine:
        m[3] = [0.0, 0.0, 0.0, 1.0]
    return m


def _quat_rotation(rng):
    """exact rational rotation matrix from an integer quaternion (rounded to binary64 when used)"""
    while True:
        a, b, c, d = [rng.randint(-4, 4) for _ in range(4)]
        n = a * a + b * b + c * c + d * d
        if n:
            break
    R = [[a * a + b * b - c * c - d * d, 2 * (b * c - a * d), 2 * (b * d + a * c)],
         [2 * (b * c + a * d), a * a - b * b + c * c - d * d, 2 * (c * d - a * b)],
         [2 * (b * d - a * c), 2 * (c * d + a * b), a * a - b * b - c * c + d * d]]
    return [[x / n for x in row] for row in R]


def _near_collinear(rng, tier):
    """up/look pair whose directions differ by 1e-6 .. 1e-2 rad (the ill-conditioned end of the property's domain)"""
    while True:
        up = grid_vec(rng)
        perp = np.cross(up, grid_vec(rng))
        if np.linalg.norm(up) > 0 and np.linalg.norm(perp) > 0:
            break
    ang = 10.0 ** rng.uniform(-6.0, -2.0)
    c = rng.choice([1.0, 2.5, -1.0, -0.75])  # also the anti-parallel side
    look = [c * u + abs(c) * ang * np.linalg.norm(up) / np.linalg.norm(perp) * q_ for u, q_ in zip(up, perp)]
    s1, s2 = _scale(rng, tier), _scale(rng, tier)
    return [x * s1 for x in up], [x * s2 for x in look]


def _sin_angle(up, look):
    """exact |up x look|^2 / (|up|^2 |look|^2) as a Fraction"""
    u, l = _F(up), _F(look)
    cr = [u[1] * l[2] - u[2] * l[1], u[2] * l[0] - u[0] * l[2], u[0] * l[1] - u[1] * l[0]]
    return sum(x * x for x in cr) / (sum(x * x for x in u) * sum(x * x for x in l))


def _up_look_tol(c):
    """1e-9, amplified by 1/sin(angle) below 1e-5 (Gram-Schmidt loses that many digits): 1e-14 / sin(angle)"""
    s2 = _sin_angle(c["up"], c["look"])
    sin = Fr(math.isqrt(int(s2 * 10 ** 40)), 10 ** 20)
    if sin == 0:
        return Fr(1)
    return max(Fr(1, 10 ** 9), Fr(1, 10 ** 14) / sin)


def gen_cases(rng, n, tier):
    cases = []
    # every three-letter axis order once per run (all 27), alternating units
    for i, order in enumerate(a + b + c_ for a in "xyz" for b in "xyz" for c_ in "xyz"):
        deg = i % 2 == 0
        cases.append({"kind": "euler_order_sweep", "deg": deg, "order": order, "scalar": False,
                      "angles": [rng.uniform(-720, 720) if deg else rng.uniform(-7, 7) for _ in range(3)]})
    for _ in range(24 if tier == "quick" else 300):  # rational rotation matrices (integer quaternions), rounded to binary64
        cases.append({"kind": "rotation_matrix", "orth": True, "r": _quat_rotation(rng)})
    for i in range(6):  # a bare scalar angle (not a list) with one axis, both units
        deg = i % 2 == 0
        cases.append({"kind": "euler_scalar", "deg": deg, "order": "xyz"[i % 3] + ("" if i < 3 else "z"), "scalar": True,
                      "angles": [rng.uniform(-720, 720) if deg else rng.uniform(-7, 7)]})
    # "at any magnitude": each vector independently at the far ends of the binary64 range (squared norms would
    # overflow above 2^512 and underflow below 2^-512), down to subnormal components
    for _ in range(16 if tier == "quick" else 200):
        while True:
            up, look = grid_vec(rng), grid_vec(rng)
            cr = np.cross(up, look)
            if np.linalg.norm(cr) > 1e-2 * np.linalg.norm(up) * np.linalg.norm(look) > 0:
                break
        ku, kl = [rng.choice([1, -1]) * rng.randint(520, 1070) if rng.random() < 0.75 else rng.randint(-10, 10) for _ in range(2)]
        ku, kl = min(ku, 1020), min(kl, 1020)
        cases.append({"kind": "up_look_extreme", "up": [math.ldexp(x, ku) for x in up],
                      "look": [math.ldexp(x, kl) for x in look], "exp": [ku, kl]})
    for _ in range(12 if tier == "quick" else 200):
        up, look = _near_collinear(rng, tier)
        cases.append({"kind": "up_look_near_collinear", "up": up, "look": look})
    for _ in range(n):
        u = rng.random()
        if u < 0.16:
            k = rng.randint(0, 4)
            alphabet = "xyz" if rng.random() < 0.85 else "xyzw"
            order = "".join(rng.choice(alphabet) for _ in range(rng.randint(0, 4)))
            deg = rng.random() < 0.5
            if rng.random() < 0.3:  # right angles and other exactly representable degree values
                angles = [float(rng.choice([0, 30, 45, 60, 90, 180, 270, 360, -90, 720])) for _ in range(k)]
                if not deg:
                    angles = [math.radians(a) for a in angles]
            else:
                angles = [rng.uniform(-720, 720) if deg else rng.uniform(-7, 7) for _ in range(k)]
            if k == 1 and rng.random() < 0.3:
                cases.append({"kind": "euler_scalar", "deg": deg, "angles": angles, "order": order, "scalar": True})
            else:
                cases.append({"kind": "euler", "deg": deg, "angles": angles, "order": order, "scalar": False})
        elif u < 0.34:
            s1, s2 = _scale(rng, tier), _scale(rng, tier)
            v = rng.random()
            if v < 0.12:
                up, look = [0.0, 0.0, 0.0], grid_vec(rng)
                if rng.random() < 0.5:
                    up, look = look, up
                kind = "up_look_zero"
            elif v < 0.2:  # exactly collinear, axis aligned: ValueError in exact and in binary64 arithmetic
                ax = rng.randrange(3)
                up, look = [0.0] * 3, [0.0] * 3
                up[ax] = rng.choice([1, 2, -3, 0.5]) * s1
                look[ax] = rng.choice([1, -2, 4, 0.25]) * s2
                kind = "up_look_collinear"
            else:
                while True:
                    up, look = grid_vec(rng), grid_vec(rng)
                    cr = np.cross(up, look)
                    if np.linalg.norm(cr) > 1e-2 * np.linalg.norm(up) * np.linalg.norm(look) > 0:
                        break
                up, look = [x * s1 for x in up], [x * s2 for x in look]
                kind = "up_look"
            cases.append({"kind": kind, "up": up, "look": look})
        elif u < 0.42:
            v = rng.random()
            if v < 0.6:
                cases.append({"kind": "rotation_matrix", "orth": True, "r": _quat_rotation(rng)})
            else:
                cases.append({"kind": "rotation_any_matrix", "orth": False, "r": [grid_vec(rng) for _ in range(3)]})
        elif u < 0.52:
            v = rng.random()
            if v < 0.15:
                r = [0.0, 0.0, 0.0]
            elif v < 0.25:
                r = [x * 2.0 ** -70 for x in grid_vec(rng)]
            else:
                r = [x * rng.choice([0.125, 0.25, 1.0, 1.0, 4.0]) for x in grid_vec(rng)]
                if 0 < np.linalg.norm(r) < 1e-3:
                    r = [1.0, 0.5, -0.25]
            cases.append({"kind": "rotation_rodrigues", "r": r})
        elif u < 0.58:
            cases.append({"kind": "translation", "t": [x * _scale(rng, tier) for x in grid_vec(rng)]})
        elif u < 0.72:
            allow = rng.random() < 0.5
            s = _scale(rng, tier)
            v = rng.random()
            f = [rng.choice([0.5, 1.0, 1.5, 2.0, 3.0, 2.5, 7.0]) * s for _ in range(3)]
            if v < 0.25:
                f[rng.randrange(3)] = 0.0
                if rng.random() < 0.3:
                    f[rng.randrange(3)] = -1.0
            elif v < 0.7:
                # every sign pattern (one, two or three negative factors) with and without allow_flipping
                signs = rng.choice([(-1, 1, 1), (1, -1, 1), (1, 1, -1), (-1, -1, 1), (-1, 1, -1), (1, -1, -1), (-1, -1, -1)])
                f = [a * b for a, b in zip(f, signs)]
            if rng.random() < 0.3:
                cases.append({"kind": "scale_uniform", "s": f[0], "allow": allow})
            else:
                cases.append({"kind": "scale_non_uniform", "f": f, "allow": allow})
        elif u < 0.76:
            cases.append({"kind": "convert_33_to_44", "r": [grid_vec(rng) for _ in range(3)]})
        elif u < 0.9:
            s = _scale(rng, tier)
            m = _grid_m4(rng, rng.random() < 0.5)
            pts = [[x * s for x in grid_vec(rng)] for _ in range(rng.randint(0, 5))]
            as_int = rng.random() < 0.25
            if as_int:  # the same call with an integer-dtype point array (integer-valued coordinates)
                pts = [[float(rng.randint(-9, 9)) for _ in range(3)] for _ in range(rng.randint(1, 4))]
            cases.append({"kind": "apply_int_points" if as_int else "apply", "m": m, "points": pts,
                          "discard": rng.random() < 0.35, "asvec": rng.random() < 0.35, "int": as_int})
        else:
            k = rng.choice([0, 1, 2, 2, 3, 3, 4, 5])
            ms = [_grid_m4(rng, rng.random() < 0.6) for _ in range(k)]
            if k >= 2 and rng.random() < 0.3:  # affine everywhere except the LAST matrix: the sequential reading must hold
                ms = [_grid_m4(rng, True) for _ in range(k - 1)] + [_grid_m4(rng, False)]
            cases.append({"kind": "compose", "ms": ms, "p": grid_vec(rng)})
    return cases


def run_impl(c):
    from polliwog.transform import (apply_transform, compose_transforms, euler, rotation_from_up_and_look,
                                    transform_matrix_for_non_uniform_scale, transform_matrix_for_rotation,
                                    transform_matrix_for_translation, transform_matrix_for_uniform_scale)
    from polliwog.transform._affine_transform import _convert_33_to_44

    kind = c["kind"]

    def pair(fi):
        f, i = fi
        return {"fwd": np.asarray(f, dtype=np.float64).reshape(-1).tolist(),
                "inv": np.asarray(i, dtype=np.float64).reshape(-1).tolist(),
                "shapes": [list(np.shape(f)), list(np.shape(i))],
                "dtypes": [str(np.asarray(f).dtype), str(np.asarray(i).dtype)]}

    def go():
        if kind.startswith("euler"):
            arg = c["angles"][0] if c["scalar"] else list(c["angles"])
            units = "deg" if c["deg"] else "rad"
            r = euler(arg, c["order"], units)
            o = {"m": np.asarray(r, dtype=np.float64).reshape(-1).tolist(), "shape": list(r.shape)}
            # the same angles in the other unit
            other = [math.radians(a) for a in c["angles"]] if c["deg"] else [math.degrees(a) for a in c["angles"]]
            r2 = euler(other, c["order"], "rad" if c["deg"] else "deg")
            o["other_units"] = np.asarray(r2, dtype=np.float64).reshape(-1).tolist()
            if not c["scalar"]:
                # the array call form (np.asarray does not copy a float64 array): same angles twice through one array
                arr = np.array(c["angles"], dtype=np.float64)
                keep = arr.copy()
                ra = euler(arr, c["order"], units)
                rb = euler(arr, c["order"], units)
                o["array_form"] = np.asarray(ra, dtype=np.float64).reshape(-1).tolist()
                o["array_form_again"] = np.asarray(rb, dtype=np.float64).reshape(-1).tolist()
                o["args_unchanged"] = bool(np.array_equal(keep, arr))
            return o
        if kind.startswith("up_look"):
            up, look = np.array(c["up"]), np.array(c["look"])
            b = (up.copy(), look.copy())
            r = rotation_from_up_and_look(up, look)
            return {"m": r.reshape(-1).tolist(), "shape": list(r.shape), "dtype": str(r.dtype),
                    "args_unchanged": bool(np.array_equal(b[0], up) and np.array_equal(b[1], look))}
        if kind in ("rotation_matrix", "rotation_any_matrix", "rotation_rodrigues"):
            r = np.array(c["r"], dtype=np.float64)
            o = pair(transform_matrix_for_rotation(r, ret_inverse_matrix=True))
            o["fwd_only"] = transform_matrix_for_rotation(r).reshape(-1).tolist()
            return o
        if kind == "translation":
            t = np.array(c["t"])
            o = pair(transform_matrix_for_translation(t, ret_inverse_matrix=True))
            o["fwd_only"] = transform_matrix_for_translation(t).reshape(-1).tolist()
            return o
        if kind == "scale_non_uniform":
            x, y, z = c["f"]
            o = pair(transform_matrix_for_non_uniform_scale(x, y, z, allow_flipping=c["allow"], ret_inverse_matrix=True))
            o["fwd_only"] = transform_matrix_for_non_uniform_scale(x, y, z, allow_flipping=c["allow"]).reshape(-1).tolist()
            return o
        if kind == "scale_uniform":
            o = pair(transform_matrix_for_uniform_scale(c["s"], allow_flipping=c["allow"], ret_inverse_matrix=True))
            o["fwd_only"] = transform_matrix_for_uniform_scale(c["s"], allow_flipping=c["allow"]).reshape(-1).tolist()
            return o
        if kind == "convert_33_to_44":
            r = np.array(c["r"])
            b = r.copy()
            m = _convert_33_to_44(r)
            return {"m": m.reshape(-1).tolist(), "shape": list(m.shape), "args_unchanged": bool(np.array_equal(b, r))}
        if kind in ("apply", "apply_int_points"):
            m = np.array(c["m"])
            pts = np.array(c["points"], dtype=np.int64 if c.get("int") else np.float64).reshape(-1, 3)
            b = (m.copy(), pts.copy())
            f = apply_transform(m)
            kw = {"discard_z_coord": c["discard"], "treat_input_as_vector": c["asvec"]}
            st = f(pts, **kw)
            singles = [f(p, **kw) for p in pts]
            return {"stack": st.tolist(), "stack_shape": list(st.shape), "singles": [s.tolist() for s in singles],
                    "single_shapes": [list(s.shape) for s in singles],
                    "full": f(pts, treat_input_as_vector=c["asvec"]).tolist(),
                    "args_unchanged": bool(np.array_equal(b[0], m) and np.array_equal(b[1], pts))}
        if kind == "compose":
            ms = [np.array(m) for m in c["ms"]]
            r = compose_transforms(*ms)
            p = np.array(c["p"])
            seq = p
            for m in ms:
                seq = apply_transform(m)(seq)
            seqv = p
            for m in ms:
                seqv = apply_transform(m)(seqv, treat_input_as_vector=True)
            return {"m": r.reshape(-1).tolist(), "shape": list(r.shape), "applied": apply_transform(r)(p).tolist(),
                    "sequential": seq.tolist(), "applied_vec": apply_transform(r)(p, treat_input_as_vector=True).tolist(),
                    "sequential_vec": seqv.tolist()}
        raise ValueError("unknown kind " + kind)

    return call_impl(go)


def _q_m3(r):
    return "(M3 %s)" % " ".join(q(x) for row in r for x in row)


def _q_m4(m):
    return "(M4 %s)" % " ".join(q(x) for row in m for x in row)


def _res(o, ok):
    if isinstance(o, dict) and "raise" in o:
        return "(Raise %s)" % o["raise"]
    return "(Ok %s)" % ok(o)


def coq_case(c, o):
    kind = c["kind"]
    raised = isinstance(o, dict) and "raise" in o
    if kind.startswith("euler"):
        if raised:
            return "CEuler false [] [] [FNan]"
        order = coq_list(AXES.get(ch, "AOther") for ch in c["order"])
        return "CEuler %s %s %s %s" % (coq_bool(c["deg"]), coq_list(q(a) for a in c["angles"]), order, flv(o["m"]))
    if kind == "up_look_near_collinear":
        return "CUpLookTol %s %s %s %s" % (q(_up_look_tol(c)), qv(c["up"]), qv(c["look"]), _res(o, lambda o: flv(o["m"])))
    if kind == "up_look_extreme":
        # the Q model is run on up * 2^-ku, look * 2^-kl (exact): same result by C11_up_look_scale_invariant, and the
        # evaluation does not have to carry 1000-bit numbers through the square roots
        ku, kl = c["exp"]
        return "CUpLook %s %s %s" % (qv([Fr(x) / Fr(2) ** ku for x in c["up"]]), qv([Fr(x) / Fr(2) ** kl for x in c["look"]]),
                                     _res(o, lambda o: flv(o["m"])))
    if kind.startswith("up_look"):
        return "CUpLook %s %s %s" % (qv(c["up"]), qv(c["look"]), _res(o, lambda o: flv(o["m"])))
    if kind in ("rotation_matrix", "rotation_any_matrix"):
        if raised:
            return "CEuler false [] [] [FNan]"
        return "CRotation (RotMat %s) %s %s" % (_q_m3(c["r"]), flv(o["fwd"]), flv(o["inv"]))
    if kind == "rotation_rodrigues":
        if raised:
            return "CEuler false [] [] [FNan]"
        return "CRotation (RotVec %s) %s %s" % (qv(c["r"]), flv(o["fwd"]), flv(o["inv"]))
    if kind == "translation":
        if raised:
            return "CEuler false [] [] [FNan]"
        return "CTranslation %s %s %s" % (qv(c["t"]), flv(o["fwd"]), flv(o["inv"]))
    if kind == "scale_non_uniform":
        x, y, z = c["f"]
        return "CScaleNU %s %s %s %s %s" % (q(x), q(y), q(z), coq_bool(c["allow"]),
                                             _res(o, lambda o: "(%s, %s)" % (flv(o["fwd"]), flv(o["inv"]))))
    if kind == "scale_uniform":
        return "CScaleU %s %s %s" % (q(c["s"]), coq_bool(c["allow"]),
                                     _res(o, lambda o: "(%s, %s)" % (flv(o["fwd"]), flv(o["inv"]))))
    if kind == "convert_33_to_44":
        if raised:
            return "CEuler false [] [] [FNan]"
        return "CConvert %s %s" % (_q_m3(c["r"]), flv(o["m"]))
    if kind in ("apply", "apply_int_points"):
        if raised:
            return "CEuler false [] [] [FNan]"
        return "CApply true %s %s %s %s %s %s" % (
            _q_m4(c["m"]), coq_bool(c["discard"]), coq_bool(c["asvec"]), coq_list(qv(p) for p in c["points"]),
            coq_list(flv(r) for r in o["stack"]), coq_list(flv(r) for r in o["singles"]))
    if kind == "compose":
        if raised:
            return "CEuler false [] [] [FNan]"
        return "CCompose true %s %s" % (coq_list(_q_m4(m) for m in c["ms"]), flv(o["m"]))
    raise ValueError(kind)


# ---------------------------------------------------------------------------------------------------------
# oracle: the property text on the implementation's own output, exact rational arithmetic
def _F(v):
    return [Fr(float(x)) for x in v]


def _mat(flat, n):
    f = _F(flat)
    return [f[i * n:(i + 1) * n] for i in range(n)]


def _mm(a, b):
    n = len(a)
    return [[sum(a[i][k] * b[k][j] for k in range(n)) for j in range(n)] for i in range(n)]


def _tr(a):
    return [list(r) for r in zip(*a)]


def _det3(m):
    return (m[0][0] * (m[1][1] * m[2][2] - m[1][2] * m[2][1]) - m[0][1] * (m[1][0] * m[2][2] - m[1][2] * m[2][0])
            + m[0][2] * (m[1][0] * m[2][1] - m[1][1] * m[2][0]))


def _near_I(m, tol):
    n = len(m)
    return all(abs(m[i][j] - (1 if i == j else 0)) <= tol for i in range(n) for j in range(n))


def _apply(m, p, w=1):
    return [m[i][0] * p[0] + m[i][1] * p[1] + m[i][2] * p[2] + m[i][3] * w for i in range(3)]


TOL = Fr(1, 10 ** 9)


def _proper(m, what, tol=None):
    tol = TOL if tol is None else tol
    if not _near_I(_mm(m, _tr(m)), tol):
        return "%s: R R^T is not the identity" % what
    if abs(_det3(m) - 1) > tol:
        return "%s: determinant is %s, not +1" % (what, float(_det3(m)))
    return None


def _pair_checks(o, what, check_inverse=True):
    if o["shapes"] != [[4, 4], [4, 4]]:
        return "%s: shapes %r" % (what, o["shapes"])
    f, i = _mat(o["fwd"], 4), _mat(o["inv"], 4)
    for name, m in (("forward", f), ("inverse", i)):
        if m[3] != [0, 0, 0, 1]:
            return "%s: last row of the %s matrix is %r" % (what, name, [float(x) for x in m[3]])
    if o["fwd_only"] != o["fwd"]:
        return "%s: matrix returned without ret_inverse_matrix differs from the forward matrix" % what
    if check_inverse:
        if not _near_I(_mm(i, f), TOL) or not _near_I(_mm(f, i), TOL):
            return "%s: inverse matrix does not undo the forward matrix" % what
    return None


def _euler_ref(angles, order, deg):
    """independent reference: rotate the three basis vectors by the listed axis rotations in order (floats are fine:
    used with tolerance 1e-9)"""
    cols = []
    for e in ([1.0, 0.0, 0.0], [0.0, 1.0, 0.0], [0.0, 0.0, 1.0]):
        v = list(e)
        for a, ax in zip(angles, order):
            t = math.radians(a) if deg else a
            cth, sth = math.cos(t), math.sin(t)
            x, y, z = v
            if ax == "x":
                v = [x, cth * y - sth * z, sth * y + cth * z]
            elif ax == "y":
                v = [cth * x + sth * z, y, -sth * x + cth * z]
            elif ax == "z":
                v = [cth * x - sth * y, sth * x + cth * y, z]
        cols.append(v)
    return [[cols[j][i] for j in range(3)] for i in range(3)]


def oracle(c, o):
    kind = c["kind"]
    raised = isinstance(o, dict) and "raise" in o
    if kind.startswith("euler"):
        if raised:
            return "euler raised %s" % o["raise"]
        if o["shape"] != [3, 3]:
            return "euler: shape %r" % o["shape"]
        m = _mat(o["m"], 3)
        f = _proper(m, "euler")
        if f:
            return f
        ref = _euler_ref(c["angles"], c["order"], c["deg"])
        if any(abs(float(m[i][j]) - ref[i][j]) > 1e-9 for i in range(3) for j in range(3)):
            return "euler is not the listed axis rotations applied in the given order"
        big = max([1.0] + [abs(a) for a in c["angles"]])
        if any(abs(a - b) > 1e-9 * big for a, b in zip(o["m"], o["other_units"])):
            return "euler: degrees and radians disagree"
        if "array_form" in o:
            if not o["args_unchanged"]:
                return "euler modified the angle array it was given"
            if o["array_form"] != o["m"] or o["array_form_again"] != o["m"]:
                return "euler: a float64 angle array gives a different matrix than the same angles as a list (or on a second call)"
        return None
    if kind in ("up_look_zero",):
        return None if (raised and o["raise"] == "ValueError") else "zero-length up/look not rejected with ValueError"
    if kind == "up_look_collinear":
        return None  # outside the property's domain (directions differ by less than 1e-6 rad)
    if kind in ("up_look", "up_look_near_collinear", "up_look_extreme"):
        TOLU = _up_look_tol(c)
        if raised:
            return "rotation_from_up_and_look raised %s on a valid pair" % o["raise"]
        if o["shape"] != [3, 3] or o["dtype"] != "float64":
            return "rotation_from_up_and_look: shape/dtype %r %s" % (o["shape"], o["dtype"])
        if not o["args_unchanged"]:
            return "rotation_from_up_and_look modified its arguments"
        m = _mat(o["m"], 3)
        f = _proper(m, "rotation_from_up_and_look", TOLU)
        if f:
            return f
        up, look = _F(c["up"]), _F(c["look"])
        ru = [sum(m[i][k] * up[k] for k in range(3)) for i in range(3)]
        rl = [sum(m[i][k] * look[k] for k in range(3)) for i in range(3)]
        nu = max(abs(x) for x in up)
        nl = max(abs(x) for x in look)
        if abs(ru[0]) > TOLU * nu or abs(ru[2]) > TOLU * nu or ru[1] <= 0:
            return "up is not taken to +y: R up = %r" % [float(x) for x in ru]
        if abs(rl[0]) > TOLU * nl or rl[2] <= 0:
            return "look is not taken into the y-z half-plane with positive z: R look = %r" % [float(x) for x in rl]
        return None
    if raised and kind not in ("scale_non_uniform", "scale_uniform"):
        return "%s raised %s" % (kind, o["raise"])
    if kind in ("rotation_matrix", "rotation_any_matrix", "rotation_rodrigues"):
        f = _pair_checks(o, kind, check_inverse=(kind != "rotation_any_matrix"))
        if f:
            return f
        fm = _mat(o["fwd"], 4)
        if [fm[i][3] for i in range(3)] != [0, 0, 0]:
            return "rotation matrix has a translation column"
        blk = [r[:3] for r in fm[:3]]
        if kind != "rotation_rodrigues":
            if blk != [_F(r) for r in c["r"]]:
                return "upper-left block is not the given rotation matrix"
        else:
            f = _proper(blk, "rotation from a Rodrigues vector")
            if f:
                return f
            # the axis is fixed
            r = _F(c["r"])
            img = [sum(blk[i][k] * r[k] for k in range(3)) for i in range(3)]
            mag = max([abs(x) for x in r] + [Fr(1, 10 ** 30)])
            if any(abs(a - b) > TOL * max(mag, 1) for a, b in zip(img, r)):
                return "Rodrigues rotation does not fix its axis"
        return None
    if kind == "translation":
        f = _pair_checks(o, kind)
        if f:
            return f
        fm = _mat(o["fwd"], 4)
        t = _F(c["t"])
        p = [Fr(1, 2), Fr(-3), Fr(5, 4)]
        if _apply(fm, p) != [a + b for a, b in zip(p, t)]:
            return "translation matrix does not add the vector"
        return None
    if kind in ("scale_non_uniform", "scale_uniform"):
        fs = c["f"] if kind == "scale_non_uniform" else [c["s"]] * 3
        bad = any(x == 0 for x in fs) or (not c["allow"] and any(x < 0 for x in fs))
        if bad:
            return None if (raised and o["raise"] == "ValueError") else "scale factors %r (allow_flipping=%s) not rejected with ValueError" % (fs, c["allow"])
        if raised:
            return "valid scale factors %r rejected with %s" % (fs, o["raise"])
        f = _pair_checks(o, kind)
        if f:
            return f
        fm = _mat(o["fwd"], 4)
        p = [Fr(1, 2), Fr(-3), Fr(5, 4)]
        if _apply(fm, p) != [a * b for a, b in zip(p, _F(fs))]:
            return "scale matrix does not multiply each coordinate by its factor"
        return None
    if kind == "convert_33_to_44":
        m = _mat(o["m"], 4)
        r = [_F(x) for x in c["r"]]
        if o["shape"] != [4, 4] or [row[:3] for row in m[:3]] != r or m[3] != [0, 0, 0, 1] or [m[i][3] for i in range(3)] != [0, 0, 0]:
            return "_convert_33_to_44 is not the block padding"
        if not o["args_unchanged"]:
            return "_convert_33_to_44 modified its argument"
        return None
    if kind in ("apply", "apply_int_points"):
        m = [_F(r) for r in c["m"]]
        w = 0 if c["asvec"] else 1
        k = len(c["points"])
        ncol = 2 if c["discard"] else 3
        if o["stack_shape"] != [k, ncol]:
            return "apply_transform: stacked result has shape %r" % o["stack_shape"]
        if not o["args_unchanged"]:
            return "apply_transform modified its arguments"
        for i, p in enumerate(c["points"]):
            want = _apply(m, _F(p), w)
            if _F(o["full"][i]) != want:
                return "apply_transform row %d is not M (p, %d)" % (i, w)
            if _F(o["stack"][i]) != want[:ncol]:
                return "discard_z_coord does not just drop the third coordinate at row %d" % i
            if o["single_shapes"][i] != [ncol] or o["singles"][i] != o["stack"][i]:
                return "single point and stacked row %d differ" % i
        return None
    if kind == "compose":
        if o["shape"] != [4, 4]:
            return "compose_transforms: shape %r" % o["shape"]
        ms = [[_F(r) for r in m] for m in c["ms"]]
        m = _mat(o["m"], 4)
        if not ms and not _near_I(m, 0):
            return "composing nothing is not the identity"
        want = [[Fr(int(i == j)) for j in range(4)] for i in range(4)]
        for x in ms:
            want = _mm(x, want)
        if m != want:
            return "compose_transforms is not the left-to-right product"
        # the property text, for ALL 4x4 matrices (no affinity filter): see classify() / known_findings/C11.json
        if _F(o["applied"]) != _F(o["sequential"]):
            return "applying compose(A, B, ...) differs from applying A, then B, ...: %r vs %r" % (o["applied"], o["sequential"])
        if _F(o["applied_vec"]) != _F(o["sequential_vec"]):
            return "applying compose(A, B, ...) differs from applying A, then B, ... (as vectors): %r vs %r" % (
                o["applied_vec"], o["sequential_vec"])
        return None
    return None


def classify(c, o, failure, disagrees):
    """known finding compose_non_affine: compose_transforms + apply_transform on a list in which a matrix that is followed
    by another one is not affine (last row != (0,0,0,1)); only the sequential-application clause, only when the
    model agrees with the implementation"""
    if (c.get("kind") == "compose" and failure and failure.startswith("applying compose(A, B, ...) differs")
            and not disagrees and any(list(m[3]) != [0.0, 0.0, 0.0, 1.0] for m in c["ms"][:-1])):
        return "compose_non_affine"
    return None

# added with seeded rounds 6-7 (DESIGN 8.6)
RULE = RULE + '; euler also with the angles as a float64 array, twice through the same array (argument unchanged, same matrix)'
