"""C10 — Rodrigues conversions produce the stated rotation and invert each other; cv2_rodrigues dispatch."""
import math
from fractions import Fraction as Fr

import numpy as np

from common import Kernel, call_impl, coq_bool, coq_list, coq_nat, fl, flv, q

ID = "C10"
N_CASES = {"quick": 360, "thorough": 4000, "search": 3000}
SHARD = 40
RULE = ("seeded streams: rotation vectors = small-integer directions scaled to magnitudes 0, 1e-300 .. 2 eps, 1e-12 .. pi, "
        "beyond pi, hundreds of turns, passed as (3,), (3,1) or (1,3) to rodrigues_vector_to_rotation_matrix / cv2_rodrigues "
        "with and without Jacobian; rotation matrices from rational quaternions, from the forward map at angles 1e-9 .. 1e-5 "
        "from 0 and pi, exact half-turns about the 26 lattice directions and about rational unit axes, half-turns whose axis "
        "has a tiny component; off-contract shapes. non-trivial = the call returned values; distinct by hash of inputs")
TRUSTED = ["Coq 8.16.1 kernel, vm_compute for the correspondence evaluation",
           "execution instance QOpsF of coq/corr/K_C10.v: the same generic model on 256-bit binary fixed point (rounding < 1e-76; "
           "the exact-rational QOps needs seconds of gcd per Jacobian), instead of QOps",
           "axioms (Print Assumptions of C10_all, including the Coquelicot-based derivative theorems): "
           "ClassicalDedekindReals.sig_forall_dec, sig_not_dec, FunctionalExtensionality.functional_extensionality_dep, "
           "Classical_Prop.classic (all Coq stdlib Reals; Coquelicot 3.x adds none beyond these)",
           "Coquelicot (is_derive, auto_derive) for the statement and proof of the Jacobian-is-derivative theorems",
           "tools/symtrace.py tracing translator + numpy shim (re-validated numerically each run)",
           "np.linalg.svd (LAPACK): u @ v enters the model as data; contract checked: it equals the input to 1e-9 on rotations",
           "libm cos/sin/arccos: Reals' functions in theorems, 160-bit fixed-point series in the Q instance; arccos answered by the "
           "observed angle t with cos t = model c checked to 1e-13 (a few cases per run evaluate Qacos itself)",
           "coq/Agree.v agreement relation (1e-9; 1e-7 in the half-turn branch; forward Jacobian 1e-9 + 1e-15/theta; inverse "
           "Jacobian 1e-9 relative + 4e-16/s^3 absolute: arccos conditioning, measured 2e-4 at an angle of 6e-5 rad)",
           "NumPy, vg"]
CASE_IMPORTS = [("PW.model", "M_rodrigues")]
# true of the model by unfolding (branch / dispatch shape); their content is carried by the traced ties and the correspondence
DEFINITIONAL = ["C10_cv2_dispatch", "C10_fwd_tiny_is_identity"]
ASSUMPTIONS = ["theorems are about exact real arithmetic; binary64 rounding is covered only by the tolerance of the "
               "correspondence check on sampled inputs",
               "inputs that are not rotation matrices are outside the property",
               "snapping clauses: the zone next to 0 (s < 1e-5, c > 0) is proved (maps back within 2 s < 2e-5, round trip within "
               "1e-5 (1 + 1e-5), Jacobian composition = I); next to pi only the length of the returned vector is proved -- the 2.5e-5 "
               "map-back bound there is sampled by the oracle (measured supremum sqrt(5) s = 2.236e-5 on /repo 1246e74)",
               "reading of 'vector to matrix to vector is the identity for |r| < pi': literally false for pi - 1e-5 < |r| < pi when the "
               "leading axis component is negative (the vector comes back as about -r; the MATRIX still maps back within 2.5e-5): "
               "C10_inv_of_fwd_halfturn_zone_refuted + known finding halfturn_zone_axis_flip; everywhere else the oracle demands the true round trip",
               "binary64 behaviour of the inverse Jacobian (arccos conditioning, not a statement about the real-number model): the "
               "composed Jacobian Jf @ Ji is off from I3 by about 4e-16/s^2 next to 0 but by 1e-3 at pi - 1e-4 and O(1) at pi - 1.1e-5; "
               "the oracle tolerance (1e-14/s^2 for c > 0, 1e-14/s^3 for c < 0) is fitted to that, so the composition clause is "
               "effectively not judged in floating point for angles in about (pi - 1e-4, pi - 1e-5)",
               "the `< eps` shortcut: proved (identity returned, within |r||v| of the exact rotation); repairs named in the model are "
               "/repo commits d47debe (clip before sqrt) and 1246e74 (half-turn signs from the symmetric part)"]

EPS = 2.0 ** -52
SMALL = 1e-5

UNF = ("rodrigues_fwd rodrigues_fwd_jac rod_theta rod_axis rod_matrix rod_jac_row rod_drrt rod_dskew rod_eps rod_m1 "
       "m3add m3scale m3outer m3skew jac39_flat flat_map app m3list I3 vget vnorm vnorm2 vdot vscale nfrac n0 n1 n2 "
       "a00 a01 a02 a10 a11 a12 a20 a21 a22 vx vy vz")
UNF_INV = ("rodrigues_inv rodrigues_inv_of_proj rodrigues_inv_jac rodrigues_inv_jac_of_proj rod_inv_s rod_inv_c rod_inv_theta "
           "rod_antisym rod_half rod_small rod_half_axis rod_diag_root rod_m1 ldot lmatmul_cols lcols3 lcols4 lcols5 row_T33 "
           "zeros93 repeat concat map map2 zip fst snd nsum fold_left app vlist vzero vscale vnorm vnorm2 vdot nfrac n0 n1 n2 "
           "a00 a01 a02 a10 a11 a12 a20 a21 a22 vx vy vz")


_SENTINEL = object()


def _svd_stub_call(R, jac=True):
    """rotation_matrix_to_rodrigues_vector with the LAPACK step replaced by the identity projection
    (svd returns (r, None, sentinel) and np.dot(r, sentinel) = r): everything after `r = np.dot(u, v)` is the real code."""
    import polliwog.transform._rodrigues as M
    inner = M.np

    class LA:
        norm = staticmethod(np.linalg.norm)

        @staticmethod
        def svd(r):
            return r, None, _SENTINEL

    class Wrap:
        def __getattr__(self, n):
            if n == "linalg":
                return LA
            if n == "dot":
                return lambda a, b: a if b is _SENTINEL else inner.dot(a, b)
            return getattr(inner, n)

    M.np = Wrap()
    try:
        return M.rotation_matrix_to_rodrigues_vector(R, jac)
    finally:
        M.np = inner


def kernels():
    from polliwog.transform import rodrigues_vector_to_rotation_matrix as r2m

    imports = [("PW.model", "M_rodrigues"), ("PW.model", "M_rodrigues_spec"), ("PW.proofs", "P_rodrigues")]
    ks = []
    R3 = "(V3 r0 r1 r2)"
    # entrywise equality modulo theta^2 = r.r and theta * (1/theta) = 1 (so that I + s K + (1-c) K^2, c I + (1-c) u u^T + s K and
    # any other arrangement of Rodrigues' formula with the unit axis u = r/theta are accepted): ring first, then nsatz
    ALG = ("unfold Rdiv in *. match goal with |- context [sqrt ?x] => "
           "assert (Ht : sqrt x * sqrt x = x) by (apply sqrt_sqrt; nra); "
           "assert (Hit : / sqrt x * sqrt x = 1) by (apply Rinv_l; first [assumption | intro; lra]); "
           "set (t := sqrt x) in *; set (it := / t) in *; clearbody it; clearbody t end. "
           "list_eq ltac:(first [ring | nsatz]).")
    # forward matrix and Jacobian, generic branch
    ks.append(Kernel(
        "fwd_generic", {"r": [0.3, -0.5, 0.8]}, lambda r: r2m(r, True),
        """From Coq Require Import Nsatz.
Lemma {T}_ok : forall {vars} : R, {T}_path ROps {vars} ->
  {T} ROps {vars} = m3list (rodrigues_fwd ROps %s) ++ jac39_flat (rodrigues_fwd_jac ROps %s).
Proof. intros {vars} Hpath. unfold {T}_path in Hpath; rops. path_facts Hpath. unfold nfrac in *; rops.
  unfold rodrigues_fwd, rodrigues_fwd_jac, rod_theta, vnorm, vnorm2, vdot; rops; cbn [vx vy vz].
  rewrite (proj2 (Rltb_false _ _)) by (unfold rod_eps, nfrac; rops; lra).
  unfold {T}. cbv [%s]; rops. %s Qed.""" % (R3, R3, UNF, ALG),
        imports=imports))
    # forward matrix only (calculate_jacobian=False returns the same matrix)
    ks.append(Kernel(
        "fwd_matrix_only", {"r": [-1.5, 2.0, 0.25]}, lambda r: r2m(r),
        """From Coq Require Import Nsatz.
Lemma {T}_ok : forall {vars} : R, {T}_path ROps {vars} -> {T} ROps {vars} = m3list (rodrigues_fwd ROps %s).
Proof. intros {vars} Hpath. unfold {T}_path in Hpath; rops. path_facts Hpath. unfold nfrac in *; rops.
  unfold rodrigues_fwd, rod_theta, vnorm, vnorm2, vdot; rops; cbn [vx vy vz].
  rewrite (proj2 (Rltb_false _ _)) by (unfold rod_eps, nfrac; rops; lra).
  unfold {T}. cbv [%s]; rops. %s Qed.
(* property-level statement directly on the traced definition: the code's matrix is orthogonal with determinant 1 *)
Lemma {T}_proper : forall {vars} : R, {T}_path ROps {vars} ->
  exists M, {T} ROps {vars} = m3list M /\\ proper M.
Proof. intros {vars} Hpath. exists (rodrigues_fwd ROps %s). split; [apply {T}_ok, Hpath | apply fwd_proper]. Qed."""
        % (R3, UNF, ALG, R3),
        imports=imports))
    # theta < eps branch: identity and the literal Jacobian.  The code may write the six +-1 entries as Python/NumPy integers
    # or as floats (a constant table): `+ 0.0` makes every entry a traced expression either way, so the lemma does not
    # depend on that choice.
    ks.append(Kernel(
        "fwd_tiny", {"r": [0.0, 0.0, 0.0]}, lambda r: (lambda res: (res[0], res[1] + 0.0))(r2m(r, True)),
        """Lemma {T}_ok : forall {vars} : R, {T}_path ROps {vars} ->
  {T} ROps {vars} = m3list (rodrigues_fwd ROps %s) ++ jac39_flat (rodrigues_fwd_jac ROps %s) /\\
  jac39_flat (rodrigues_fwd_jac ROps %s) =
    [0;0;0;0;0;-1;0;1;0; 0;0;1;0;0;0;-1;0;0; 0;-1;0;1;0;0;0;0;0].
Proof. intros {vars} Hpath. unfold {T}_path in Hpath; rops. path_facts Hpath. unfold nfrac in *; rops.
  unfold rodrigues_fwd, rodrigues_fwd_jac, rod_theta, vnorm, vnorm2, vdot; rops; cbn [vx vy vz].
  rewrite (proj2 (Rltb_true _ _)) by (unfold rod_eps, nfrac; rops; lra).
  unfold {T}. cbv [%s]; rops. split; list_eq_ring. Qed.""" % (R3, R3, R3, UNF),
        imports=imports, perturb=1e-18,
        expect_structure={"tuple": [{"shape": [3, 3], "data": ["e"] * 9}, {"shape": [3, 9], "data": ["e"] * 27}]}))
    # inverse map after the svd step (LAPACK stubbed by the identity projection): generic branch, vector and Jacobian
    MV = " ".join("m%d" % i for i in range(9))
    M3 = "(M3 %s)" % MV
    inv_head = """Lemma {T}_ok : forall {vars} : R, {T}_path ROps {vars} ->
  {T} ROps {vars} =
  match rodrigues_inv ROps (fun m => m) %s with Some v => vlist v | None => [] end
  ++ concat (rodrigues_inv_jac ROps (fun m => m) %s).
Proof. intros {vars} Hpath. unfold {T}_path in Hpath; rops. path_facts Hpath. unfold nfrac in *; rops.
  unfold rodrigues_inv, rodrigues_inv_jac, rodrigues_inv_of_proj, rodrigues_inv_jac_of_proj, rod_inv_theta.
  assert (Hc : rod_inv_c ROps %s = (m0 + m4 + m8 - 1) * (1 / 2)).
  { unfold rod_inv_c. cbn [a00 a11 a22]. unfold rod_half, nfrac, n1 at 1; rops. apply nclip_id. lra. }
  assert (Hs : rod_inv_s ROps %s =
               sqrt ((m7 - m5) * (m7 - m5) + (m2 - m6) * (m2 - m6) + (m3 - m1) * (m3 - m1)) * (1 / 2)).
  { unfold rod_inv_s, rod_antisym, rod_half, nfrac, vnorm, vnorm2, vdot; rops;
    cbn [vx vy vz a00 a01 a02 a10 a11 a12 a20 a21 a22]. reflexivity. }
  rewrite Hc, Hs. change (nltb ROps) with Rltb.
""" % (M3, M3, M3, M3)
    imports_inv = imports + [("PW.proofs", "P_rodrigues_inv")]
    Rgen = _reference_r2m([0.3, -0.5, 0.8])
    ks.append(Kernel(
        "inv_generic", {"m": Rgen.tolist()}, lambda m: _svd_stub_call(m, True),
        inv_head + """  rewrite (proj2 (Rltb_false _ _)) by (unfold rod_small, nfrac; rops; lra).
  unfold {T}.
  cbv [rod_inv_jac_generic rod_antisym rod_half rod_m1 ldot lmatmul_cols lcols3 lcols4 lcols5 row_T33
       concat map map2 zip fst snd nsum fold_left app vlist vscale nfrac n0 n1 n2
       a00 a01 a02 a10 a11 a12 a20 a21 a22 vx vy vz]; rops.
  list_eq ltac:(first [ring | field; lra]). Qed.""",
        imports=imports_inv, perturb=1e-9))
    # s < 1e-5 and c > 0: zero vector and the literal Jacobian table
    ks.append(Kernel(
        "inv_identity", {"m": np.eye(3).tolist()}, lambda m: _svd_stub_call(m, True),
        inv_head + """  rewrite (proj2 (Rltb_true _ _)) by (unfold rod_small, nfrac; rops; lra).
  rewrite (proj2 (Rltb_true _ _)) by (unfold n0; rops; lra).
  unfold {T}.
  cbv [rod_inv_jac_identity rod_half concat app vlist vzero nfrac n0 n1 n2 vx vy vz]; rops.
  list_eq ltac:(first [ring | field; lra]). Qed.""",
        imports=imports_inv, perturb=0))
    # half-turn branch (s < 1e-5, c <= 0): axis from the diagonal and the three sign fix-ups, one scenario per pattern the
    # fix-ups distinguish.  The scenario matrices are symmetric (s = 0 exactly); the inexact ones have the diagonal shrunk
    # by 1% so that the clip of c does not sit on a rounding tie (the trace does not need a rotation, only the path).
    half_lemma = """(* comparisons are decided semantically (lra over the path facts), after |.| of terms of known sign has been normalised:
   whether the code takes np.abs before or after negating a component, or orders a conjunction differently, does not matter *)
Ltac norm_abs := rewrite ?Rabs_Ropp in *; repeat match goal with
  | |- context [Rabs (sqrt ?x)] => rewrite (Rabs_pos_eq (sqrt x) (sqrt_pos x)) in *
  | H : context [Rabs (sqrt ?x)] |- _ => rewrite (Rabs_pos_eq (sqrt x) (sqrt_pos x)) in *
  end.
Ltac decide_path := repeat (first
  [ match goal with |- context [Rltb ?a ?b] =>
      first [ rewrite (proj2 (Rltb_true a b)) by lra | rewrite (proj2 (Rltb_false a b)) by lra ] end
  | progress cbn [andb negb Bool.eqb]
  | progress norm_abs ]).

Lemma {T}_ok : forall {vars} : R, {T}_path ROps {vars} ->
  forall v, rodrigues_inv ROps (fun m => m) %s = Some v ->
  {T} ROps {vars} = vlist v ++ concat (rodrigues_inv_jac ROps (fun m => m) %s).
Proof. intros {vars} Hpath v. unfold {T}_path in Hpath; rops. path_facts Hpath. unfold nfrac in *; rops.
  unfold rodrigues_inv, rodrigues_inv_jac, rodrigues_inv_of_proj, rodrigues_inv_jac_of_proj, rod_inv_theta.
  assert (Hc : rod_inv_c ROps %s = (m0 + m4 + m8 - 1) * (1 / 2)).
  { unfold rod_inv_c. cbn [a00 a11 a22]. unfold rod_half, nfrac, n1 at 1; rops. apply nclip_id. lra. }
  assert (Hs : rod_inv_s ROps %s =
               sqrt ((m7 - m5) * (m7 - m5) + (m2 - m6) * (m2 - m6) + (m3 - m1) * (m3 - m1)) * (1 / 2)).
  { unfold rod_inv_s, rod_antisym, rod_half, nfrac, vnorm, vnorm2, vdot; rops;
    cbn [vx vy vz a00 a01 a02 a10 a11 a12 a20 a21 a22]. reflexivity. }
  rewrite Hc, Hs. change (nltb ROps) with Rltb. change (neqb ROps) with Reqb.
  rewrite (proj2 (Rltb_true _ _)) by (unfold rod_small, nfrac; rops; lra).
  rewrite (proj2 (Rltb_false _ _)) by (unfold n0; rops; lra).
  unfold rod_half_axis. cbn [a00 a01 a02 a10 a11 a12 a20 a21 a22].
  rewrite !diag_root_nonneg by assumption.
  change (nltb ROps) with Rltb. change (nabs ROps) with Rabs. change (nneg ROps) with Ropp. change (nmul ROps) with Rmult.
  change (nadd ROps) with Rplus. change (n0 ROps) with 0.
  norm_abs. decide_path.
  match goal with |- context [Reqb ?a ?b] => destruct (Reqb_spec a b) as [E|E] end; [discriminate|].
  intros Ev; injection Ev as <-.
  unfold {T}.
  cbv [zeros93 repeat concat map app vlist vscale vnorm vnorm2 vdot nfrac n0 n1 n2 vx vy vz]; rops.
  list_eq ltac:(first [ring | field; exact E]). Qed.""" % (M3, M3, M3, M3)

    def shrunk_half_turn(k):
        kk = np.array(k, dtype=float) / np.linalg.norm(k)
        R = 2 * np.outer(kk, kk) - np.eye(3)
        R = (R + R.T) / 2
        return (R - 0.01 * np.diag(np.diag(R))).tolist()

    half_scenarios = [
        ("half_no_flip", shrunk_half_turn([2, 1, 2])),                       # r01 > 0, r02 > 0, |rx| largest
        ("half_flip_y", shrunk_half_turn([2, -1, 2])),                       # r01 < 0: ry negated
        ("half_flip_z", shrunk_half_turn([2, 2, -1])),                       # r02 < 0: rz negated
        ("half_flip_yz_third_checked", shrunk_half_turn([1, -2, -2])),       # both negated, third test evaluated, quiet
        ("half_third_fires", [[-1., 0., 0.], [0., 0., -1.], [0., -1., 0.]]),  # kx = 0, r12 < 0: third fix-up negates rz
        ("half_third_quiet", [[-1., 0., 0.], [0., 0., 1.], [0., 1., 0.]]),    # kx = 0, r12 > 0: nothing to fix
    ]
    for name, Rm in half_scenarios:
        ks.append(Kernel(name, {"m": Rm}, lambda m: _svd_stub_call(m, True), half_lemma, imports=imports_inv, perturb=0))
    return ks


# ---------------------------------------------------------------------------------------------------------
# generators
# ---------------------------------------------------------------------------------------------------------
LATTICE = [(a, b, c) for a in (-1, 0, 1) for b in (-1, 0, 1) for c in (-1, 0, 1) if (a, b, c) != (0, 0, 0)]
MAGS = [1e-300, 1e-160, 1e-30, EPS / 2, EPS / 1.5, EPS * 1.5, EPS * 2, 1e-12, 1e-10, 1e-8, 3e-8, 1e-6, 1e-4, 1e-2, 0.1, 0.5, 1.0, 1.5,
        2.0, 2.5, 3.0, 3.1, math.pi - 1e-3, math.pi - 1e-6, math.pi + 1e-6, math.pi + 1e-3, 3.5, 4.0, 6.0, 2 * math.pi, 7.0,
        10.0, 31.4, 100.0, 700.0,
        np.pi, np.pi, 3 * np.pi, 5 * np.pi, 3 * np.pi - 1e-4, 3 * np.pi + 1e-5, 5 * np.pi - 1e-3, 7 * np.pi + 3e-4]
MAGS += [np.pi + sg * 2.0 ** -k for k in (10, 14, 20, 26, 32, 40, 46, 50) for sg in (1, -1)]


def _direction(rng):
    while True:
        d = [rng.randint(-4, 4) / 2 for _ in range(3)]
        if any(d):
            return d


def _scaled(d, mag):
    n = math.sqrt(sum(x * x for x in d))
    return [x / n * mag for x in d]


def _quat_matrix(a, b, c, d):
    """exact rotation matrix of the quaternion (a; b, c, d) (Fractions), rounded once to binary64"""
    n = a * a + b * b + c * c + d * d
    m = [[a * a + b * b - c * c - d * d, 2 * (b * c - a * d), 2 * (b * d + a * c)],
         [2 * (b * c + a * d), a * a - b * b + c * c - d * d, 2 * (c * d - a * b)],
         [2 * (b * d - a * c), 2 * (c * d + a * b), a * a - b * b - c * c + d * d]]
    return [[float(x / n) for x in row] for row in m]


def _half_turn(k):
    """2 k k^T / |k|^2 - I, exact then rounded"""
    k = [Fr(x) for x in k]
    n = sum(x * x for x in k)
    return [[float(2 * k[i] * k[j] / n - (1 if i == j else 0)) for j in range(3)] for i in range(3)]


def _reference_r2m(r):
    """the Rodrigues formula in plain numpy -- generators and kernel scenarios must not depend on the implementation's output"""
    r = np.array(r, dtype=np.double).reshape(3)
    theta = float(np.linalg.norm(r))
    if theta == 0.0:
        return np.eye(3)
    k = r / theta
    K = np.array([[0.0, -k[2], k[1]], [k[2], 0.0, -k[0]], [-k[1], k[0], 0.0]])
    return math.cos(theta) * np.eye(3) + (1.0 - math.cos(theta)) * np.outer(k, k) + math.sin(theta) * K


def _proj(R):
    """u @ v of numpy's svd, or None when the matrix is not finite / LAPACK does not converge (never raises)"""
    R = np.array(R, dtype=np.double)
    if R.shape != (3, 3) or not np.all(np.isfinite(R)):
        return None
    try:
        u, _, v = np.linalg.svd(R)
    except np.linalg.LinAlgError:
        return None
    return np.dot(u, v)


def _s_of(P):
    w = np.array([P[2, 1] - P[1, 2], P[0, 2] - P[2, 0], P[1, 0] - P[0, 1]])
    return float(np.linalg.norm(w) * 0.5)


BAND = 1e-6  # relative half-width of the undecidable band around s = 1e-5 (float and exact s agree to ~1e-11 relative)


def _in_band(s):
    return SMALL * (1 - BAND) < s < SMALL * (1 + BAND)


def _threshold_safe(R):
    """the s < 1e-5 decision must not sit on rounding: keep s away from the threshold"""
    P = _proj(R)
    if P is None:
        return False
    s = _s_of(P)
    return not _in_band(s)


def _overshoot_halfturn(rng):
    """a half-turn whose axis has a tiny component and whose svd projection has a diagonal entry below -1
    (the input class on which the unrepaired code takes sqrt of a negative number)"""
    for _ in range(4000):
        k = [rng.gauss(0, 1) for _ in range(3)]
        k[rng.randrange(3)] = 10.0 ** rng.uniform(-18, -7) * rng.choice([1, -1])
        kk = np.array(k) / np.linalg.norm(k)
        R = 2 * np.outer(kk, kk) - np.eye(3)
        P = _proj(R)
        if P is not None and min(P[0, 0], P[1, 1], P[2, 2]) < -1.0:
            return R.tolist()
    return None


def gen_cases(rng, n, tier):
    cases = []
    lat = 0
    for i, r in enumerate(([0.0, 0.0, np.pi], [np.pi, 0.0, 0.0], [0.0, -np.pi, 0.0], _scaled([1.0, 1.0, 1.0], np.pi),
                           [0.0, 0.0, 3 * np.pi], _scaled([1.0, -2.0, 2.0], np.pi - 2.0 ** -20),
                           [-(np.pi - 5e-6), 0.0, 0.0])):  # the last one: known finding halfturn_zone_axis_flip, every run
        cases.append({"kind": "fwd_pi", "fn": ["cv2", "r2m"][i % 2], "shape": [[3], [3, 1], [1, 3]][i % 3],
                      "data": [float(x) for x in r], "jac": True})
    for ax, off in (([1e-3, 2e-3, 1.0], 9e-6), ([2e-3, 1e-3, 1.0], 5e-6), ([1.0, -1e-3, 3e-3], 7e-6), ([3e-4, -1.0, 1e-3], 2e-6)):
        R = _reference_r2m(_scaled(ax, math.pi - off))
        cases.append({"kind": "inv_halfturn_two_small", "fn": "m2r", "shape": [3, 3], "data": R.reshape(-1).tolist(),
                      "jac": False, "angle": math.pi - off})
    while len(cases) < n:
        u = rng.random()
        jac = rng.random() < 0.5
        if u < 0.36:
            d = _direction(rng)
            mag = rng.choice(MAGS) if rng.random() < 0.6 else rng.choice([rng.uniform(0.01, 3.1), rng.uniform(3.2, 12), 10 ** rng.uniform(-9, 0)])
            if tier == "thorough" and rng.random() < 0.1:
                mag = rng.uniform(100, 2000)
            r = _scaled(d, mag)
            shape = rng.choice([[3], [3, 1], [1, 3]])
            cases.append({"kind": "fwd", "fn": rng.choice(["cv2", "r2m"]), "shape": shape, "data": r, "jac": jac})
        elif u < 0.40:
            cases.append({"kind": "fwd_zero", "fn": rng.choice(["cv2", "r2m"]), "shape": rng.choice([[3], [3, 1], [1, 3]]),
                          "data": [0.0, 0.0, 0.0], "jac": jac})
        elif u < 0.58:
            qs = [Fr(rng.randint(-6, 6), rng.randint(1, 4)) for _ in range(4)]
            if not any(qs):
                continue
            if rng.random() < 0.15:
                qs[0] = Fr(rng.choice([1, -1, 2, 3]), 10 ** rng.randint(3, 7))  # near a half-turn
            if rng.random() < 0.15:
                qs[0] = Fr(rng.choice([1, -1]) * 10 ** rng.randint(3, 7))  # near the identity
            R = _quat_matrix(*qs)
            if not _threshold_safe(R):
                continue
            cases.append({"kind": "inv_quat", "fn": rng.choice(["cv2", "m2r"]), "shape": [3, 3],
                          "data": [x for row in R for x in row], "jac": jac})
        elif u < 0.70:
            # matrices produced by the forward map, at angles 1e-9 .. 1e-5 from 0 and pi and in between
            d = _direction(rng)
            off = 10 ** rng.uniform(-9, -4.5)
            mag = rng.choice([off, math.pi - off, rng.uniform(0.01, 3.13), rng.uniform(3.0, 3.1415)])
            R = _reference_r2m(_scaled(d, mag))
            if not _threshold_safe(R):
                continue
            cases.append({"kind": "inv_of_fwd", "fn": rng.choice(["cv2", "m2r"]), "shape": [3, 3],
                          "data": R.reshape(-1).tolist(), "jac": jac, "angle": mag})
        elif u < 0.80:
            if lat < len(LATTICE) or rng.random() < 0.5:
                k = LATTICE[lat % len(LATTICE)]
                lat += 1
                kind = "inv_halfturn_lattice"
            else:
                k = [rng.randint(-5, 5) for _ in range(3)]
                if not any(k):
                    continue
                kind = "inv_halfturn_rational"
            R = _half_turn(k)
            cases.append({"kind": kind, "fn": rng.choice(["cv2", "m2r"]), "shape": [3, 3],
                          "data": [x for row in R for x in row], "jac": jac})
        elif u < 0.835:
            R = _overshoot_halfturn(rng)
            if R is None:
                continue
            cases.append({"kind": "inv_halfturn_tiny_component", "fn": rng.choice(["cv2", "m2r"]), "shape": [3, 3],
                          "data": [x for row in R for x in row], "jac": jac})
        elif u < 0.845:
            # near a half-turn with TWO small axis components: the skew part s*k_l outweighs (1-c) k_i k_j in r[i,j]; the sign
            # fix-ups must look at the symmetric part (/repo commit 1246e74)
            ax = [rng.choice([1, -1]) * 10 ** rng.uniform(-4, -2.5), rng.choice([1, -1]) * 10 ** rng.uniform(-4, -2.5), rng.choice([1.0, -1.0])]
            sh = rng.randrange(3)
            ax = ax[sh:] + ax[:sh]
            ang = math.pi - 10 ** rng.uniform(-6, -5.005)
            R = _reference_r2m(_scaled(ax, ang))
            if not _threshold_safe(R):
                continue
            cases.append({"kind": "inv_halfturn_two_small", "fn": rng.choice(["cv2", "m2r"]), "shape": [3, 3],
                          "data": R.reshape(-1).tolist(), "jac": jac, "angle": ang})
        elif u < 0.875:
            # next to the branch switch s = 1e-5, on both sides, near 0 and near pi: judged by the 2.5e-5 clause / the amplified one
            f = rng.choice([0.9, 0.99, 0.999, 0.9999, 0.99999, 1.00001, 1.0001, 1.001, 1.01, 1.1])
            ang = math.asin(SMALL * f)
            if rng.random() < 0.5:
                ang = math.pi - ang
            R = _reference_r2m(_scaled(_direction(rng), ang))
            if not _threshold_safe(R):
                continue
            cases.append({"kind": "inv_threshold", "fn": rng.choice(["cv2", "m2r"]), "shape": [3, 3],
                          "data": R.reshape(-1).tolist(), "jac": jac, "angle": ang})
        elif u < 0.885:
            cases.append({"kind": "inv_identity", "fn": rng.choice(["cv2", "m2r"]), "shape": [3, 3],
                          "data": [1.0, 0.0, 0.0, 0.0, 1.0, 0.0, 0.0, 0.0, 1.0], "jac": jac})
        else:
            fn = rng.choice(["cv2", "cv2", "r2m", "m2r"])
            shape = rng.choice([[2], [4], [2, 2], [9], [1, 9], [3, 2], [3, 3, 1], [1, 3, 3], [0], [], [1], [4, 4], [6], [2, 3]]
                               + ([[3, 3]] if fn == "r2m" else []) + ([[3], [3, 1], [1, 3]] if fn == "m2r" else []))
            size = 1
            for s in shape:
                size *= s
            cases.append({"kind": "bad_shape", "fn": fn, "shape": shape, "data": [rng.randint(-4, 4) / 2 for _ in range(size)],
                          "jac": jac})
    # a few inverse cases evaluate Qacos itself (3 s each)
    inv = [c for c in cases if c["kind"].startswith("inv_") and c["kind"] != "inv_identity"]
    for c in inv[:: max(1, len(inv) // (6 if tier == "quick" else 24))]:
        c["real_acos"] = True
    return cases


# ---------------------------------------------------------------------------------------------------------
def _fn(name):
    import polliwog.transform as T
    return {"cv2": T.cv2_rodrigues, "r2m": T.rodrigues_vector_to_rotation_matrix, "m2r": T.rotation_matrix_to_rodrigues_vector}[name]


def _pack(res, jac):
    if jac:
        val, j = res
        j = np.asarray(j)
        return {"shape": list(np.shape(val)), "vals": np.asarray(val, dtype=float).reshape(-1).tolist(),
                "jshape": list(j.shape), "jvals": j.astype(float).reshape(-1).tolist()}
    return {"shape": list(np.shape(res)), "vals": np.asarray(res, dtype=float).reshape(-1).tolist(), "jshape": [], "jvals": []}


def run_impl(c):
    import polliwog.transform as T

    def go():
        arr = np.array(c["data"], dtype=np.double).reshape(c["shape"])
        before = arr.copy()
        with np.errstate(all="ignore"):
            o = _pack(_fn(c["fn"])(arr, c["jac"]), c["jac"])
            o["args_unchanged"] = bool(np.array_equal(before, arr))
            if c["shape"] == [3, 3]:
                P = _proj(arr)
                if P is None:  # cannot happen for the finite inputs generated here; never let LAPACK abort the harness
                    P = np.full((3, 3), np.nan)
                o["P"] = P.reshape(-1).tolist()
                v = np.array(o["vals"])
                o["t"] = float(np.linalg.norm(v)) if np.all(np.isfinite(v)) else 0.0
                if np.all(np.isfinite(v)):
                    back = T.rodrigues_vector_to_rotation_matrix(v.reshape(3, 1), True)
                    o["back"] = back[0].reshape(-1).tolist()
                    o["back_jac"] = back[1].reshape(-1).tolist()
            elif len(c["data"]) == 3:
                # round trip and finite differences for the oracle
                r = np.array(c["data"], dtype=np.double)
                if np.all(np.isfinite(o["vals"])):
                    try:
                        rb = T.rotation_matrix_to_rodrigues_vector(np.array(o["vals"]).reshape(3, 3))
                        o["back"] = np.asarray(rb, dtype=float).reshape(-1).tolist()
                        o["back_shape"] = list(np.shape(rb))
                    except Exception as e:  # noqa: the round trip is extra evidence; the forward result itself is judged
                        o["back"], o["back_shape"], o["back_error"] = None, None, type(e).__name__
                else:
                    o["back"], o["back_shape"] = None, None
                if c["jac"]:
                    h = 1e-6 * max(1.0, float(np.linalg.norm(r)))
                    fd = []
                    for i in range(3):
                        e = np.zeros(3)
                        e[i] = h
                        fd.append(((T.rodrigues_vector_to_rotation_matrix(r + e) - T.rodrigues_vector_to_rotation_matrix(r - e)) / (2 * h)).reshape(-1).tolist())
                    o["fd"] = fd
                    o["fd_h"] = h
                # the other entry point and the flag must not change the matrix
                o["plain"] = np.asarray(T.rodrigues_vector_to_rotation_matrix(arr)).reshape(-1).tolist()
                o["via_cv2"] = np.asarray(T.cv2_rodrigues(arr)).reshape(-1).tolist()
            # results must be fresh arrays: overwrite everything a call returned, then ask again
            res = _fn(c["fn"])(before.copy(), c["jac"])
            for a in (res if c["jac"] else (res,)):
                if isinstance(a, np.ndarray) and a.flags.writeable:
                    a[...] = 7.0
            again = _pack(_fn(c["fn"])(before.copy(), c["jac"]), c["jac"])
            o["fresh"] = bool(np.array_equal(np.array(again["vals"]), np.array(o["vals"]), equal_nan=True)
                              and np.array_equal(np.array(again["jvals"]), np.array(o["jvals"]), equal_nan=True))
        return o

    return call_impl(go)


def coq_case(c, o):
    fn = {"cv2": "FCv2", "r2m": "FR2M", "m2r": "FM2R"}[c["fn"]]
    shape = coq_list(coq_nat(s) for s in c["shape"])
    data = coq_list(q(x) for x in c["data"])
    P = "(I3 QF)"
    t = "0"
    if isinstance(o, dict) and "raise" in o:
        obs = "(Raise %s)" % (o["raise"] if o["raise"] != "OtherError" else "OtherError")
    else:
        if "P" in o:
            P = "(M3 %s)" % " ".join(q(x) for x in o["P"])
            t = q(o["t"])
        obs = "(Ok (OArr %s %s %s %s))" % (coq_list(coq_nat(s) for s in o["shape"]), flv(o["vals"]),
                                           coq_list(coq_nat(s) for s in o["jshape"]), flv(o["jvals"]))
    return "CCall %s %s %s %s %s %s %s %s" % (fn, shape, data, coq_bool(c["jac"]), P, t, coq_bool(c.get("real_acos", False)), obs)


# ---------------------------------------------------------------------------------------------------------
# oracle: the property text on the implementation's own outputs
# ---------------------------------------------------------------------------------------------------------
def _mat(v):
    return np.array(v, dtype=np.double).reshape(3, 3)


def _proper_err(R):
    return max(float(np.abs(R.T @ R - np.eye(3)).max()), abs(float(np.linalg.det(R)) - 1.0))


def oracle(c, o):
    size = 1
    for s in c["shape"]:
        size *= s
    accepts_vec = size == 3 and c["fn"] in ("cv2", "r2m")
    accepts_mat = c["shape"] == [3, 3] and c["fn"] in ("cv2", "m2r")
    if isinstance(o, dict) and "raise" in o:
        if accepts_vec or accepts_mat:
            return "unexpected exception %s: %s" % (o["raise"], o.get("msg"))
        if o["raise"] != "ValueError":
            return "shape %r is rejected with %s, not ValueError" % (c["shape"], o["raise"])
        return None
    if not (accepts_vec or accepts_mat):
        return "shape %r was accepted by %s (ValueError demanded)" % (c["shape"], c["fn"])
    if o.get("fresh") is False:
        return "a later call returns a different result after the caller overwrote an earlier result in place (results share state)"
    if not o["args_unchanged"]:
        return "argument array was modified"
    if accepts_vec:
        r = np.array(c["data"], dtype=np.double)
        theta = float(np.linalg.norm(r))
        if o["shape"] != [3, 3]:
            return "forward result has shape %r" % (o["shape"],)
        R = _mat(o["vals"])
        if not np.all(np.isfinite(R)):
            return "forward matrix is not finite"
        if _proper_err(R) > 1e-9:
            return "forward matrix is not a proper rotation (defect %.3g)" % _proper_err(R)
        if o["plain"] != o["vals"] or o["via_cv2"] != o["vals"]:
            return "matrix depends on calculate_jacobian / entry point"
        if not any(c["data"]):
            if not np.array_equal(R, np.eye(3)):
                return "r = 0 does not give the identity"
        if theta > 0:
            k = r / theta
            if float(np.abs(R @ k - k).max()) > 1e-9:
                return "axis r/|r| is not fixed"
            # a vector perpendicular to the axis turns by |r|, right-handed (cos/sin of the binary64 angle; error ~ ulp(theta))
            a = np.cross(k, [1.0, 0, 0]) if abs(k[0]) < 0.9 else np.cross(k, [0, 1.0, 0])
            a = a / np.linalg.norm(a)
            want = math.cos(theta) * a + math.sin(theta) * np.cross(k, a)
            tolr = 1e-9 + 1e-15 * theta
            if float(np.abs(R @ a - want).max()) > tolr:
                return "perpendicular vector is not turned by |r| right-handedly (error %.3g)" % float(np.abs(R @ a - want).max())
        if c["jac"]:
            if o["jshape"] != [3, 9]:
                return "forward Jacobian has shape %r" % (o["jshape"],)
            J = np.array(o["jvals"], dtype=float).reshape(3, 9)
            if not np.all(np.isfinite(J)):
                return "forward Jacobian is not finite"
            fd = np.array(o["fd"], dtype=float)
            if not np.all(np.isfinite(fd)):
                return "forward matrix is not finite next to r (central differences)"
            # measured (20000 vectors, theta 1e-17 .. 2000): central differences differ from the code's Jacobian by at most
            # 2.3e-10 * max(1, theta)^1.5 plus the code's own cancellation error 0.5 * min(theta, 1e-16/theta); allowed: 10 x
            cancel = min(theta, 1e-16 / theta) if theta >= EPS else 0.0
            tolj = 2.5e-9 * max(1.0, theta) ** 1.5 + 15 * cancel
            if float(np.abs(J - fd).max()) > tolj:
                return "forward Jacobian differs from central differences by %.3g" % float(np.abs(J - fd).max())
        # vector -> matrix -> vector is the identity for |r| < pi
        if o["back"] is None:
            return "the matrix returned for r is rejected by rotation_matrix_to_rodrigues_vector (%s)" % o.get("back_error")
        if o["back_shape"] != [3, 1]:
            return "inverse result has shape %r" % (o["back_shape"],)
        rb = np.array(o["back"])
        if not np.all(np.isfinite(rb)):
            return "round trip through the matrix gives a non-finite vector"
        if theta < math.pi - 1e-9:
            s = abs(math.sin(theta))
            near = s < SMALL * (1 + BAND)   # the snapping zones (and the undecidable band next to them)
            tol = 2.5e-5 if near else 2e-14 / s + 1e-13  # measured <= 16 * (1e-16/s + 1e-16); 10 x
            err = float(np.abs(rb - r).max())
            if err > tol:
                # known finding halfturn_zone_axis_flip (C10_inv_of_fwd_halfturn_zone_refuted): next to pi the returned axis has a
                # non-negative first component, so about -r comes back; accepted ONLY in that zone and only as that finding
                if near and theta > 1 and float(np.abs(rb + r).max()) <= tol:
                    return "HALFTURN-FLIP vector -> matrix -> vector returns about -r next to pi (|rb + r| = %.3g)" % float(np.abs(rb + r).max())
                return "vector -> matrix -> vector is not the identity for |r| < pi (error %.3g)" % err
        return None
    # inverse
    Rin = _mat(c["data"])
    if _proper_err(Rin) > 1e-9:
        return None  # not a rotation: outside the property
    if o["shape"] != [3, 1]:
        return "inverse result has shape %r, not (3, 1)" % (o["shape"],)
    v = np.array(o["vals"])
    if not np.all(np.isfinite(v)):
        return "rotation matrix is converted to a non-finite vector %r" % (o["vals"],)
    t = float(np.linalg.norm(v))
    if t > math.pi * (1 + 1e-12):
        return "returned vector is longer than pi (%.17g)" % t
    s = _s_of(np.array(o["P"]).reshape(3, 3))
    ang = math.acos(max(-1.0, min(1.0, (np.trace(Rin) - 1) / 2)))
    near = s < SMALL * (1 + BAND)   # snapping zones: the property allows 2.5e-5; else rounding amplified by 1/sin (10 x measured)
    tol = 2.5e-5 if near else 2e-14 / s + 1e-13  # measured <= 16 * (1e-16/s + 1e-16); 10 x
    err = float(np.abs(_mat(o["back"]) - Rin).max())
    if err > tol:
        return "returned vector does not map back to the matrix (error %.3g, angle %.17g)" % (err, ang)
    if c["jac"]:
        if o["jshape"] != [9, 3]:
            return "inverse Jacobian has shape %r" % (o["jshape"],)
        Ji = np.array(o["jvals"], dtype=float).reshape(9, 3)
        if not np.all(np.isfinite(Ji)):
            return "inverse Jacobian is not finite"
        Jf = np.array(o["back_jac"]).reshape(3, 9)
        cerr = float(np.abs(Jf @ Ji - np.eye(3)).max())
        if _in_band(s):
            pass  # which branch the code takes is a rounding-level decision here; both are judged above by 2.5e-5
        elif s >= SMALL:
            # measured (4000 rotations, s 1e-5 .. 1): error <= 10.2 * (1e-16 / s^3 + 1e-15); allowed: 10 x
            # next to 0 (c > 0) the need is ~4e-16/s^2 (second audit's measurement); next to pi it is 1e-16/s^3 (see ASSUMPTIONS)
            if cerr > (1e-14 / s ** 2 if ang < math.pi / 2 else 1e-14 / s ** 3) + 1e-13:
                return "inverse Jacobian composed with forward Jacobian is not the identity (error %.3g, s %.3g)" % (cerr, s)
        elif ang < 1:
            if cerr > 1e-12:   # zero zone: the literal table times the generators is exactly I
                return "inverse Jacobian composed with forward Jacobian is not the identity in the zero branch (error %.3g)" % cerr
        elif cerr > 1e-3:
            return "HALFTURN-JAC inverse Jacobian composed with forward Jacobian is not the identity in the half-turn branch"
    return None


def classify(c, o, failure, disagrees):
    if disagrees or not failure:
        return None  # a model/implementation disagreement is never a known finding
    if failure.startswith("HALFTURN-JAC") and c["jac"] and c["shape"] == [3, 3] and c["fn"] in ("cv2", "m2r"):
        return "halfturn_jacobian_zero"
    if failure.startswith("HALFTURN-FLIP") and len(c["data"]) == 3 and c["fn"] in ("cv2", "r2m"):
        theta = float(np.linalg.norm(np.array(c["data"], dtype=np.double)))
        if 1 < theta < math.pi and abs(math.sin(theta)) < SMALL * (1 + BAND):
            return "halfturn_zone_axis_flip"
    return None

# added with seeded rounds 6-7 (DESIGN 8.6)
RULE = RULE + '; every case overwrites the arrays a call returned and repeats the call (results must not share state)'
