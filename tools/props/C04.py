"""C04 — CoordinateManager converts points consistently between any two tagged frames."""
from fractions import Fraction as Fr

import numpy as np

from common import call_impl, coq_list, flv, grid_vec, qv
from props import C03 as _c03
from props import C11 as _c11

ID = "C04"
N_CASES = {"quick": 160, "thorough": 1200, "search": 1000}
SHARD = 20
RULE = ("seeded scripts of 0-12 calls interleaving tag_as (5 names, repeats = re-tagging, several tags at one "
        "position), every transform-appending method (incl. rejected calls), attribute assignment, attribute reads and "
        "do_transform over all known/unknown tag pairs, reads before any assignment; non-trivial = at least one read "
        "returned points; distinct by hash")
TRUSTED = _c03.TRUSTED
CASE_IMPORTS = [("PW.model", "M_rodrigues"), ("PW.model", "M_affine"), ("PW.model", "M_rotation"),
                ("PW.model", "M_composite"), ("PW.model", "M_coordmgr"), ("PW.corr", "K_C03")]
ASSUMPTIONS = _c03.ASSUMPTIONS + [
    "known finding tag_shadows_attribute: a tag named like an attribute of the class is converted by do_transform but not by "
    "an attribute read (model: attr_shadowed; theorem C04_attribute_read_shadowed_refuted); generated as a probe in every run",
    "assigned points are kx3 arrays; the (-1,3) shape check of __setattr__ belongs to C20"]
EXTRA_TARGETS = ["corr/K_C03.vo"]

DEFINITIONAL = ["C04_unknown_tag_errors", "C04_tag_as_records_length",
                "C04_retag_moves_only_that_tag"]
BASE_RULE = RULE
_STATS = {}


def _count(key):
    """what was actually reached in this run (read kinds, refusals, methods); appended to RULE for the evidence"""
    global RULE
    _STATS[key] = _STATS.get(key, 0) + 1
    RULE = BASE_RULE + " | reached in this run: " + ", ".join("%s=%d" % kv for kv in sorted(_STATS.items()))


# attributes of the class: a tag with such a name is never converted on an attribute read (known finding)
def class_attributes():
    """(attribute names of a CoordinateManager, name of the instance attribute that holds the assigned array), read from
    the code on every run and passed into the Coq cases: the model and its theorems are parametric in both, so private
    helpers may come and go.  Only the public names flip / translate / tag_as / do_transform are relied upon."""
    from polliwog.transform._coordinate_manager import CoordinateManager
    cm = CoordinateManager()
    attrs = sorted(dir(cm))
    cm.tag_as("t")
    probe = np.zeros((1, 3))
    cm.t = probe
    holders = [k for k, v in vars(cm).items() if v is probe]
    return attrs, (holders[0] if holders else "")


# probes: public method names, inherited dunder names, and the instance attributes named in the property's anchors
SHADOW_TAGS = ["flip", "translate", "do_transform", "tag_as", "__doc__", "__eq__", "_points", "_points_tag", "_transform"]
TAGS = ["a", "b", "c", "d", "src"]
UNKNOWN = ["zz", "nope"]


def _imports():
    return [("PW.model", "M_rodrigues"), ("PW.model", "M_affine"), ("PW.model", "M_rotation"),
            ("PW.model", "M_composite"), ("PW.model", "M_coordmgr")]


def kernels():
    """a symbolic script: the real CoordinateManager driven with symbolic translations / scale / points"""
    from common import Kernel
    from polliwog.transform._coordinate_manager import CoordinateManager

    def script(t, s, u, p):
        cm = CoordinateManager()
        cm.tag_as("a")
        cm.translate(t)
        cm.uniform_scale(s[0])
        cm.tag_as("b")
        cm.tag_as("b2")
        cm.translate(u)
        cm.tag_as("c")
        cm.a = p
        r1, r2, r3, r4 = cm.b, cm.c, cm.a, cm.b2
        cm.c = p
        r5, r6 = cm.a, cm.b
        r7 = cm.do_transform(p, "b", "c")
        return _c11._full((r1, r2, r3, r4, r5, r6, r7), t)

    def S(x):
        return '"%s"%%string' % x

    _attrs, _pa = class_attributes()

    SCRIPT = ("[CTagAs %s; CTransform (OTranslate (V3 t0 t1 t2)); CTransform (OUniformScale s0 false); CTagAs %s; CTagAs %s; "
              "CTransform (OTranslate (V3 u0 u1 u2)); CTagAs %s; CSetAttr %s P; CGetAttr %s; CGetAttr %s; CGetAttr %s; "
              "CGetAttr %s; CSetAttr %s P; CGetAttr %s; CGetAttr %s; CDoTransform P %s %s]"
              % tuple(S(x) for x in ("a", "b", "b2", "c", "a", "b", "c", "a", "b2", "c", "a", "b", "b", "c")))
    lemma = """From Coq Require Import String.
Definition outs (l : list (result (cm_out R))) : list R :=
  flat_map (fun r => match r with Ok (OutPoints ps) => flat_map (fun v => [vx v; vy v; vz v]) ps | _ => [] end) l.
Lemma {T}_ok : forall {vars} : R, {T}_path ROps {vars} ->
  let P := [V3 p0 p1 p2; V3 p3 p4 p5] in
  outs (snd (cm_run ROps ATTRS PTSATTR SCRIPT (cm_init (F:=R)))) = {T} ROps {vars}.
Proof. intros {vars} Hpath. unfold {T}_path in Hpath; rops. path_facts Hpath.
  cbv [cm_run cm_step cm_init step op_pair rmap cm_tr cm_tags cm_points fst snd].
  unfold tm_uniform_scale, tm_non_uniform_scale, n0, n1; rops.
  repeat match goal with |- context [Reqb ?a ?b] => destruct (Reqb_spec a b) as [?E|?E]; [exfalso; first [contradiction | lra]|] end.
  cbn [orb negb andb].
  repeat match goal with |- context [Rltb ?a ?b] => destruct (Rltb_spec a b) as [?E|?E]; [exfalso; lra|] end.
  unfold {T}. UNF.
  list_eq ltac:(first [ring | (field; repeat split; first [assumption | lra])]). Qed.""".replace("SCRIPT", SCRIPT).replace("UNF", _c03.UNF).replace("PTSATTR", S(_pa)).replace("ATTRS", coq_list(S(a) for a in _attrs))
    return [Kernel("cm_script", {"t": [0.5, -1.0, 3.0], "s": [2.0], "u": [1.0, 0.25, -2.0],
                                 "p": [[1.0, 2.0, -0.5], [0.5, 0.25, 4.0]]}, script, lemma, imports=_imports())]


def _pts(rng):
    if rng.random() < 0.2:  # integer-valued coordinates; run_impl passes these as an int64 array
        return [[float(rng.randint(-9, 9)) for _ in range(3)] for _ in range(rng.randint(1, 3))]
    sc = 2.0 ** rng.randint(-3, 3)
    return [[x * sc for x in grid_vec(rng)] for _ in range(rng.randint(0, 3))]


def _arr(points):
    """integer-valued point lists become int64 arrays (same values, integer dtype)"""
    a = np.array(points, dtype=np.float64).reshape(-1, 3)
    if a.size and np.all(a == np.round(a)) and np.all(np.abs(a) <= 9):
        return a.astype(np.int64)
    return a


def _rand_call(rng, tier, heavy):
    u = rng.random()
    if u < 0.3:
        o = _c03._gen_op(rng, tier, wild=False)
        if o["op"] in ("rotate_rodrigues", "reorient"):
            heavy[0] += 1
            if heavy[0] > 2:
                o = {"op": "translate", "t": grid_vec(rng)}
        return {"c": "transform", "o": o}
    if u < 0.55:
        return {"c": "tag_as", "name": rng.choice(TAGS)}
    if u < 0.68:
        return {"c": "set", "name": rng.choice(TAGS + UNKNOWN[:1]), "points": _pts(rng)}
    if u < 0.84:
        return {"c": "get", "name": rng.choice(TAGS + UNKNOWN[:1])}
    return {"c": "do_transform", "points": _pts(rng), "from": rng.choice(TAGS + UNKNOWN), "to": rng.choice(TAGS + UNKNOWN)}


def _good_transform(rng, tier, heavy):
    """a transform-appending call that is accepted (so that tags end up at different positions)"""
    while True:
        o = _c03._gen_op(rng, tier, wild=False)
        if _c03.expected_outcome(o, 1.0)[0] != "ok":
            continue
        if o["op"] in ("rotate_rodrigues", "reorient"):
            heavy[0] += 1
            if heavy[0] > 2:
                continue
        return {"c": "transform", "o": o}


def _reads(rng, known, k):
    out = []
    for _ in range(k):
        if rng.random() < 0.5:
            out.append({"c": "get", "name": rng.choice(known)})
        else:
            out.append({"c": "do_transform", "points": _pts(rng) or [grid_vec(rng)], "from": rng.choice(known),
                        "to": rng.choice(known)})
    return out


def gen_cases(rng, n, tier):
    cases = []
    for _ in range(n):
        heavy = [0]
        if rng.random() < 0.7:
            # structured: tags at increasing positions (sometimes two names at one position, sometimes a re-tag),
            # points assigned at one tag, read at every kind of other tag: later, earlier, same position
            ops, known = [], []
            names = TAGS[:]
            rng.shuffle(names)
            shadow = None
            if rng.random() < 0.12:  # probe: a tag named like an attribute of the class
                shadow = rng.choice(SHADOW_TAGS)
                names[rng.randrange(2)] = shadow
            for seg in range(rng.randint(2, 4)):
                nm = names[seg]
                ops.append({"c": "tag_as", "name": nm})
                known.append(nm)
                if rng.random() < 0.2 and len(known) < len(names):
                    nm2 = names[-1]
                    ops.append({"c": "tag_as", "name": nm2})
                    if nm2 not in known:
                        known.append(nm2)
                for _ in range(rng.choice([1, 1, 2, 3])):
                    ops.append(_good_transform(rng, tier, heavy))
                if rng.random() < 0.15:
                    ops.append(_rand_call(rng, tier, heavy))
            last = names[4] if names[4] not in known else names[3]
            ops.append({"c": "tag_as", "name": last})
            if last not in known:
                known.append(last)
            if shadow is not None and rng.random() < 0.5:
                ops.append({"c": "get", "name": shadow})  # before any assignment
            ops.append({"c": "set", "name": rng.choice(known), "points": _pts(rng) or [grid_vec(rng)]})
            if shadow is not None:
                # attribute reads of the shadowed tag from wherever the points are (forward / backward / same position)
                ops.append({"c": "get", "name": shadow})
                ops.append({"c": "set", "name": shadow, "points": _pts(rng) or [grid_vec(rng)]})
                ops.append({"c": "get", "name": shadow})
                ops.append({"c": "set", "name": rng.choice(known), "points": _pts(rng) or [grid_vec(rng)]})
                ops.append({"c": "get", "name": shadow})
            ops += _reads(rng, known, rng.randint(2, 4))
            if rng.random() < 0.5:
                # keep going: more transforms / a re-tag must not disturb the other conversions
                ops.append(_good_transform(rng, tier, heavy))
                if rng.random() < 0.5:
                    ops.append({"c": "tag_as", "name": rng.choice(known)})
                ops += _reads(rng, known, rng.randint(1, 3))
            cases.append({"kind": "structured", "ops": ops})
            continue
        k = rng.choice([0, 2, 3, 4, 5, 6, 7, 8, 9, 10, 12])
        ops = [_rand_call(rng, tier, heavy) for _ in range(k)]
        kind = "empty" if not ops else ("random_short" if k <= 4 else ("random_medium" if k <= 8 else "random_long"))
        cases.append({"kind": kind, "ops": ops})
    return cases


def run_impl(c):
    from polliwog.transform._coordinate_manager import CoordinateManager

    def go():
        import ounce
        attrs, pts_attr = class_attributes()
        cm = CoordinateManager()
        results, factors, lens = [], [], []
        for op in c["ops"]:
            lens.append(len(cm._transform.transforms))
            factors.append(None)

            def one():
                k = op["c"]
                if k == "transform":
                    return _c03.apply_op(cm, op["o"])
                if k == "tag_as":
                    return cm.tag_as(op["name"])
                if k == "set":
                    return setattr(cm, op["name"], _arr(op["points"]))
                if k == "get":
                    return getattr(cm, op["name"])
                return cm.do_transform(_arr(op["points"]), op["from"], op["to"])

            if op["c"] == "transform" and op["o"]["op"] == "convert_units":
                factors[-1] = float(ounce.factor(op["o"]["from"], op["o"]["to"]))
            # for the evidence: what kind of read / call this is
            tg = cm.__dict__["_tags_to_indices"]
            retag = op["c"] == "tag_as" and op["name"] in tg
            if op["c"] in ("get", "do_transform"):
                a_, b_ = (cm.__dict__["_points_tag"], op["name"]) if op["c"] == "get" else (op["from"], op["to"])
                if a_ in tg and b_ in tg:
                    rk = "forward" if tg[a_] < tg[b_] else ("backward" if tg[a_] > tg[b_] else "same_position")
                else:
                    rk = "before_assignment" if a_ is None else "unknown_tag"
                if op["c"] == "get" and op["name"] in attrs:
                    rk += "/attribute_name"
                _count("read:%s/%s" % ("attribute" if op["c"] == "get" else "do_transform", rk))
            r = call_impl(one)
            if op["c"] == "transform":
                _count("op:%s/%s" % (op["o"]["op"], r["raise"] if isinstance(r, dict) and "raise" in r else "accepted"))
            elif op["c"] == "tag_as":
                _count("tag_as/%s" % ("retag" if retag else "new_name"))
            elif op["c"] == "set":
                _count("assign/%s" % (r["raise"] if isinstance(r, dict) and "raise" in r else "ok"))
            if isinstance(r, dict) and "raise" in r:
                results.append(r)
            elif r is None and not (op["c"] == "get"):
                results.append({"none": True})
            elif isinstance(r, np.ndarray):
                results.append({"points": np.asarray(r, dtype=np.float64).tolist(), "shape": list(np.shape(r))})
            else:  # an attribute read that produced some other object (bound method, dict, None, str, ...)
                results.append({"other": type(r).__name__})
        pairs = [[np.asarray(f, dtype=np.float64).reshape(-1).tolist(), np.asarray(i, dtype=np.float64).reshape(-1).tolist()]
                 for f, i in cm._transform.transforms]
        return {"attrs": attrs, "pts_attr": pts_attr, "results": results, "factors": factors, "lens": lens, "pairs": pairs,
                "tags": dict(cm._tags_to_indices)}

    return call_impl(go)


def _s(name):
    return '"%s"%%string' % name


def coq_cm_op(op, factor):
    k = op["c"]
    if k == "transform":
        return "CTransform (%s)" % _c03.coq_op(op["o"], factor)
    if k == "tag_as":
        return "CTagAs %s" % _s(op["name"])
    if k == "set":
        return "CSetAttr %s %s" % (_s(op["name"]), coq_list(qv(p) for p in op["points"]))
    if k == "get":
        return "CGetAttr %s" % _s(op["name"])
    return "CDoTransform %s %s %s" % (coq_list(qv(p) for p in op["points"]), _s(op["from"]), _s(op["to"]))


def coq_case(c, o):
    if isinstance(o, dict) and "raise" in o:
        return 'CScript [] ""%string [] [Raise OtherError]'
    ops = coq_list(coq_cm_op(op, f) for op, f in zip(c["ops"], o["factors"]))
    res = []
    for r in o["results"]:
        if "raise" in r:
            res.append("(Raise %s)" % r["raise"])
        elif "none" in r:
            res.append("(Ok ONone)")
        elif "other" in r:
            res.append("(Ok OOther)")
        else:
            res.append("(Ok (OPts %s))" % coq_list(flv(row) for row in r["points"]))
    return "CScript %s %s %s %s" % (coq_list(_s(a) for a in o["attrs"]), _s(o["pts_attr"]), ops, coq_list(res))


# ---- oracle: brute-force sequential application between tag positions ---------------------------------------------
_F, _mat, _apply = _c11._F, _c11._mat, _c11._apply
TOL = Fr(1, 10 ** 7)


def oracle(c, o):
    if isinstance(o, dict) and "raise" in o:
        return "harness: unexpected exception %s: %s" % (o["raise"], o.get("msg"))
    fw = [_mat(f, 4) for f, _ in o["pairs"]]
    iv = [_mat(i, 4) for _, i in o["pairs"]]
    tags, assigned, n = {}, None, 0
    mag, kindr = [Fr(1)], ["?"]

    def mmag(m):
        return max([Fr(1)] + [abs(x) for row in m for x in row])

    def expected_read(pts, a, b):
        """('raise', cls) or ('ok', points); sets mag[0] = product of the magnitudes of the steps traversed"""
        if a not in tags or b not in tags:
            return "raise", "KeyError"
        i, j = tags[a], tags[b]
        mag[0] = Fr(1)
        for k in (range(i, j) if i < j else range(j, i)):
            mag[0] *= mmag(fw[k]) if i < j else mmag(iv[k])
        kindr[0] = "forward" if i < j else ("backward" if i > j else "same_position")
        out = []
        for p in pts:
            cur = _F(p)
            if i < j:
                for k in range(i, j):
                    cur = _apply(fw[k], cur)
            elif i > j:
                for k in range(i - 1, j - 1, -1):
                    cur = _apply(iv[k], cur)
            out.append(cur)
        return "ok", out

    for idx, (op, r, fac, ln) in enumerate(zip(c["ops"], o["results"], o["factors"], o["lens"])):
        k = op["c"]
        if ln != n:
            return "call %d: %d transforms recorded, %d accepted so far" % (idx, ln, n)
        if k == "transform":
            what, _ = _c03.expected_outcome(op["o"], fac)
            if "raise" in r:
                if what == "ok":
                    return "%s rejected with %s" % (op["o"]["op"], r["raise"])
            else:
                if what == "raise":
                    return "%s accepted" % op["o"]["op"]
                if "none" not in r:
                    return "delegating method returned a value"
                n += 1
            continue
        if k == "tag_as":
            if "none" not in r:
                return "tag_as did not return None: %r" % r
            tags[op["name"]] = n
            continue
        if k == "set":
            if op["name"] not in tags:
                if r.get("raise") != "AttributeError":
                    return "assignment to unknown tag %r: %r, AttributeError demanded" % (op["name"], r)
            else:
                if "none" not in r:
                    return "assignment to known tag %r failed: %r" % (op["name"], r)
                assigned = (op["name"], op["points"])
            continue
        if k == "get":
            if assigned is None and op["name"] in o["attrs"]:
                # ordinary attribute lookup succeeds, __getattr__ is not consulted: no ValueError for a tag of that name
                if op["name"] in tags and r.get("raise") != "ValueError":
                    return ("SHADOWED attribute read of tag %r before any assignment: ValueError demanded, the attribute (%s) was "
                            "returned" % (op["name"], r.get("other", "value")))
                continue
            if assigned is None:
                if r.get("raise") != "ValueError":
                    return "read before any assignment: %r, ValueError demanded" % r
                continue
            what, want = expected_read(assigned[1], assigned[0], op["name"])
            site = "attribute read %s -> %s" % (assigned[0], op["name"])
        else:
            what, want = expected_read(op["points"], op["from"], op["to"])
            site = "do_transform %s -> %s" % (op["from"], op["to"])
        if k == "get" and op["name"] in o["attrs"] and op["name"] in tags:
            # the property demands the converted points; Python hands out the attribute instead (known finding)
            if what == "ok" and ("points" not in r or any(
                    abs(Fr(a) - b) > TOL * mag[0] * max([1] + [abs(x) for x in w]) for got, w in zip(r["points"], want)
                    for a, b in zip(got, w))):
                return "SHADOWED %s: tag %r is also an attribute of the class, the read returned %s instead of the converted points" % (
                    site, op["name"], r.get("other", "the raw stored points"))
            continue
        if what == "raise":
            if r.get("raise") != want:
                return "%s with an unknown tag: %r, %s demanded" % (site, r, want)
            continue
        if "points" not in r:
            return "%s failed: %r" % (site, r)
        if len(r["points"]) != len(want):
            return "%s returned %d rows for %d points" % (site, len(r["points"]), len(want))
        for got, w in zip(r["points"], want):
            pm = max([1] + [abs(x) for x in w])
            if any(abs(Fr(a) - b) > TOL * mag[0] * pm for a, b in zip(got, w)):
                return ("%s (positions %s) is not the points pushed through exactly the transforms recorded between the "
                        "two tags" % (site, {t: tags[t] for t in tags}))
    if {k: int(v) for k, v in o["tags"].items()} != tags:
        return "tag table %r differs from the number of transforms recorded at tag time %r" % (o["tags"], tags)
    return None


def classify(c, o, failure, disagrees):
    """known finding tag_shadows_attribute: an attribute read of a tag whose name is an attribute of the class; only
    that clause, only when model and implementation agree"""
    if failure and failure.startswith("SHADOWED ") and not disagrees:
        return "tag_shadows_attribute"
    return None
