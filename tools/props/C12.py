"""C12 — Viewing matrices map the documented volumes and inverse=True really inverts."""
from fractions import Fraction as Fr

import numpy as np

from common import Kernel, call_impl, coq_list, fl, grid, grid_vec, q, qv

ID = "C12"
N_CASES = {"quick": 360, "thorough": 6000, "search": 3000}
SHARD = 60
RULE = ("seeded streams per function (world_to_view, view_to_orthographic_projection, viewport_transform, "
        "world_to_canvas_orthographic_projection), each case records the matrix for inverse=False and inverse=True; "
        "dyadic-grid parameters times power-of-two scales (quick 2^-10..2^10, thorough 2^-30..2^30), ~12% boundary "
        "(axis-aligned cameras, unit boxes, negative-size viewports) and ~12% degenerate (target=position, up parallel "
        "to look, zero width/height/zoom, far=near, empty viewport); non-trivial = no exception and no NaN; "
        "distinct by hash of inputs")
TRUSTED = ["Coq 8.16.1 kernel, vm_compute for the correspondence evaluation",
           "axioms (Print Assumptions): ClassicalDedekindReals.sig_forall_dec, sig_not_dec, "
           "FunctionalExtensionality.functional_extensionality_dep, Classical_Prop.classic (all Coq stdlib Reals)",
           "tools/symtrace.py tracing translator + numpy shim (re-validated numerically each run)",
           "coq/corr/K_C12.v agreement relation (relative tolerance 1e-9: entrywise for the rational matrices, relative "
           "to the largest entry for the camera/canvas matrices)",
           "NumPy, vg"]
CASE_IMPORTS = [("PW.model", "M_viewing")]
ASSUMPTIONS = ["theorems are about exact real arithmetic; binary64 rounding is covered only by the tolerance of the "
               "correspondence check on sampled inputs",
               "the canvas matrix uses the float defaults near=0.1, far=2000: the traced z entries are the binary64 "
               "constants the code computes; a lemma re-proved each run bounds their distance to the exact values by 1e-12",
               "inputs that make the code divide by zero are outside the property; the model mirrors them as "
               "ZeroDivisionError (Python floats) / NaN marker (array division) and the correspondence samples them"]

_IMPORTS = [("PW.model", "M_viewing"), ("PW.proofs", "P_vec"), ("PW.proofs", "P_mat"), ("PW.proofs", "P_viewing")]

# generic, shape-independent tie script: unfold both sides completely, compare entry by entry.
_UNF = ("cbv [w2v_mat w2v_rot3 w2v_up w2v_left w2v_look basis_y ortho_mat ortho_mat_c ortho_zscale ortho_ztrans viewport_mat "
        "canvas_mat canvas_mat_c canvas_compose compose2 compose3 half default_near default_far nfrac app]; munf")
_ENTRY = ("first [ reflexivity | ring | (field; nz) "
          "| (repeat match goal with |- context [sqrt ?e] => let n := fresh \"n\" in generalize (sqrt e); intro n end; "
          "first [ring | field; nz]) ]")
_NZ = "Ltac nz := repeat split; try lra; try assumption; auto with real.\n"


def _R(x):
    f = Fr(float(x))
    return "(%d / %d)" % (f.numerator, f.denominator)


def kernels():
    from polliwog.transform import (view_to_orthographic_projection, viewport_transform, world_to_canvas_orthographic_projection,
                                    world_to_view)
    ks = []
    P, T, U = "(V3 p0 p1 p2)", "(V3 t0 t1 t2)", "(V3 u0 u1 u2)"

    # ---- world_to_view, both directions in one trace ----------------------------------------------------
    ks.append(Kernel(
        "w2v", {"p": [1.0, 2.0, 3.0], "t": [0.5, -1.0, 4.0], "u": [0.25, 1.0, 0.5]},
        lambda p, t, u: (world_to_view(p, t, u), world_to_view(p, t, u, inverse=True)),
        _NZ + """Lemma {T}_ok : forall {vars} : R,
  {T} ROps {vars} = mlist (w2v_mat ROps %(P)s %(T)s %(U)s false) ++ mlist (w2v_mat ROps %(P)s %(T)s %(U)s true).
Proof. intros. unfold {T}. %(unf)s. list_eq ltac:(%(entry)s). Qed.

(* the property, about the matrices the source produced on this run *)
Lemma {T}_property : forall {vars} : R,
  %(T)s <> %(P)s -> vcross ROps (vsub ROps %(T)s %(P)s) %(U)s <> V3 0 0 0 ->
  exists f i, {T} ROps {vars} = mlist f ++ mlist i /\\
    mmul ROps i f = I4 ROps /\\ mmul ROps f i = I4 ROps /\\ affine ROps f /\\
    (forall a b, vdist ROps (mapply_pt ROps f a) (mapply_pt ROps f b) = vdist ROps a b) /\\
    mapply_pt ROps f %(P)s = V3 0 0 0 /\\
    mapply_pt ROps f %(T)s = V3 0 0 (vdist ROps %(T)s %(P)s) /\\ 0 < vdist ROps %(T)s %(P)s /\\
    vx (mapply_vec ROps f %(U)s) = 0 /\\ 0 < vy (mapply_vec ROps f %(U)s).
Proof.
  intros {vars} H1 H2. eexists; eexists. split; [apply {T}_ok|].
  pose proof (w2v_target_on_pos_z _ _ _ H1 H2) as [A B]. pose proof (w2v_up_in_yz_pos_y _ _ _ H1 H2) as [C D].
  repeat split; try assumption.
  - apply w2v_inverse_left; assumption.
  - apply w2v_inverse_right; assumption.
  - intros a b. apply w2v_isometry; assumption.
  - apply w2v_position_to_origin; assumption.
Qed.""" % {"P": P, "T": T, "U": U, "unf": _UNF, "entry": _ENTRY},
        imports=_IMPORTS, timeout=200))

    # ---- orthographic -----------------------------------------------------------------------------------
    ks.append(Kernel(
        "ortho", {"w": [3.0], "h": [2.0], "nr": [0.5], "fr": [10.0]},
        lambda w, h, nr, fr: (view_to_orthographic_projection(w[0], h[0], nr[0], fr[0]),
                            view_to_orthographic_projection(w[0], h[0], nr[0], fr[0], inverse=True)),
        _NZ + """Lemma {T}_ok : forall {vars} : R, 0 < w0 -> 0 < h0 -> nr0 < fr0 ->
  {T} ROps {vars} = mlist (ortho_mat ROps w0 h0 nr0 fr0 false) ++ mlist (ortho_mat ROps w0 h0 nr0 fr0 true).
Proof. intros. unfold {T}. %(unf)s. list_eq ltac:(%(entry)s). Qed.

Lemma {T}_property : forall {vars} : R, 0 < w0 -> 0 < h0 -> nr0 < fr0 ->
  exists f i, {T} ROps {vars} = mlist f ++ mlist i /\\
    mmul ROps i f = I4 ROps /\\ mmul ROps f i = I4 ROps /\\
    (forall p, in_view_box w0 h0 nr0 fr0 p <-> in_cube (mapply_pt ROps f p)) /\\
    (forall sx sy, mapply_pt ROps f (V3 (sx * (w0 / 2)) (sy * (h0 / 2)) (- nr0)) = V3 sx sy (-1) /\\
                   mapply_pt ROps f (V3 (sx * (w0 / 2)) (sy * (h0 / 2)) (- fr0)) = V3 sx sy 1).
Proof.
  intros {vars} Hw Hh Hnf. eexists; eexists. split; [apply {T}_ok; assumption|].
  destruct (ortho_inverse w0 h0 nr0 fr0 Hw Hh Hnf) as [A B].
  repeat split; try assumption.
  - apply ortho_box_iff_cube; assumption.
  - apply ortho_box_iff_cube; assumption.
  - apply ortho_corners; assumption.
  - apply ortho_corners; assumption.
Qed.""" % {"unf": _UNF, "entry": _ENTRY},
        imports=_IMPORTS))

    # ---- viewport ---------------------------------------------------------------------------------------
    ks.append(Kernel(
        "viewport", {"a": [640.0], "b": [480.0], "c": [16.0], "d": [8.0]},
        lambda a, b, c, d: (viewport_transform(a[0], b[0], c[0], d[0]), viewport_transform(a[0], b[0], c[0], d[0], inverse=True)),
        _NZ + """Lemma {T}_ok : forall {vars} : R, a0 <> c0 -> d0 <> b0 ->
  {T} ROps {vars} = mlist (viewport_mat ROps a0 b0 c0 d0 false) ++ mlist (viewport_mat ROps a0 b0 c0 d0 true).
Proof. intros. unfold {T}. %(unf)s. list_eq ltac:(%(entry)s). Qed.

(* a0 = x_right, b0 = y_bottom, c0 = x_left, d0 = y_top *)
Lemma {T}_property : forall {vars} : R, a0 <> c0 -> d0 <> b0 ->
  exists f i, {T} ROps {vars} = mlist f ++ mlist i /\\
    mmul ROps i f = I4 ROps /\\ mmul ROps f i = I4 ROps /\\
    (forall z, mapply_pt ROps f (V3 (-1) (-1) z) = V3 c0 b0 ((z + 1) / 2) /\\
               mapply_pt ROps f (V3 1 (-1) z) = V3 a0 b0 ((z + 1) / 2) /\\
               mapply_pt ROps f (V3 (-1) 1 z) = V3 c0 d0 ((z + 1) / 2) /\\
               mapply_pt ROps f (V3 1 1 z) = V3 a0 d0 ((z + 1) / 2)).
Proof.
  intros {vars} H1 H2. eexists; eexists. split; [apply {T}_ok; assumption|].
  destruct (viewport_inverse a0 b0 c0 d0 H1 H2) as [A B].
  split; [exact A|]. split; [exact B|]. intros z. apply viewport_corners.
Qed.""" % {"unf": _UNF, "entry": _ENTRY},
        imports=_IMPORTS))

    # ---- canvas: three stages, default near/far are Python floats so the z entries are binary64 constants ---
    near, far = 0.1, 2000
    zs_f, zt_f = -2 / (far - near), -(far + near) / (far - near)
    zs_i, zt_i = (far - near) / -2, (far + near) / (far - near)
    consts = {"zsf": _R(zs_f), "ztf": _R(zt_f), "zsi": _R(zs_i), "zti": _R(zt_i)}
    ks.append(Kernel(
        "canvas", {"w": [640.0], "h": [480.0], "p": [1.0, 2.0, 3.0], "t": [0.5, -1.0, 4.0], "zm": [1.5]},
        lambda w, h, p, t, zm: (world_to_canvas_orthographic_projection(w[0], h[0], p, t, zoom=zm[0]),
                               world_to_canvas_orthographic_projection(w[0], h[0], p, t, zoom=zm[0], inverse=True)),
        _NZ + """(* the z entries of the projection stage as the code computes them from near=0.1 (binary64), far=2000 *)
Definition zsf : R := %(zsf)s.  Definition ztf : R := %(ztf)s.
Definition zsi : R := %(zsi)s.  Definition zti : R := %(zti)s.
Lemma {T}_ok : forall {vars} : R, 0 < w0 -> 0 < h0 -> 0 < zm0 ->
  {T} ROps {vars} = mlist (canvas_mat_c ROps zsf ztf w0 h0 %(P)s %(T)s zm0 false)
                 ++ mlist (canvas_mat_c ROps zsi zti w0 h0 %(P)s %(T)s zm0 true).
Proof. intros. unfold {T}, zsf, ztf, zsi, zti. %(unf)s. list_eq ltac:(%(entry)s). Qed.

(* ... and they are the exact entries for near = 1/10, far = 2000 up to binary64 rounding *)
Lemma {T}_constants :
  Rabs (zsf - ortho_zscale ROps (1 / 10) 2000 false) <= 1 / 10 ^ 12 /\\
  Rabs (ztf - ortho_ztrans ROps (1 / 10) 2000 false) <= 1 / 10 ^ 12 /\\
  Rabs (zsi - ortho_zscale ROps (1 / 10) 2000 true) <= 1 / 10 ^ 9 /\\
  Rabs (zti - ortho_ztrans ROps (1 / 10) 2000 true) <= 1 / 10 ^ 12.
Proof. unfold zsf, ztf, zsi, zti, ortho_zscale, ortho_ztrans; rops. repeat split; apply Rabs_le; lra. Qed.

(* the traced matrix IS the product of the three stages in order (reversed inverses for inverse=True) *)
Lemma {T}_three_stages : forall {vars} : R, 0 < w0 -> 0 < h0 -> 0 < zm0 ->
  {T} ROps {vars} =
    mlist (mmul ROps (mmul ROps (viewport_mat ROps w0 h0 0 0 false) (ortho_mat_c ROps (w0 / zm0) (h0 / zm0) zsf ztf false))
                     (w2v_mat ROps %(P)s %(T)s (V3 0 1 0) false))
    ++ mlist (mmul ROps (mmul ROps (w2v_mat ROps %(P)s %(T)s (V3 0 1 0) true) (ortho_mat_c ROps (w0 / zm0) (h0 / zm0) zsi zti true))
                        (viewport_mat ROps w0 h0 0 0 true)).
Proof. intros. rewrite {T}_ok by assumption. reflexivity. Qed.""" % dict(consts, P=P, T=T, unf=_UNF, entry=_ENTRY),
        imports=_IMPORTS, timeout=250))
    return ks
