"""C12 — Viewing matrices map the documented volumes and inverse=True really inverts."""
from fractions import Fraction as Fr

import json

import numpy as np

from common import Kernel, call_impl, coq_list, fl, grid, grid_vec, q, qv

ID = "C12"
N_CASES = {"quick": 360, "thorough": 4200, "search": 3000}
SHARD = 30
RULE = ("seeded streams per function (world_to_view, view_to_orthographic_projection, viewport_transform, "
        "world_to_canvas_orthographic_projection), each case records the matrix for inverse=False and inverse=True; "
        "dyadic-grid parameters times power-of-two scales (quick 2^-10..2^10, thorough 2^-30..2^30), ~12% boundary "
        "(axis-aligned cameras, unit boxes, negative-size viewports) and ~12% degenerate (target=position, up parallel "
        "to look, zero width/height/zoom, far=near, empty viewport); non-trivial = no exception and no NaN; "
        "distinct by hash of inputs; ~18% integral inputs as int64 arrays / Python ints, mixed int64/float32/float64 arrays "
        "(judged in full), all-float32 arrays (oracle only, tolerance 1e-3), near-parallel up/look (angle 2^-16..2^-6), and a "
        "few cameras of magnitude 2^+-520..700 that are run and recorded but not judged (kind w2v_extreme_unjudged)")
TRUSTED = ["Coq 8.16.1 kernel, vm_compute for the correspondence evaluation",
           "axioms (Print Assumptions): ClassicalDedekindReals.sig_forall_dec, sig_not_dec, "
           "FunctionalExtensionality.functional_extensionality_dep, Classical_Prop.classic (all Coq stdlib Reals)",
           "tools/symtrace.py tracing translator + numpy shim (re-validated numerically each run)",
           "coq/corr/K_C12.v agreement relation (relative tolerance 1e-9: entrywise for the rational matrices, relative "
           "to the row/column scale for the 3x3 block and to the input magnitude for the translation column of the camera/canvas matrices)",
           "NumPy, vg"]
CASE_IMPORTS = [("PW.model", "M_viewing")]
# theorems of props/C12.v that hold by the definition of the model (their content is carried by the traced lemmas
# T_canvas_compose / T_canvas_inv_compose / T_canvas_stages / T_canvas_inv_stages)
DEFINITIONAL = ["C12_canvas_is_three_stages"]
ASSUMPTIONS = ["MAGNITUDE DOMAIN of world_to_view (and of the canvas function through it): the theorems are over the reals; "
               "in binary64 they are sampled for |target - position| and |up| between 2^-40 and 2^40. Outside about "
               "1e-154..1e154 the squared norm inside vg.normalize overflows or underflows and the code returns, WITHOUT "
               "raising, NaN rows (e.g. target = (1e200,0,0) or up = (0,1e-200,0)), two all-zero rows (up = (0,1e200,0)) or rows "
               "of length 0.95 (|target - position| = 3e-162). The property's quantifier does not say 'any magnitude'; these "
               "cameras are generated (kind w2v_extreme_unjudged), their outcome is recorded in the observed data, and they are "
               "not judged. The same power-of-two rescaling as /repo 36e7d06 (C18) would remove the restriction; not proposed "
               "because the exact-real model and its ties would have to carry the scale factor.",
               "array dtypes: float64 and int64 arrays and mixed int64/float32/float64 arguments are judged in full (NumPy promotes "
               "to float64); ALL-float32 position/target/up give a single-precision frame and are judged by the oracle only, with "
               "tolerance 1e-3 (kinds *_float32_oracle_only)",
               "theorems are about exact real arithmetic; binary64 rounding is covered only by the tolerance of the "
               "correspondence check on sampled inputs",
               "the canvas matrix uses the float defaults near=0.1, far=2000: the traced z entries are the closed binary64 "
               "constants the code computes (read off the trace, whether multiplied symbolically or folded and rounded); the "
               "lemma T_canvas*_stages re-proved each run bounds their distance to the exact values by 1e-9",
               "inputs that make the code divide by zero are outside the property; the model mirrors them as "
               "ZeroDivisionError (Python floats) / NaN marker (array division) and the correspondence samples them"]

_IMPORTS = [("PW.model", "M_viewing"), ("PW.model", "M_viewing_spec"), ("PW.proofs", "P_vec"), ("PW.proofs", "P_mat"), ("PW.proofs", "P_viewing")]

# generic, shape-independent tie script: unfold both sides completely, compare entry by entry.
_UNF = ("cbv [w2v_mat w2v_rot3 w2v_up w2v_left w2v_look basis_y ortho_mat ortho_mat_c ortho_zscale ortho_ztrans viewport_mat "
        "canvas_mat canvas_mat_c canvas_compose compose2 compose3 half default_near default_far nfrac app]; munf")
_ENTRY = "first [ reflexivity | ring | (field; nz) ]"
# square roots are abstracted once for the whole list equation (both sides carry syntactically equal radicands as
# long as the code normalises/crosses the way the Vec.v combinators do)
_GEN = ("repeat match goal with |- context [sqrt ?e] => let n := fresh \"n\" in generalize (sqrt e); intro n end")
_ROB = """(* square roots: name the innermost ones, identify those whose radicands are equal as polynomials (so that a
   re-association or sign rearrangement inside a norm does not break the tie), repeat outwards; then the reciprocals of
   the roots become atoms so that `field` asks nothing about them *)
Ltac name_inner_sqrts :=
  repeat match goal with
  | |- context [sqrt ?a] =>
      lazymatch a with
      | context [sqrt _] => fail
      | _ => let n := fresh "sq" in set (n := sqrt a)
      end
  end.
Ltac merge_named_sqrts :=
  repeat match goal with
  | n := sqrt ?a, m := sqrt ?b |- _ =>
      let H := fresh "Hsq" in
      assert (H : n = m) by (subst n m; apply f_equal; unfold Rdiv; ring);
      clearbody n; subst n
  end.
Ltac abstract_sqrts :=
  repeat (progress (name_inner_sqrts; merge_named_sqrts));
  unfold Rdiv;
  repeat match goal with
  | n := sqrt _ |- context [/ ?x] => constr_eq x n; let i := fresh "isq" in set (i := / n); clearbody i
  end;
  repeat match goal with n := sqrt _ |- _ => clearbody n end.
"""
_NZ = "Ltac nz := repeat split; try lra; try assumption; auto with real.\n"


def _R(x):
    f = Fr(float(x))
    return "(%d / %d)" % (f.numerator, f.denominator)


def _lifted(fn):
    """Every plain number stored inside an object array the code returns becomes a traced constant, so that the traced output
    list does not depend on whether the code writes a matrix entry as the int 0, the float 0.0 or a computed value (plain
    ints inside an object array would otherwise be reported as concrete structure and drop out of the list of expressions).
    Integer-dtype arrays (index tables) and float runs (validation) are left as they are."""
    import symtrace

    def lift(t, x):
        if isinstance(x, (tuple, list)):
            return type(x)(lift(t, y) for y in x)
        if isinstance(x, np.ndarray) and x.dtype == object:
            out = np.empty(x.shape, dtype=object)
            flat = out.reshape(-1)
            for k, e in enumerate(x.reshape(-1)):
                flat[k] = e if isinstance(e, symtrace.Sym) else t.lift(e)
            return out
        return x

    def run(**kw):
        res = fn(**kw)
        t = next((e.t for a in kw.values() for e in np.asarray(a, dtype=object).reshape(-1) if isinstance(e, symtrace.Sym)), None)
        return res if t is None else lift(t, res)
    return run


def kernels():
    from polliwog.transform import (view_to_orthographic_projection, viewport_transform, world_to_canvas_orthographic_projection,
                                    world_to_view)
    ks = []
    P, T, U = "(V3 p0 p1 p2)", "(V3 t0 t1 t2)", "(V3 u0 u1 u2)"

    # ---- world_to_view, both directions in one trace ----------------------------------------------------
    ks.append(Kernel(
        "w2v", {"p": [1.0, 2.0, 3.0], "t": [0.5, -1.0, 4.0], "u": [0.25, 1.0, 0.5]},
        lambda p, t, u: (world_to_view(p, t, u), world_to_view(p, t, u, inverse=True)),
        _NZ + _ROB + """Lemma {T}_ok : forall {vars} : R,
  {T} ROps {vars} = mlist (w2v_mat ROps %(P)s %(T)s %(U)s false) ++ mlist (w2v_mat ROps %(P)s %(T)s %(U)s true).
Proof. intros. unfold {T}. %(unf)s. abstract_sqrts. list_eq ltac:(%(entry)s). Qed.

(* the property, about the matrices the source produced on this run *)
Lemma {T}_property : forall {vars} : R,
  %(T)s <> %(P)s -> vcross ROps (vsub ROps %(T)s %(P)s) %(U)s <> V3 0 0 0 ->
  exists f i, {T} ROps {vars} = mlist f ++ mlist i /\\
    mmul ROps i f = I4 ROps /\\ mmul ROps f i = I4 ROps /\\ affine ROps f /\\
    (forall a b, vdist ROps (mapply_pt ROps f a) (mapply_pt ROps f b) = vdist ROps a b) /\\
    mapply_pt ROps f %(P)s = V3 0 0 0 /\\
    mapply_pt ROps f %(T)s = V3 0 0 (vdist ROps %(T)s %(P)s) /\\ 0 < vdist ROps %(T)s %(P)s /\\
    vx (mapply_vec ROps f %(U)s) = 0 /\\ 0 < vy (mapply_vec ROps f %(U)s).
Proof.
  intros {vars} H1 H2.
  exists (w2v_mat ROps %(P)s %(T)s %(U)s false), (w2v_mat ROps %(P)s %(T)s %(U)s true).
  split; [apply {T}_ok|].
  split; [apply w2v_inverse_left; assumption|]. split; [apply w2v_inverse_right; assumption|].
  split; [apply affine_w2v|]. split; [intros a b; apply w2v_isometry; assumption|].
  split; [apply w2v_position_to_origin; assumption|].
  pose proof (w2v_target_on_pos_z _ _ _ H1 H2) as [A B]. pose proof (w2v_up_in_yz_pos_y _ _ _ H1 H2) as [C D].
  split; [exact A|]. split; [exact B|]. split; [exact C|exact D].
Qed.""" % {"P": P, "T": T, "U": U, "unf": _UNF, "entry": _ENTRY, "gen": _GEN},
        imports=_IMPORTS, timeout=200))

    # ---- orthographic -----------------------------------------------------------------------------------
    ks.append(Kernel(
        "ortho", {"w": [3.0], "h": [2.0], "nr": [0.5], "fr": [10.0]},
        lambda w, h, nr, fr: (view_to_orthographic_projection(w[0], h[0], nr[0], fr[0]),
                            view_to_orthographic_projection(w[0], h[0], nr[0], fr[0], inverse=True)),
        _NZ + """Lemma {T}_ok : forall {vars} : R, 0 < w0 -> 0 < h0 -> nr0 < fr0 ->
  {T} ROps {vars} = mlist (ortho_mat ROps w0 h0 nr0 fr0 false) ++ mlist (ortho_mat ROps w0 h0 nr0 fr0 true).
Proof. intros. unfold {T}. %(unf)s. %(gen)s. list_eq ltac:(%(entry)s). Qed.

Lemma {T}_property : forall {vars} : R, 0 < w0 -> 0 < h0 -> nr0 < fr0 ->
  exists f i, {T} ROps {vars} = mlist f ++ mlist i /\\
    mmul ROps i f = I4 ROps /\\ mmul ROps f i = I4 ROps /\\
    (forall p, in_view_box w0 h0 nr0 fr0 p <-> in_cube (mapply_pt ROps f p)) /\\
    (forall sx sy, mapply_pt ROps f (V3 (sx * (w0 / 2)) (sy * (h0 / 2)) (- nr0)) = V3 sx sy (-1) /\\
                   mapply_pt ROps f (V3 (sx * (w0 / 2)) (sy * (h0 / 2)) (- fr0)) = V3 sx sy 1).
Proof.
  intros {vars} Hw Hh Hnf.
  exists (ortho_mat ROps w0 h0 nr0 fr0 false), (ortho_mat ROps w0 h0 nr0 fr0 true).
  split; [apply {T}_ok; assumption|].
  split; [exact (proj1 (ortho_inverse w0 h0 nr0 fr0 Hw Hh Hnf))|]. split; [exact (proj2 (ortho_inverse w0 h0 nr0 fr0 Hw Hh Hnf))|].
  split; [intros p; exact (ortho_box_iff_cube w0 h0 nr0 fr0 p Hw Hh Hnf) | intros sx sy; exact (ortho_corners w0 h0 nr0 fr0 sx sy Hw Hh Hnf)].
Qed.""" % {"unf": _UNF, "entry": _ENTRY, "gen": _GEN},
        imports=_IMPORTS))

    # ---- viewport ---------------------------------------------------------------------------------------
    ks.append(Kernel(
        "viewport", {"a": [640.0], "b": [480.0], "c": [16.0], "d": [8.0]},
        lambda a, b, c, d: (viewport_transform(a[0], b[0], c[0], d[0]), viewport_transform(a[0], b[0], c[0], d[0], inverse=True)),
        _NZ + """Lemma {T}_ok : forall {vars} : R, a0 <> c0 -> d0 <> b0 ->
  {T} ROps {vars} = mlist (viewport_mat ROps a0 b0 c0 d0 false) ++ mlist (viewport_mat ROps a0 b0 c0 d0 true).
Proof. intros. unfold {T}. %(unf)s. %(gen)s. list_eq ltac:(%(entry)s). Qed.

(* a0 = x_right, b0 = y_bottom, c0 = x_left, d0 = y_top *)
Lemma {T}_property : forall {vars} : R, a0 <> c0 -> d0 <> b0 ->
  exists f i, {T} ROps {vars} = mlist f ++ mlist i /\\
    mmul ROps i f = I4 ROps /\\ mmul ROps f i = I4 ROps /\\
    (forall z, mapply_pt ROps f (V3 (-1) (-1) z) = V3 c0 b0 ((z + 1) / 2) /\\
               mapply_pt ROps f (V3 1 (-1) z) = V3 a0 b0 ((z + 1) / 2) /\\
               mapply_pt ROps f (V3 (-1) 1 z) = V3 c0 d0 ((z + 1) / 2) /\\
               mapply_pt ROps f (V3 1 1 z) = V3 a0 d0 ((z + 1) / 2)).
Proof.
  intros {vars} H1 H2.
  exists (viewport_mat ROps a0 b0 c0 d0 false), (viewport_mat ROps a0 b0 c0 d0 true).
  split; [apply {T}_ok; assumption|].
  split; [exact (proj1 (viewport_inverse a0 b0 c0 d0 H1 H2))|]. split; [exact (proj2 (viewport_inverse a0 b0 c0 d0 H1 H2))|].
  intros z. exact (viewport_corners a0 b0 c0 d0 z).
Qed.""" % {"unf": _UNF, "entry": _ENTRY, "gen": _GEN},
        imports=_IMPORTS))

    # ---- apply_transform: what "the matrix maps point p to q" means in the theorems (Mat.mapply_pt / mapply_vec) ----
    from polliwog.transform import apply_transform
    M = "(M4 m0 m1 m2 m3 m4 m5 m6 m7 m8 m9 m10 m11 m12 m13 m14 m15)"
    ks.append(Kernel(
        "apply", {"m": [[1.0, 2.0, 3.0, 4.0], [0.5, -1.0, 2.0, 0.25], [3.0, 1.0, -2.0, 1.5], [0.0, 0.0, 0.0, 1.0]], "p": [0.5, 2.0, -1.0]},
        lambda m, p: (apply_transform(m)(p), apply_transform(m)(p, treat_input_as_vector=True)),
        """Lemma {T}_ok : forall {vars} : R,
  {T} ROps {vars} = vlist (mapply_pt ROps %(M)s %(P)s) ++ vlist (mapply_vec ROps %(M)s %(P)s).
Proof. intros. unfold {T}. cbv [app]; munf. list_eq_ring. Qed.""" % {"M": M, "P": P},
        imports=_IMPORTS))

    # ---- canvas: three stages, default near/far are Python floats so the z entries are binary64 constants ---
    def canvas_dir(inverse):
        def run(w, h, p, t, zm):
            w, h, z = w[0], h[0], zm[0]
            # the composite, then the three public stage functions called the way the property describes
            return (world_to_canvas_orthographic_projection(w, h, p, t, zoom=z, inverse=inverse),
                    world_to_view(position=p, target=t, inverse=inverse),
                    view_to_orthographic_projection(width=w / z, height=h / z, inverse=inverse),
                    viewport_transform(x_right=w, y_bottom=h, inverse=inverse))
        return run

    L = "({T} ROps {vars})"
    for inverse in (False, True):
        d = dict(P=P, T=T, unf=_UNF, entry=_ENTRY, gen=_GEN, inv="true" if inverse else "false",
                 # inverse=False: viewport @ projection @ view ; inverse=True: view^-1 @ projection^-1 @ viewport^-1
                 order=("(m4l (seg 1 %(L)s)) (m4l (seg 2 %(L)s))) (m4l (seg 3 %(L)s))" if inverse else
                        "(m4l (seg 3 %(L)s)) (m4l (seg 2 %(L)s))) (m4l (seg 1 %(L)s))"),
                 )
        text = _NZ + _ROB + """(* outputs: canvas matrix, then view / projection / viewport matrices (all for inverse=%(inv)s) from ONE run of the code:
   segment k = entries 16k .. 16k+15 *)
Definition m4l (l : list R) : mat4 R :=
  match l with
  | [a; b; c; d; e; f; g; h; i; j; k; l'; m; n; o; p] => M4 a b c d e f g h i j k l' m n o p
  | _ => I4 ROps
  end.
Definition seg (k : nat) (l : list R) : list R := firstn 16 (skipn (16 * k) l).

(* 1. the property clause itself, on the matrices the code returned: the canvas matrix is the product of the three stage
      matrices in order (view applied first; for inverse=True the stage inverses in reverse order) *)
Lemma {T}_compose : forall {vars} : R,
  seg 0 %(L)s = mlist (mmul ROps (mmul ROps %(order)s).
Proof. intros. unfold {T}. cbv [seg firstn skipn Nat.mul Nat.add m4l nfrac]; munf. %(gen)s.
  (* reciprocals of non-constant terms become atoms (both sides come from the same run, so they are syntactically equal);
     what is left for `field` are reciprocals of numerals, e.g. when the code folds 0.5 * c into one binary64 constant *)
  unfold Rdiv.
  repeat match goal with |- context [/ ?x] =>
    lazymatch x with IZR _ => fail | _ => let i := fresh "ri" in generalize (/ x); intro i end end.
  list_eq ltac:(first [reflexivity | ring | field]). Qed.

(* 2. the stages are the modelled ones, with width/zoom, height/zoom, the default up = y, the viewport (0,0)-(w,h).  The two z
      entries of the projection matrix are whatever closed constants the code produced from near=0.1 (binary64), far=2000
      (read off the trace by unification, so it does not matter whether the code multiplies them symbolically or folds and
      rounds them first); they are within binary64 rounding of the exact entries for near = 1/10, far = 2000 *)
Lemma {T}_stages : exists z22 z23 : R,
  Rabs (z22 - ortho_zscale ROps (1 / 10) 2000 %(inv)s) <= 1 / 10 ^ 9 /\\
  Rabs (z23 - ortho_z23 ROps (1 / 10) 2000 %(inv)s) <= 1 / 10 ^ 9 /\\
  forall {vars} : R, 0 < w0 -> 0 < h0 -> 0 < zm0 ->
    m4l (seg 1 %(L)s) = w2v_mat ROps %(P)s %(T)s (V3 0 1 0) %(inv)s /\\
    m4l (seg 2 %(L)s) = ortho_mat_z ROps (w0 / zm0) (h0 / zm0) z22 z23 %(inv)s /\\
    m4l (seg 3 %(L)s) = viewport_mat ROps w0 h0 0 0 %(inv)s.
Proof.
  eexists; eexists.
  match goal with |- _ /\\ _ /\\ ?S => assert (HS : S) end.
  { intros. unfold {T}. cbv [seg firstn skipn Nat.mul Nat.add m4l ortho_mat_z]. %(unf)s. abstract_sqrts.
    split; [|split]; apply M4_ext; %(entry)s. }
  split; [|split; [|exact HS]];
    cbv [ortho_zscale ortho_ztrans ortho_z23 nfrac]; rops; unfold Rdiv; apply Rabs_le; lra.
Qed.

(* 3. hence the traced canvas matrix is the modelled one (canvas_mat = canvas_mat_z at the exact constants: P_viewing.canvas_mat_as_z) *)
Lemma {T}_ok : exists z22 z23 : R,
  Rabs (z22 - ortho_zscale ROps (1 / 10) 2000 %(inv)s) <= 1 / 10 ^ 9 /\\
  Rabs (z23 - ortho_z23 ROps (1 / 10) 2000 %(inv)s) <= 1 / 10 ^ 9 /\\
  forall {vars} : R, 0 < w0 -> 0 < h0 -> 0 < zm0 ->
    seg 0 %(L)s = mlist (canvas_mat_z ROps z22 z23 w0 h0 %(P)s %(T)s zm0 %(inv)s).
Proof.
  destruct {T}_stages as (z22 & z23 & B1 & B2 & HS). exists z22, z23. split; [exact B1|]. split; [exact B2|].
  intros {vars} Hw Hh Hz. destruct (HS {vars} Hw Hh Hz) as (S1 & S2 & S3).
  rewrite ({T}_compose {vars}), S1, S2, S3. reflexivity.
Qed."""
        d["order"] = d["order"].replace("%(L)s", L)
        text = text.replace("%(L)s", L) % d
        ks.append(Kernel("canvas_inv" if inverse else "canvas",
                         {"w": [640.0], "h": [480.0], "p": [1.0, 2.0, 3.0], "t": [0.5, -1.0, 4.0], "zm": [1.5]},
                         canvas_dir(inverse), text, imports=_IMPORTS, timeout=250))
    for k in ks:
        k.call = _lifted(k.call)
    return ks


# ---------------------------------------------------------------------------------------------------------
def _scale(rng, tier, lo=10):
    # a tenth of the quick cases also use the extreme range
    k = 30 if (tier == "thorough" or rng.random() < 0.1) else lo
    return 2.0 ** rng.randint(-k, k)


def _ivec(rng, lo=-9, hi=9):
    return [float(rng.randint(lo, hi)) for _ in range(3)]


def _int_case(rng, fam):
    """the same kinds of inputs with integral values, passed as int64 arrays / Python ints"""
    if fam == "w2v":
        while True:
            look, up = _ivec(rng, -6, 6), _ivec(rng, -4, 4)
            if any(_cross(look, up)):
                break
        pos = _ivec(rng, -50, 50)
        return {"kind": "w2v_ints", "position": pos, "target": [a + b for a, b in zip(pos, look)], "up": up, "ints": True}
    if fam == "ortho":
        near = rng.randint(-3, 10)
        return {"kind": "ortho_ints", "w": float(rng.randint(1, 2000)), "h": float(rng.randint(1, 2000)), "near": float(near),
                "far": float(near + rng.randint(1, 3000)), "ints": True}
    if fam == "viewport":
        xl, yt = rng.choice([0, 0, rng.randint(-50, 50)]), rng.choice([0, 0, rng.randint(-50, 50)])
        return {"kind": "viewport_ints", "xr": float(xl + rng.choice([-1, 1]) * rng.randint(1, 2000)),
                "yb": float(yt + rng.choice([-1, 1]) * rng.randint(1, 2000)), "xl": float(xl), "yt": float(yt), "ints": True}
    while True:
        look = _ivec(rng, -6, 6)
        if look[0] or look[2]:
            break
    pos = _ivec(rng, -50, 50)
    return {"kind": "canvas_ints", "w": float(rng.randint(1, 2000)), "h": float(rng.randint(1, 2000)), "position": pos,
            "target": [a + b for a, b in zip(pos, look)], "zoom": float(rng.randint(1, 8)), "ints": True}


def _cross(a, b):
    return [a[1] * b[2] - a[2] * b[1], a[2] * b[0] - a[0] * b[2], a[0] * b[1] - a[1] * b[0]]


def _camera(rng, tier, up_fixed=None):
    """position, target, up on dyadic grids; look and up never (nearly) parallel: the cross product of two grid
    vectors is either exactly zero or at least 1/4 in some component."""
    sp = _scale(rng, tier)
    sl = sp * 2.0 ** rng.randint(-8, 8)
    while True:
        look = grid_vec(rng)
        up = list(up_fixed) if up_fixed else grid_vec(rng)
        if any(_cross(look, up)):
            break
    pos = [x * sp for x in grid_vec(rng)] if rng.random() < 0.85 else [0.0, 0.0, 0.0]
    target = [p + x * sl for p, x in zip(pos, look)]
    if not up_fixed:
        su = 2.0 ** rng.randint(-6, 6)
        up = [x * su for x in up]
    return pos, target, up


def _dtype_case(rng, fam):
    """array arguments in other dtypes. Mixed (at least one of position/target float64): NumPy promotes to float64 at the
    first subtraction, so the result is judged like any other. All float32: the camera frame is computed in single precision;
    judged by the oracle with a single-precision tolerance, not compared with the exact model."""
    c = _int_case(rng, fam)
    c.pop("ints")
    if fam == "canvas":
        c["zoom"] = rng.randint(1, 16) / 4
    names = ["position", "target"] + (["up"] if fam == "w2v" else [])
    if rng.random() < 0.5:
        c["dtypes"] = {n: "float32" for n in names}
        c["kind"] = fam + "_float32_oracle_only"
    else:
        dt = {n: rng.choice(["int64", "float32", "float64"]) for n in names}
        dt[rng.choice(["position", "target"])] = "float64"
        if len(set(dt.values())) == 1:
            dt[names[-1]] = "float32" if fam == "w2v" else "int64"
            dt["position" if names[-1] != "position" else "target"] = "float64"
        c["dtypes"] = dt
        c["kind"] = fam + "_mixed_dtypes"
    return c


def _extreme_case(rng):
    """|target - position| or |up| outside about 1e-154..1e154: the squared norm inside vg.normalize overflows or underflows
    in binary64. Outside the magnitude domain stated in ASSUMPTIONS: run and recorded, never judged."""
    big = 2.0 ** rng.choice([700, 600, 520, -520, -600, -700])
    while True:
        look, up = _ivec(rng, -4, 4), _ivec(rng, -4, 4)
        if any(_cross(look, up)):
            break
    if rng.random() < 0.5:
        look = [x * big for x in look]
    else:
        up = [x * big for x in up]
    return {"kind": "w2v_extreme_unjudged", "position": [0.0, 0.0, 0.0], "target": look, "up": up}


def _near_parallel_camera(rng, tier):
    """up almost (never exactly) parallel to the viewing direction: angle about 2^-16 .. 2^-6; everything dyadic"""
    while True:
        look, perp = grid_vec(rng), grid_vec(rng)
        if any(_cross(look, perp)):
            break
    eps = 2.0 ** -rng.randint(6, 16)
    k = rng.choice([1.0, -1.0, 2.0, 0.5])
    up = [k * a + eps * b for a, b in zip(look, perp)]
    sp = _scale(rng, tier)
    sl = sp * 2.0 ** rng.randint(-4, 4)
    pos = [x * sp for x in grid_vec(rng)]
    su = 2.0 ** rng.randint(-6, 6)
    return pos, [a + b * sl for a, b in zip(pos, look)], [x * su for x in up]


def _axis(rng, k=None):
    v = [0.0, 0.0, 0.0]
    v[rng.randrange(3) if k is None else k] = rng.choice([1.0, -1.0, 2.0, -0.5, 3.0])
    return v


def gen_cases(rng, n, tier):
    cases = []
    for _ in range(n):
        u, b = rng.random(), rng.random()
        if rng.random() < 0.18:
            cases.append(_int_case(rng, "w2v" if u < 0.3 else "ortho" if u < 0.5 else "viewport" if u < 0.7 else "canvas"))
            continue
        if (u < 0.3 or u >= 0.7) and rng.random() < 0.14:
            cases.append(_dtype_case(rng, "w2v" if u < 0.3 else "canvas"))
            continue
        if u < 0.3 and rng.random() < 0.05:
            cases.append(_extreme_case(rng))
            continue
        if u < 0.3:
            if b < 0.12:
                pos, target, up = _near_parallel_camera(rng, tier)
                cases.append({"kind": "w2v_nearparallel", "position": pos, "target": target, "up": up})
            elif b < 0.76:
                pos, target, up = _camera(rng, tier)
                cases.append({"kind": "w2v", "position": pos, "target": target, "up": up})
            elif b < 0.88:  # axis-aligned camera, up exactly perpendicular
                k = rng.randrange(3)
                look, up = _axis(rng, k), _axis(rng, (k + rng.choice([1, 2])) % 3)
                pos = [x * _scale(rng, tier) for x in grid_vec(rng)]
                cases.append({"kind": "w2v_axis", "position": pos, "target": [p + x for p, x in zip(pos, look)], "up": up})
            else:  # outside the property: NaN expected (exactly computable degeneracies only)
                pos = [x * _scale(rng, tier) for x in grid_vec(rng)]
                if rng.random() < 0.5:
                    cases.append({"kind": "w2v_target_is_position", "position": pos, "target": list(pos), "up": grid_vec(rng)})
                else:
                    k = rng.randrange(3)
                    look = _axis(rng, k)
                    cases.append({"kind": "w2v_up_parallel", "position": pos, "target": [p + x for p, x in zip(pos, look)],
                                  "up": _axis(rng, k)})
        elif u < 0.5:
            s, s2 = _scale(rng, tier), _scale(rng, tier)
            w, h = rng.randint(1, 16) / 2 * s, rng.randint(1, 16) / 2 * s
            near = rng.randint(-4, 12) / 4 * s2
            far = near + rng.randint(1, 24) / 4 * s2
            if b < 0.76:
                cases.append({"kind": "ortho", "w": w, "h": h, "near": near, "far": far})
            elif b < 0.88:
                cases.append({"kind": "ortho_unit", "w": 2.0, "h": 2.0, "near": rng.choice([1.0, 0.0, 0.5]), "far": 3.0})
            else:
                z = rng.randrange(3)
                cases.append({"kind": "ortho_zero", "w": 0.0 if z == 0 else w, "h": 0.0 if z == 1 else h, "near": near,
                              "far": near if z == 2 else far})
        elif u < 0.7:
            s = _scale(rng, tier)
            xr, yb, xl, yt = [rng.randint(-16, 16) / 2 * s for _ in range(4)]
            if b < 0.76:
                if xr == xl:
                    xr = xl + s
                if yt == yb:
                    yb = yt + s
                cases.append({"kind": "viewport", "xr": xr, "yb": yb, "xl": xl, "yt": yt})
            elif b < 0.88:  # the usual screen rectangle, defaults x_left = y_top = 0
                cases.append({"kind": "viewport_screen", "xr": float(rng.choice([640, 800, 1, 1920])),
                              "yb": float(rng.choice([480, 600, 1, 1080])), "xl": 0.0, "yt": 0.0})
            else:
                if rng.random() < 0.5:
                    xr = xl
                else:
                    yb = yt
                cases.append({"kind": "viewport_empty", "xr": xr, "yb": yb, "xl": xl, "yt": yt})
        else:
            s = _scale(rng, tier)
            w, h = rng.randint(1, 32) / 2 * s, rng.randint(1, 32) / 2 * s
            zoom = rng.randint(1, 16) / 4 * _scale(rng, tier, 6)
            if b < 0.85:
                pos, target, _ = _camera(rng, tier, up_fixed=[0.0, 1.0, 0.0])
                cases.append({"kind": "canvas", "w": w, "h": h, "position": pos, "target": target, "zoom": zoom})
            else:
                pos, target, _ = _camera(rng, tier, up_fixed=[0.0, 1.0, 0.0])
                z = rng.randrange(5)
                if z == 3:
                    target = list(pos)
                if z == 4:
                    target = [pos[0], pos[1] + rng.choice([1.0, -2.0]), pos[2]]
                cases.append({"kind": "canvas_degenerate", "w": 0.0 if z == 0 else w, "h": 0.0 if z == 1 else h,
                              "position": pos, "target": target, "zoom": 0.0 if z == 2 else zoom})
    return cases


def _base(kind):
    return kind.split("_")[0]


def run_impl(c):
    from polliwog.transform import (view_to_orthographic_projection, viewport_transform, world_to_canvas_orthographic_projection,
                                    world_to_view)
    kind = _base(c["kind"])
    ints = bool(c.get("ints"))
    o = {"repeat_same": True}

    dts = c.get("dtypes", {})

    def arr(v, name=None):
        return np.array(v, dtype={"int64": np.int64, "float32": np.float32}.get(dts.get(name), np.int64 if ints else np.float64))

    def num(x):
        return int(x) if ints else x

    def mat(f, repeat=True):
        """call; then (the caller scribbles over the returned matrix and) call again: same answer expected"""
        try:
            r = f()
        except Exception as e:  # noqa
            return call_impl(lambda: (_ for _ in ()).throw(e))
        r = np.asarray(r)
        if r.shape != (4, 4):
            return {"raise": "OtherError", "msg": "result has shape %r" % (r.shape,)}
        first = r.astype(np.float64).copy()
        if repeat:
            try:
                r *= 0
                r -= 7
                r2 = np.asarray(f())
                if not np.array_equal(r2.astype(np.float64), first, equal_nan=True):
                    o["repeat_same"] = False
                    o["repeat_detail"] = {"first": first.reshape(-1).tolist(), "second": r2.astype(np.float64).reshape(-1).tolist()}
            except Exception as e:  # noqa
                o["repeat_same"] = False
                o["repeat_detail"] = {"raise": "%s: %s" % (type(e).__name__, e)}
        return [float(x) for x in first.reshape(-1)]

    with np.errstate(all="ignore"):
        if kind == "w2v":
            p, t, u = arr(c["position"], "position"), arr(c["target"], "target"), arr(c["up"], "up")
            before = [p.copy(), t.copy(), u.copy()]
            o["fwd"] = mat(lambda: world_to_view(p, t, u))
            o["inv"] = mat(lambda: world_to_view(p, t, u, inverse=True))
            o["args_unchanged"] = all(np.array_equal(a, b) for a, b in zip(before, [p, t, u]))
        elif kind == "ortho":
            a = tuple(num(c[k]) for k in ("w", "h", "near", "far"))
            o["fwd"] = mat(lambda: view_to_orthographic_projection(*a))
            o["inv"] = mat(lambda: view_to_orthographic_projection(*a, inverse=True))
        elif kind == "viewport":
            a = tuple(num(c[k]) for k in ("xr", "yb", "xl", "yt"))
            o["fwd"] = mat(lambda: viewport_transform(*a))
            o["inv"] = mat(lambda: viewport_transform(*a, inverse=True))
        else:
            p, t = arr(c["position"], "position"), arr(c["target"], "target")
            before = [p.copy(), t.copy()]
            w, h, zoom = num(c["w"]), num(c["h"]), num(c["zoom"])
            o["fwd"] = mat(lambda: world_to_canvas_orthographic_projection(w, h, p, t, zoom=zoom))
            o["inv"] = mat(lambda: world_to_canvas_orthographic_projection(w, h, p, t, zoom=zoom, inverse=True))
            # the three stages as the public functions return them (for the composition clause)
            for name, inverse in (("stages_fwd", False), ("stages_inv", True)):
                o[name] = call_impl(lambda: [
                    mat(lambda: world_to_view(p, t, inverse=inverse), False),
                    mat(lambda: view_to_orthographic_projection(w / zoom, h / zoom, inverse=inverse), False),
                    mat(lambda: viewport_transform(w, h, inverse=inverse), False)])
            # ... and the composite once more after the stages were called and edited
            again = mat(lambda: world_to_canvas_orthographic_projection(w, h, p, t, zoom=zoom), False)
            if not isinstance(again, dict) and not isinstance(o["fwd"], dict) and not np.array_equal(again, o["fwd"], equal_nan=True):
                o["repeat_same"] = False
                o["repeat_detail"] = {"first": o["fwd"], "second": again}
            o["args_unchanged"] = all(np.array_equal(a, b) for a, b in zip(before, [p, t]))
    # the same forward matrix used through the public apply_transform on the points the property talks about
    pts = _probe_points(c)
    if pts and not isinstance(o["fwd"], dict) and all(np.isfinite(o["fwd"])):
        from polliwog.transform import apply_transform
        fwd = np.array(o["fwd"]).reshape(4, 4)
        o["probe_images"] = call_impl(lambda: apply_transform(fwd)(np.array(pts)).tolist())
        o["probe_single"] = call_impl(lambda: apply_transform(fwd)(np.array(pts[0])).tolist())
    if c["kind"] == "w2v_extreme_unjudged":   # recorded for the evidence only
        f = o["fwd"]
        if isinstance(f, dict):
            o["extreme_outcome"] = "raises " + f["raise"]
        elif not all(np.isfinite(f)):
            o["extreme_outcome"] = "nan"
        else:
            r = np.array(f).reshape(4, 4)[:3, :3]
            o["extreme_outcome"] = "orthonormal" if np.allclose(r @ r.T, np.eye(3), atol=1e-6) else "finite but not orthonormal"
    # counted as trivial by the driver: an exception or NaN in either direction
    if any(isinstance(o[d], dict) or not all(np.isfinite(o[d])) for d in ("fwd", "inv")):
        o["raise"] = "degenerate"
    return o


def _probe_points(c):
    kind = _base(c["kind"])
    if kind == "w2v":
        return [c["position"], c["target"]]
    if kind == "ortho":
        w, h, n, f = c["w"], c["h"], c["near"], c["far"]
        return [[sx * w / 2, sy * h / 2, z] for sx in (-1, 1) for sy in (-1, 1) for z in (-n, -f)]
    if kind == "viewport":
        return [[float(sx), float(sy), float(z)] for sx in (-1, 1) for sy in (-1, 1) for z in (-1, 1)]
    return [c["position"], c["target"]]


def _obs(x):
    if isinstance(x, dict):
        return "(Raise %s)" % x["raise"]
    return "(Ok [%s])" % "; ".join(fl(v) for v in x)


def coq_case(c, o):
    if c["kind"].endswith("_unjudged") or c["kind"].endswith("_oracle_only"):
        return "CUnjudged"
    kind = _base(c["kind"])
    f, i = _obs(o["fwd"]), _obs(o["inv"])
    if kind == "w2v":
        return "CW2V %s %s %s %s %s" % (qv(c["position"]), qv(c["target"]), qv(c["up"]), f, i)
    if kind == "ortho":
        return "COrtho %s %s %s %s %s %s" % (q(c["w"]), q(c["h"]), q(c["near"]), q(c["far"]), f, i)
    if kind == "viewport":
        return "CViewport %s %s %s %s %s %s" % (q(c["xr"]), q(c["yb"]), q(c["xl"]), q(c["yt"]), f, i)
    return "CCanvas %s %s %s %s %s %s %s" % (q(c["w"]), q(c["h"]), qv(c["position"]), qv(c["target"]), q(c["zoom"]), f, i)


# ---------------------------------------------------------------------------------------------------------
# oracle: the property text on the implementation's own matrices, exact rational arithmetic, one-sided tolerances
TOL = Fr(1, 10 ** 7)


def _M(l):
    return [[Fr(float(l[4 * i + j])) for j in range(4)] for i in range(4)]


def _finite(l):
    return all(np.isfinite(x) for x in l)


def _prod_check(a, b, want, what):
    """a @ b == want entrywise, tolerance relative to sum_k |a_ik||b_kj| (the size of the terms that were added)"""
    for i in range(4):
        for j in range(4):
            terms = [a[i][k] * b[k][j] for k in range(4)]
            if abs(sum(terms) - want[i][j]) > TOL * max(abs(want[i][j]), sum(abs(x) for x in terms)):
                return "%s: entry (%d,%d) is %s, expected %s" % (what, i, j, float(sum(terms)), float(want[i][j]))
    return None


I4 = [[Fr(int(i == j)) for j in range(4)] for i in range(4)]


def _apply(m, p, w=1):
    v = list(p) + [Fr(w)]
    res = [sum(m[i][k] * v[k] for k in range(4)) for i in range(3)]
    mag = [sum(abs(m[i][k] * v[k]) for k in range(4)) for i in range(3)]
    return res, mag


def _near(x, want, mag):
    # relative to the size of the terms that were added up (no absolute floor: tiny scenes are judged as strictly as big ones)
    return abs(x - want) <= TOL * max(abs(want), mag)


def _inverse_clause(f, i, name):
    return (_prod_check(i, f, I4, "%s(inverse=True) @ %s(inverse=False) is not the identity" % (name, name))
            or _prod_check(f, i, I4, "%s(inverse=False) @ %s(inverse=True) is not the identity" % (name, name)))


TOL64, TOL32 = TOL, Fr(1, 10 ** 3)


def oracle(c, o):
    """all-float32 inputs are judged with a single-precision tolerance (float32 eps 6e-8 times the conditioning of the frame)"""
    global TOL
    TOL = TOL32 if c["kind"].endswith("_float32_oracle_only") else TOL64
    try:
        return _oracle(c, o)
    finally:
        TOL = TOL64


def _oracle(c, o):
    kind = _base(c["kind"])
    if c["kind"] == "w2v_extreme_unjudged":
        return None  # outside the magnitude domain (ASSUMPTIONS); the outcome is recorded in observed["extreme_outcome"]
    degenerate = c["kind"] in ("w2v_target_is_position", "w2v_up_parallel", "ortho_zero", "viewport_empty", "canvas_degenerate")
    if degenerate:
        return None  # outside the quantifier of the property (mirrored by the model, checked by the correspondence)
    for d in ("fwd", "inv"):
        if isinstance(o[d], dict):
            return "unexpected exception %s for inverse=%s: %s" % (o[d]["raise"], d == "inv", o[d].get("msg"))
        if not _finite(o[d]):
            return "non-finite entries for inverse=%s" % (d == "inv")
    if o.get("args_unchanged") is False:
        return "argument array was modified"
    if not o.get("repeat_same", True):
        return "the same call gave a different answer after the matrix returned first was edited in place: %s" % (
            json.dumps(o.get("repeat_detail"))[:300])
    f, i = _M(o["fwd"]), _M(o["inv"])
    # apply_transform(matrix)(points) is the homogeneous matrix-vector product (rows 0..2), stacked and single
    pts = _probe_points(c)
    imgs = o.get("probe_images")
    if isinstance(imgs, dict) or isinstance(o.get("probe_single"), dict):
        return "apply_transform raised on the returned matrix"
    if imgs is not None:
        for k, pt in enumerate(pts):
            want, mag = _apply(f, [Fr(float(x)) for x in pt])
            got = imgs[k]
            if not all(_near(Fr(float(got[j])), want[j], mag[j]) for j in range(3)):
                return "apply_transform(matrix)(%r) = %r is not the matrix-vector product %r" % (pt, got, [float(x) for x in want])
        want, mag = _apply(f, [Fr(float(x)) for x in pts[0]])
        if not all(_near(Fr(float(o["probe_single"][j])), want[j], mag[j]) for j in range(3)):
            return "apply_transform on a single point is not the matrix-vector product"
    if kind == "w2v":
        r = _inverse_clause(f, i, "world_to_view")
        if r:
            return r
        p, t, u = [[Fr(float(x)) for x in c[k]] for k in ("position", "target", "up")]
        if f[3] != [0, 0, 0, 1]:
            return "world_to_view: last row is not 0 0 0 1"
        for a in range(3):
            for b in range(3):
                s = sum(f[k][a] * f[k][b] for k in range(3))
                if abs(s - (1 if a == b else 0)) > TOL:
                    return "world_to_view is not distance preserving: (R^T R)[%d,%d] = %s" % (a, b, float(s))
        img, mag = _apply(f, p)
        if not all(_near(img[k], 0, mag[k]) for k in range(3)):
            return "world_to_view does not send the camera position to the origin: %s" % [float(x) for x in img]
        img, mag = _apply(f, t)
        d2 = sum((a - b) ** 2 for a, b in zip(t, p))
        if not (_near(img[0], 0, mag[0]) and _near(img[1], 0, mag[1])):
            return "world_to_view does not send the target onto the z axis: %s" % [float(x) for x in img]
        if img[2] <= 0:
            return "world_to_view sends the target to negative z: %s" % float(img[2])
        # the true-distance clause is judged on R (t - p): no cancellation against |position|, tolerance relative to the distance
        rel, rmag = _apply(f, [a - b for a, b in zip(t, p)], 0)
        if abs(rel[2] ** 2 - d2) > 4 * TOL * d2 or rel[2] <= 0:
            return "target is not at its true distance: R(t-p) has z=%s, |t-p|^2=%s" % (float(rel[2]), float(d2))
        if rel[0] ** 2 + rel[1] ** 2 > TOL * TOL * d2:
            return "R(t-p) is not on the z axis: %s" % [float(x) for x in rel]
        img, mag = _apply(f, u, 0)
        if not _near(img[0], 0, mag[0]) or abs(img[0]) > TOL * sum(abs(x) for x in u):
            return "up is not mapped into the y-z plane: x=%s" % float(img[0])
        if img[1] <= 0:
            return "up is mapped to non-positive y: %s" % float(img[1])
        return None
    if kind == "ortho":
        r = _inverse_clause(f, i, "view_to_orthographic_projection")
        if r:
            return r
        w, h, n, fa = [Fr(float(c[k])) for k in ("w", "h", "near", "far")]
        for sx in (-1, 1):
            for sy in (-1, 1):
                for z, wz in ((-n, -1), (-fa, 1)):
                    img, mag = _apply(f, [sx * w / 2, sy * h / 2, z])
                    for k, want in enumerate((sx, sy, wz)):
                        if not _near(img[k], want, mag[k]):
                            return ("orthographic: corner (%s,%s,%s) goes to %s, expected %s"
                                    % (float(sx * w / 2), float(sy * h / 2), float(z), [float(x) for x in img], [sx, sy, wz]))
        return None
    if kind == "viewport":
        xr, yb, xl, yt = [Fr(float(c[k])) for k in ("xr", "yb", "xl", "yt")]
        if xr != xl and yt != yb:
            r = _inverse_clause(f, i, "viewport_transform")
            if r:
                return r
        for sx, wx in ((-1, xl), (1, xr)):
            for sy, wy in ((-1, yb), (1, yt)):
                for z, wz in ((-1, 0), (1, 1)):
                    img, mag = _apply(f, [Fr(sx), Fr(sy), Fr(z)])
                    for k, want in enumerate((wx, wy, wz)):
                        if not _near(img[k], want, mag[k]):
                            return ("viewport: corner (%d,%d,%d) goes to %s, expected %s"
                                    % (sx, sy, z, [float(x) for x in img], [float(wx), float(wy), wz]))
        return None
    # canvas
    r = _inverse_clause(f, i, "world_to_canvas_orthographic_projection")
    if r:
        return r
    for name, m, order in (("stages_fwd", f, (2, 1, 0)), ("stages_inv", i, (0, 1, 2))):
        st = o[name]
        if isinstance(st, dict) or any(isinstance(s, dict) for s in st):
            return "a stage raised although the canvas projection did not"
        a, b, cc = [_M(st[k]) for k in order]
        ab = [[sum(a[x][k] * b[k][y] for k in range(4)) for y in range(4)] for x in range(4)]
        r = _prod_check(ab, cc, m, "canvas projection (%s) is not the three stages composed in order" %
                        ("inverse=False" if name == "stages_fwd" else "inverse=True"))
        if r:
            return r
    return None


def classify(c, o, failure, disagrees):
    return None
