"""C06 — Slicing a polyline by a plane keeps exactly the run in front, or refuses."""
import itertools
from fractions import Fraction as Fr

import numpy as np

from common import Kernel, call_impl, coq_bool, coq_list, flv, grid_vec, q, qv, rational_unit_normal

ID = "C06"
N_CASES = {"quick": 300, "thorough": 3000, "search": 2000}
SHARD = 200
MAXLEN = {"quick": 6, "thorough": 8, "search": 7}
RULE = ("every front/on/behind sign sequence of length 0..6 (quick) / 0..8 (thorough) x open/closed on an exact plane "
        "(axis-aligned or 22-bit dyadic normal, half-integer offsets, power-of-two scale) with distinct vertices, "
        "vertices 1..5 rounding steps off an axis plane next to the run (108 patterns x open/closed), vertices within "
        "rounding error of an OBLIQUE plane next to the run (264 in quick; sign-independent clauses only), unit-size "
        "polylines translated by 2^24..2^31 (axis plane, exact, judged relative to the scene size) and by 2^20..2^24 "
        "(float32-valued oblique normal, vertices exactly on the plane in real terms), integer-dtype "
        "vertex arrays, scales 2^-30..2^30 also in quick, "
        "plus seeded random polylines (<= 30 vertices, rational unit normals, repeated vertices, wrapped runs) and "
        "single-segment calls of intersect_segment_with_plane (in range, out of range, parallel, degenerate); "
        "non-trivial = the call returned a polyline; distinct by hash of inputs")
TRUSTED = ["Coq 8.16.1 kernel, vm_compute for the correspondence evaluation",
           "axioms (Print Assumptions): ClassicalDedekindReals.sig_forall_dec, sig_not_dec, "
           "FunctionalExtensionality.functional_extensionality_dep, Classical_Prop.classic (all Coq stdlib Reals)",
           "tools/symtrace.py tracing translator + numpy shim (re-validated numerically each run); 17 fixed-size traces of "
           "Polyline.sliced_by_plane (symbolic vertices and plane) tie the list-level model to the code per sign scenario",
           "coq/Agree.v agreement relation (tolerance 1e-9 relative to the input magnitude; sign sequences compared "
           "only when every |signed distance| > 1e-8 * magnitude unless arithmetic is exact)",
           "NumPy, vg"]
CASE_IMPORTS = [("PW.model", "M_plane"), ("PW.model", "M_polyline_base"), ("PW.model", "M_polyline_slice"),
           ("PW.model", "M_polyline_slice_spec")]
IMPORTS = CASE_IMPORTS
# theorems that only restate a definition of the specification / the literal flag of the model (closed by unfolding)
DEFINITIONAL = ["C06_extension_points", "C06_result_is_open", "C06_spec_vocabulary"]
ASSUMPTIONS = ["theorems are about exact real arithmetic. For vertices within rounding error of the plane (their side is "
               "whatever binary64 computes) nothing is proved: the sign-independent clauses (finite rows, not behind beyond "
               "rounding, only ValueError, open result) are checked on the sampled near_plane (axis-aligned, exact) and "
               "near_oblique streams; the classification-dependent clauses are not judged for them",
               "the model and theorems describe the code of /repo including the repairs b8558f7 (closed roll, "
               "fixes/C06-closed-slice.diff) and eedfc5c (crossing point from the signed distances, "
               "fixes/C06-crossing-from-signed-distances.diff)",
               "overflow corner, outside every stream (scales stop at 2^30): for |coordinate| above ~8.9e307 the difference "
               "d_p - d_q overflows and sliced_by_plane returns a NaN coordinate, e.g. Polyline([[-1e308,0,0],[1e308,0,0]]) "
               "sliced by x = 0 gives [[nan,0,0],[1e308,0,0]]; 1e200 and 1e-320 are fine. The literal reading of 'all "
               "coordinates finite for all polylines' fails there; recorded here, not repaired",
               "tolerances are relative to the largest |coordinate| of the case (reference point and vertices), without an "
               "absolute floor: values 1e-9 * mag, not-behind and the decision band 1e-8 * mag"]



def kernels():
    from polliwog import Plane
    from polliwog.plane import intersect_segment_with_plane
    from polliwog.polyline._slice_by_plane import slice_open_polyline_by_plane

    ks = []
    S, D, R_, N = "(V3 s0 s1 s2)", "(V3 d0 d1 d2)", "(V3 r0 r1 r2)", "(V3 m0 m1 m2)"
    # one segment, crossing inside the segment: the code's formula is the model's (non-zero denominator path)
    ks.append(Kernel(
        "xsect_single", {"s": [-1.0, 0.5, 2.0], "d": [4.0, 1.0, -2.0], "r": [0.5, 0.0, 1.0], "m": [1.0, 0.0, 0.0]},
        lambda s, d, r, m: intersect_segment_with_plane(s, d, r, m),
        """Lemma {T}_ok : forall {vars} : R, vdot ROps %s %s <> 0 -> {T}_path ROps {vars} ->
  intersect_segment_with_plane ROps %s %s %s %s = XPt (V3 (List.nth 0 ({T} ROps {vars}) 0) (List.nth 1 ({T} ROps {vars}) 0) (List.nth 2 ({T} ROps {vars}) 0)).
Proof. intros {vars} Hden Hpath. unfold {T}_path in Hpath. cbv zeta in Hpath. rops. path_facts Hpath.
  match goal with H1 : 0 <= ?u, H2 : ?u <= 1 |- _ =>
    assert (Et : xsect_t ROps %s %s %s %s = u) by (unfold xsect_t; cbv [vdot vsub vx vy vz]; rops; f_equal; ring) end.
  rewrite isp_point by (try exact Hden; rewrite Et; split; assumption).
  rewrite Et. unfold {T}. cbv zeta. cbn [List.nth]. rops. cbv [vadd vscale vx vy vz]. rops.
  first [reflexivity | (f_equal; apply V3_ext; ring)]. Qed.""" % (D, N, S, D, R_, N, S, D, R_, N),
        imports=IMPORTS + [("PW.proofs", "P_vec"), ("PW.proofs", "P_polyline_slice")]))
    ks.extend(_slice_kernels())
    return ks


# scenarios traced through the real Polyline.sliced_by_plane at fixed sizes: (pattern of Front / On / Behind, closed)
SLICE_SCENARIOS = [
    ("BFFB", False), ("OFB", False), ("FFB", False), ("BF", False), ("BOFFO", False), ("OBFB", False),
    ("BFF", True), ("FBBF", True), ("FFOB", True), ("OFF", True), ("BFB", True),
    # refusals
    ("FF", False), ("BOB", False), ("FBF", False), ("FFF", True), ("FBFB", True), ("", False),
]


def _expected_rows(pat, closed):
    """the property text for one sign pattern: None = ValueError, else a list of ("v", i) / ("x", a, b)"""
    n = len(pat)
    front = [ch == "F" for ch in pat]
    if n == 0 or not any(front) or all(front):
        return None
    cyc = closed and n > 1
    starts = [i for i in range(n) if front[i] and (not front[i - 1] if (cyc or i > 0) else True)]
    if len(starts) != 1:
        return None
    i0, cnt = starts[0], 0
    while cnt < n and front[(i0 + cnt) % n] and (cyc or i0 + cnt < n):
        cnt += 1
    run = [(i0 + j) % n for j in range(cnt)]
    before = (i0 - 1) % n if (cyc or i0 > 0) else None
    after = (i0 + cnt) % n if (cyc or i0 + cnt < n) else None
    rows = []
    if before is not None:
        rows.append(("v", before) if pat[before] == "O" else ("x", before, run[0]))
    rows.extend(("v", i) for i in run)
    if after is not None:
        rows.append(("v", after) if pat[after] == "O" else ("x", run[-1], after))
    return rows


def _slice_kernels():
    from polliwog import Plane, Polyline

    ref, nrm = [0.5, 0.25, -0.5], [0.6, 0.0, 0.8]
    off = {"F": 1.5, "B": -2.0, "O": 0.0}
    PL = "(MkPlane (V3 r0 r1 r2) (V3 m0 m1 m2))"
    ks = []
    for pat, closed in SLICE_SCENARIOS:
        n = len(pat)
        vs = [[ref[0] + off[ch] * nrm[0], ref[1] + (i + 1.0), ref[2] + off[ch] * nrm[2]] for i, ch in enumerate(pat)]
        V = ["(V3 v%d v%d v%d)" % (3 * i, 3 * i + 1, 3 * i + 2) for i in range(n)]
        exp = _expected_rows(pat, closed)
        name = "slice_%s_%s" % ("closed" if closed else "open", pat or "empty")

        def call(v=None, r=None, m=None, closed=closed, n=n):
            if v is None:
                v = np.zeros((0, 3))
            try:
                res = Polyline(v, is_closed=closed).sliced_by_plane(Plane(r, m))
                return (res.v, res.is_closed)
            except ValueError:
                return 1
            except IndexError:
                return 2

        sd_facts, sign_facts = [], []
        for i, ch in enumerate(pat):
            sd = "plane_sd ROps %s %s" % (PL, V[i])
            fact = {"F": "0 < %s" % sd, "B": "%s < 0" % sd, "O": "%s = 0" % sd}[ch]
            lem = {"F": "sign_pos", "B": "sign_neg", "O": "sign_zero"}[ch]
            val = {"F": "1", "B": "(-1)", "O": "0"}[ch]
            sd_facts.append("  assert (Hs%d : %s) by (cbv [plane_sd sd_eq plane_equation eq_normal ea eb ec ed pref pnormal vdot vx vy vz]; rops; lra)." % (i, fact))
            sign_facts.append("  assert (S%d : plane_sign ROps %s %s = %s%%Z) by (apply %s; exact Hs%d)." % (i, PL, V[i], val, lem, i))
        rew = ", ".join("?S%d" % i for i in range(n)) or "?Nat.add_0_r"
        poly = "(MkPolyline [%s] %s)" % ("; ".join(V), "true" if closed else "false")
        if n == 0:
            poly = "(MkPolyline (@nil (vec3 R)) false)"
        head = ("Definition xrow_coords (x : xrow R) : list R := match x with XPt v => vlist v | XNan => [] end.\n"
                "Ltac nz := repeat split; first [apply Rgt_not_eq; lra | apply Rlt_not_eq; lra].\n"
                "Ltac posnat := repeat match goal with |- context [Pos.to_nat ?p] => let k := eval compute in (Pos.to_nat p) in change (Pos.to_nat p) with k end.\n")
        evalm = ("  unfold sliced_polyline, sliced_by_plane, slice_any, slice_closed, closed_roll, slice_core.\n"
                 "  cbn -[crossing_row plane_sign]. do 8 (rewrite %s; posnat; cbn -[crossing_row plane_sign]).\n" % rew)
        if exp is None:
            lemma = (head + "Lemma {T}_ok : forall {vars} : R, {T}_path ROps {vars} ->\n"
                     "  sliced_polyline ROps %s %s = Raise ValueError.\n"
                     "Proof. intros {vars} Hpath. unfold {T}_path in Hpath. cbv zeta in Hpath. rops. path_facts Hpath.\n"
                     "%s\n%s\n%s  reflexivity. Qed." % (PL, poly, "\n".join(sd_facts), "\n".join(sign_facts), evalm))
            lemma = lemma.replace("forall  : R, ", "").replace("intros  Hpath", "intros Hpath")
            expect = 1
        else:
            rows = ["XPt %s" % V[e[1]] if e[0] == "v" else "XPt (crossing %s %s %s)" % (PL, V[e[1]], V[e[2]]) for e in exp]
            rows = "[%s]" % "; ".join(rows)
            lemma = (head + "Lemma {T}_ok : forall {vars} : R, {T}_path ROps {vars} ->\n"
                     "  sliced_polyline ROps %s %s = Ok (MkSliced %s false) /\\\n  {T} ROps {vars} = flat_map xrow_coords %s.\n"
                     "Proof. intros {vars} Hpath. unfold {T}_path in Hpath. cbv zeta in Hpath. rops. path_facts Hpath.\n"
                     "%s\n%s\n  split.\n  {\n%s"
                     "    rewrite ?crossing_row_is_point by (first [left; split; assumption | right; split; assumption]). reflexivity. }\n"
                     "  cbv [plane_sd sd_eq plane_equation eq_normal ea eb ec ed pref pnormal vdot vx vy vz] in *; rops.\n"
                     "  unfold {T}, crossing, crossing_t. cbv zeta.\n"
                     "  cbv [flat_map xrow_coords app vlist vadd vscale vsub vdot vx vy vz pref pnormal plane_sd sd_eq plane_equation eq_normal ea eb ec ed]; rops.\n"
                     "  list_eq ltac:(first [reflexivity | ring | (field; nz)]). Qed."
                     % (PL, poly, rows, rows, "\n".join(sd_facts), "\n".join(sign_facts), evalm))
            # structure of the returned value, fail-closed: a (k,3) array of expressions and the flag False (open)
            expect = {"tuple": [{"shape": [len(exp), 3], "data": ["e"] * (3 * len(exp))}, False]}
        inputs = {"v": vs, "r": ref, "m": nrm} if n else {"r": ref, "m": nrm}
        ks.append(Kernel(name, inputs, call, lemma, perturb=(0.0 if "O" in pat else 1e-9), expect_structure=expect, validate_n=4,
                         imports=IMPORTS + [("PW.proofs", "P_plane"), ("PW.proofs", "P_polyline_slice")]))
    return ks


# ---------------------------------------------------------------------------------------------------------
def _dyadic22(x):
    return round(x * 2 ** 22) / 2 ** 22


def _exact_frame(rng):
    """(normal, t1, t2): arithmetic with half-integer coefficients along these is exact in binary64."""
    ax = rng.randrange(3)
    if rng.random() < 0.6:
        nrm = [0.0, 0.0, 0.0]
        nrm[ax] = rng.choice([1.0, -1.0])
        t1 = [1.0 if j == (ax + 1) % 3 else 0.0 for j in range(3)]
        t2 = [1.0 if j == (ax + 2) % 3 else 0.0 for j in range(3)]
    else:
        a, b = rng.choice([(3, 4), (5, 12), (8, 15), (7, 24), (20, 21)])
        c = (a * a + b * b) ** 0.5
        a, b = _dyadic22(a / c) * rng.choice([1, -1]), _dyadic22(b / c) * rng.choice([1, -1])
        nrm = [0.0, 0.0, 0.0]
        nrm[(ax + 1) % 3], nrm[(ax + 2) % 3] = a, b
        t1 = [0.0, 0.0, 0.0]
        t1[(ax + 1) % 3], t1[(ax + 2) % 3] = -b, a
        t2 = [1.0 if j == ax else 0.0 for j in range(3)]
    return nrm, t1, t2


def _exact_polyline(rng, signs, scale, repeat=False):
    nrm, t1, t2 = _exact_frame(rng)
    ref = [x * scale for x in grid_vec(rng, -4, 4, 2)]
    vs = []
    for i, s in enumerate(signs):
        off = s * rng.choice([1, 2, 3, 5]) / 2 * scale
        # distinct vertices: the tangential coordinate advances with the index
        k1, k2 = (i + rng.choice([0, 0.5])) * scale, rng.randint(-4, 4) / 2 * scale
        vs.append([ref[j] + k1 * t1[j] + k2 * t2[j] + off * nrm[j] for j in range(3)])
    if repeat and len(vs) >= 2:
        i = rng.randrange(len(vs) - 1)
        vs[i + 1] = list(vs[i])
    return ref, nrm, vs


NEAR_PATTERNS = ["FFbB", "BFFb", "BfFF", "BBfFB", "bFFb", "FfB", "BFfB", "bfb", "BfB", "FbF", "OFb", "bFO", "FFb", "bFF",
                 "fb", "bf", "FbbB", "BbF"]


def _steps(x, k, up):
    for _ in range(k):
        x = float(np.nextafter(x, np.inf if up else -np.inf))
    return x


def _near_plane_cases(rng, tier):
    """Axis-aligned planes; vertices next to the run that are 1..5 rounding steps off the plane (their side is still
    exact: the subtraction x - ref is exact). The crossing parameter then rounds to exactly 0.0 or 1.0."""
    cases = []
    for pat in NEAR_PATTERNS:
        for closed in (False, True):
            for k in (1, 2, 5):
                ax = rng.randrange(3)
                sg = rng.choice([1.0, -1.0])
                scale = 2.0 ** rng.randint(-30, 30)
                r = rng.choice([0.5, 1.0, -1.5, 3.0, -0.75, 0.0 if rng.random() < 0.3 else 2.0]) * scale
                nrm = [0.0, 0.0, 0.0]
                nrm[ax] = sg
                ref = [x * scale for x in grid_vec(rng, -4, 4, 2)]
                ref[ax] = r
                vs = []
                for i, ch in enumerate(pat):
                    far = rng.choice([1.0, 1.5, 2.5]) * scale
                    if ch == "F":
                        x = r + sg * far
                    elif ch == "B":
                        x = r - sg * far
                    elif ch == "O":
                        x = r
                    else:
                        x = _steps(r, k, up=((ch == "f") == (sg > 0)))
                    p = [(i + 0.5) * scale, rng.randint(-4, 4) / 2 * scale, rng.randint(-4, 4) / 2 * scale]
                    p[ax] = x
                    # keep the three coordinates distinct roles: index runs along another axis
                    vs.append(p)
                cases.append({"kind": "near_plane", "exact": True, "closed": closed, "ref": ref, "normal": nrm, "v": vs})
    return cases


def _near_oblique_cases(rng, tier):
    """Oblique (non-dyadic) unit normals; the vertices marked `n` are projections of random points onto the plane,
    nudged by 0..3 rounding steps: their computed signed distance is a few 1e-16 with whatever sign binary64 gives.
    Their classification is not judged (exact=False, inside the band); finiteness, not-behind, ValueError-only are."""
    cases = []
    pats = ["nFn", "nFFn", "BnFnB", "nFB", "BFn", "FFn", "nFF", "nnFFnn", "FnF", "nFnB", "OFn"]
    reps = 24 if tier == "quick" else (120 if tier == "thorough" else 60)
    for _ in range(reps):
        for pat in pats:
            nrm = np.array([rng.uniform(-1, 1) for _ in range(3)])
            if np.linalg.norm(nrm) < 0.2:
                continue
            nrm = nrm / np.linalg.norm(nrm)
            scale = 2.0 ** rng.randint(-20, 20) if rng.random() < 0.3 else 1.0
            ref = np.array([rng.uniform(-8, 8) for _ in range(3)]) * scale
            vs = []
            for ch in pat:
                p = ref + np.array([rng.uniform(-8, 8) for _ in range(3)]) * scale
                sd = float(np.dot(p - ref, nrm))
                if ch == "F":
                    p = p - sd * nrm + rng.uniform(0.5, 3) * scale * nrm
                elif ch == "B":
                    p = p - sd * nrm - rng.uniform(0.5, 3) * scale * nrm
                else:
                    p = p - sd * nrm
                    if ch == "n":
                        for j in range(3):
                            p[j] = _steps(float(p[j]), rng.randint(0, 3), up=rng.random() < 0.5)
                vs.append([float(x) for x in p])
            cases.append({"kind": "near_oblique", "exact": False, "closed": rng.random() < 0.5, "ref": [float(x) for x in ref],
                          "normal": [float(x) for x in nrm], "v": vs})
    return cases


def _far_offset_cases(rng, tier):
    """A unit-size polyline on a dyadic grid translated by 2^24..2^31 per axis (every coordinate exact).
    far_offset_exact: axis-aligned plane, signed distances exact (coordinate differences), vertices exactly on the plane
    included; judged in full with a tolerance relative to the scene size (plus a few ulps of the coordinates).
    far_offset_oblique: float32-valued unit normal, translation 2^20..2^24, vertices exactly on the plane in real terms
    (reference + integer combinations of (b,-a,0), (0,c,-b)); dot(p,n) - dot(ref,n) must round there, so their side
    is rounding noise: sign-independent clauses and the clearly-in-front vertices are judged."""
    cases = []
    reps = 70 if tier == "quick" else 400
    for _ in range(reps):
        k = rng.randint(1, 7)
        signs = [rng.choice([-1, 0, 1, 1]) for _ in range(k)]
        closed = rng.random() < 0.5
        ax = rng.randrange(3)
        nrm = [0.0, 0.0, 0.0]
        nrm[ax] = rng.choice([1.0, -1.0])
        off = [rng.choice([1, -1]) * 2.0 ** rng.randint(24, 31) for _ in range(3)]
        ref = [o + rng.randint(-8, 8) / 8 for o in off]
        vs = []
        for i, sg in enumerate(signs):
            p = [off[0] + (i + rng.choice([0, 0.5])) / 4, off[1] + rng.randint(-8, 8) / 8, off[2] + rng.randint(-8, 8) / 8]
            p[ax], p[(ax + 1) % 3] = ref[ax] + nrm[ax] * sg * rng.choice([1, 2, 3, 5]) / 8, off[(ax + 1) % 3] + (i + rng.choice([0, 0.5])) / 4
            vs.append(p)
        cases.append({"kind": "far_offset_exact", "exact": True, "closed": closed, "ref": ref, "normal": nrm, "v": vs,
                      "feature": True})
    for _ in range(reps // 2):
        n3 = np.array([float(x) for x in rational_unit_normal(rng)])
        n3 = (n3 / np.linalg.norm(n3)).astype(np.float32).astype(np.float64)
        a, b, c3 = [float(x) for x in n3]
        off = [rng.choice([1, -1]) * 2.0 ** rng.randint(20, 24) for _ in range(3)]
        ref = [o + rng.randint(-8, 8) / 8 for o in off]
        pat = rng.choice(["OFB", "BFO", "OFFO", "BOFB", "FFO", "OFF", "BFOB", "OFOB", "OOFB"])
        vs = []
        for ch in pat:
            i, j = rng.randint(-8, 8), rng.randint(-8, 8)
            p = [ref[0] + (i * b) / 8, ref[1] + (-i * a + j * c3) / 8, ref[2] + (-j * b) / 8]
            d = {"F": rng.choice([1.0, 2.0, 3.0]), "B": -rng.choice([1.0, 2.0, 3.0]), "O": 0.0}[ch]
            vs.append([x + d * y for x, y in zip(p, (a, b, c3))])
        cases.append({"kind": "far_offset_oblique", "exact": False, "closed": rng.random() < 0.5, "ref": ref,
                      "normal": [a, b, c3], "v": vs})
    return cases


def gen_cases(rng, n, tier):
    cases = _near_plane_cases(rng, tier) + _near_oblique_cases(rng, tier) + _far_offset_cases(rng, tier)
    if True:
        for k in range(0, MAXLEN[tier] + 1):
            for signs in itertools.product((-1, 0, 1), repeat=k):
                for closed in (False, True):
                    wide = tier == "thorough" or rng.random() < 0.15
                    scale = 2.0 ** rng.randint(-30, 30) if wide else 2.0 ** rng.randint(-10, 10)
                    ref, nrm, vs = _exact_polyline(rng, signs, scale)
                    cases.append({"kind": "signs_closed" if closed else "signs_open", "exact": True, "closed": closed,
                                  "ref": ref, "normal": nrm, "v": vs})
    for i in range(n):
        u = rng.random()
        scale = 2.0 ** rng.randint(-30, 30) if (tier == "thorough" or rng.random() < 0.15) else 2.0 ** rng.randint(-10, 10)
        closed = rng.random() < 0.5
        if u < 0.35:
            # long exact polylines, mostly with one run (possibly wrapped), sometimes two
            k = rng.randint(7, 30)
            a, b = sorted(rng.sample(range(k + 1), 2))
            signs = [1 if a <= j < b else rng.choice([-1, -1, 0]) for j in range(k)]
            if rng.random() < 0.4:
                r = rng.randrange(k)
                signs = signs[r:] + signs[:r]
            if rng.random() < 0.15:
                signs[rng.randrange(k)] = 1
            ref, nrm, vs = _exact_polyline(rng, signs, scale, repeat=rng.random() < 0.3)
            cases.append({"kind": "long_exact", "exact": True, "closed": closed, "ref": ref, "normal": nrm, "v": vs})
        elif u < 0.45:
            # exactly one vertex not in front / all in front / none in front (closed and open)
            k = rng.randint(1, 12)
            mode = rng.choice(["one_nonfront", "all_front", "no_front"])
            signs = [1] * k if mode != "no_front" else [rng.choice([-1, 0]) for _ in range(k)]
            if mode == "one_nonfront":
                signs[rng.randrange(k)] = rng.choice([-1, 0])
            ref, nrm, vs = _exact_polyline(rng, signs, scale)
            cases.append({"kind": mode, "exact": True, "closed": closed, "ref": ref, "normal": nrm, "v": vs})
            if rng.random() < 0.5:
                # the same kind of input as integer arrays (axis plane, integer coordinates)
                ax = rng.randrange(3)
                nrm = [0.0, 0.0, 0.0]
                nrm[ax] = rng.choice([1.0, -1.0])
                ref = [float(rng.randint(-3, 3)) for _ in range(3)]
                k = rng.randint(2, 9)
                vs = []
                for j in range(k):
                    pt = [float(j), float(rng.randint(-3, 3)), float(rng.randint(-3, 3))]
                    pt[ax], pt[(ax + 1) % 3] = float(rng.randint(-3, 3)), float(j)
                    vs.append(pt)
                cases.append({"kind": "int_dtype", "exact": True, "closed": closed, "ref": ref, "normal": nrm, "v": vs,
                              "int": True})
        elif u < 0.75:
            # generic plane (oblique unit normal, nothing exact in binary64); mostly one run (possibly wrapped), sides
            # clear of the rounding band so that the whole specification is judged
            nrm = np.array([float(x) for x in rational_unit_normal(rng)]) if rng.random() < 0.5 else \
                np.array([rng.uniform(-1, 1) for _ in range(3)]) + np.array([0.0, 0.0, 1.5])
            nrm = nrm / np.linalg.norm(nrm)
            ref = np.array([x * scale for x in grid_vec(rng)])
            k = rng.randint(2, 30)
            if rng.random() < 0.8:
                a0, b0 = sorted(rng.sample(range(k + 1), 2))
                signs = [1 if a0 <= j < b0 else -1 for j in range(k)]
                r0 = rng.randrange(k)
                signs = signs[r0:] + signs[:r0]
            else:
                signs = [rng.choice([1, -1]) for _ in range(k)]
            vs = []
            for sgn in signs:
                p = ref + np.array([rng.uniform(-4, 4) for _ in range(3)]) * scale
                p = p - float(np.dot(p - ref, nrm)) * nrm + sgn * rng.uniform(0.3, 3) * scale * nrm
                vs.append([float(x) for x in p])
            if rng.random() < 0.25 and k >= 2:
                j = rng.randrange(k - 1)
                vs[j + 1] = list(vs[j])  # repeated vertex
            c = {"kind": "generic", "exact": False, "closed": closed, "ref": [float(x) for x in ref],
                 "normal": [float(x) for x in nrm], "v": vs}
            if expected_slice(_F(c["ref"]), _F(c["normal"]), [_F(p) for p in vs], closed, False)[0] == "undecided":
                c["kind"] = "generic_undecided"  # only the sign-independent clauses are judged
            cases.append(c)
        else:
            # one segment against an axis-aligned plane: dyadic t, in range / out of range / parallel / degenerate
            ax = rng.randrange(3)
            nrm = [0.0, 0.0, 0.0]
            nrm[ax] = rng.choice([1.0, -1.0])
            start = [x * scale for x in grid_vec(rng)]
            seg = [x * scale for x in grid_vec(rng)]
            seg[ax] = rng.choice([0.0, 0.0, 0.5, -0.5, 1.0, -1.0, 2.0, -2.0, 4.0, -4.0]) * scale
            ref = [x * scale for x in grid_vec(rng)]
            if rng.random() < 0.3:
                ref[ax] = start[ax]  # start on the plane (t = 0, or 0/0 when parallel too)
            cases.append({"kind": "xsect", "start": start, "seg": seg, "ref": ref, "normal": nrm})
    return cases


def run_impl(c):
    from polliwog import Plane, Polyline
    from polliwog.plane import intersect_segment_with_plane

    def go():
        if c["kind"] == "xsect":
            with np.errstate(all="ignore"):
                r = intersect_segment_with_plane(np.array(c["start"]), np.array(c["seg"]), np.array(c["ref"]),
                                                 np.array(c["normal"]))
            return {"row": r.tolist()}
        pl = Plane(np.array(c["ref"]), np.array(c["normal"]))
        v = np.array(c["v"], dtype=np.int64 if c.get("int") else np.float64).reshape(-1, 3)
        before = v.copy()
        p = Polyline(v, is_closed=c["closed"])
        with np.errstate(all="ignore"):
            r = p.sliced_by_plane(pl)
            # the same object asked again must answer the same (no state carried between calls)
            try:
                r2 = p.sliced_by_plane(pl)
                again = bool(np.array_equal(r.v, r2.v, equal_nan=True)) and r2.is_closed == r.is_closed
            except Exception:
                again = False
        return {"v": np.asarray(r.v, dtype=np.float64).tolist(), "is_closed": bool(r.is_closed), "ref": pl.reference_point.tolist(),
                "normal": pl.normal.tolist(), "second_call_same": again,
                "args_unchanged": bool(np.array_equal(before, v)) and bool(np.array_equal(p.v, before))}

    return call_impl(go)


def coq_case(c, o):
    if c["kind"] == "xsect":
        if "raise" in o:
            return "CXsect (V3 0 0 0) (V3 0 0 0) (V3 0 0 0) (V3 0 0 0) []"
        return "CXsect %s %s %s %s %s" % (qv(c["start"]), qv(c["seg"]), qv(c["ref"]), qv(c["normal"]), flv(o["row"]))
    if "raise" in o:
        obs = "(Raise %s)" % o["raise"]
    else:
        obs = "(Ok (OSlice %s %s))" % (coq_list(flv(r) for r in o["v"]), coq_bool(o["is_closed"]))
    pl = "(MkPlane %s %s)" % (qv(c["ref"]), qv(c["normal"]))
    if c.get("feature"):
        return "CSliceFeat %s %s %s %s %s" % (q(_feature_mag(c)), coq_bool(c["closed"]), pl, coq_list(qv(p) for p in c["v"]), obs)
    return "CSlice %s %s %s %s %s" % (coq_bool(c["exact"]), coq_bool(c["closed"]), pl, coq_list(qv(p) for p in c["v"]), obs)


def _feature_mag(c):
    """scene size + 2^-20 of the coordinate magnitude: 1e-9 of it is 1e-9 * size + about 4 ulps of a coordinate"""
    vs = [_F(p) for p in c["v"]] + [_F(c["ref"])]
    size = max(abs(x - y) for p in vs for r in vs for x, y in zip(p, r))
    mag = max(abs(x) for p in vs for x in p)
    return size + mag / 2 ** 20


# ---------------------------------------------------------------------------------------------------------
def _F(v):
    return [Fr(float(x)) for x in v]


def _dot(a, b):
    return sum(x * y for x, y in zip(a, b))


def expected_slice(ref, nrm, vs, closed, exact):
    """The property text, in exact arithmetic. Returns ("undecided",) | ("ValueError",) | ("ok", points, (i0, count))
    where points are exact Fractions and the run starts at vertex i0."""
    n = len(vs)
    mag = max([Fr(0)] + [abs(x) for x in ref] + [abs(x) for p in vs for x in p])
    sds = [_dot([a - b for a, b in zip(p, ref)], nrm) for p in vs]
    if not exact and any(abs(s) <= Fr(1, 10 ** 8) * mag for s in sds):
        return ("undecided",)
    sg = [1 if s > 0 else (-1 if s < 0 else 0) for s in sds]
    front = [s == 1 for s in sg]
    if n == 0 or not any(front) or all(front):
        return ("ValueError",)
    cyc = closed and n > 1
    # starts of maximal runs
    starts = [i for i in range(n) if front[i] and ((not front[i - 1]) if (i > 0 or cyc) else True)]
    if not cyc:
        starts = [i for i in range(n) if front[i] and (i == 0 or not front[i - 1])]
    if len(starts) != 1:
        return ("ValueError",)
    i0 = starts[0]
    cnt = 0
    while cnt < n and front[(i0 + cnt) % n] and (cyc or i0 + cnt < n):
        cnt += 1
    run = [(i0 + j) % n for j in range(cnt)]

    def cross(a, b):
        sa, sb = sds[a], sds[b]
        t = -sa / (sb - sa)
        return [x + t * (y - x) for x, y in zip(vs[a], vs[b])]

    pts = []
    before = (i0 - 1) % n if (cyc or i0 > 0) else None
    after = (i0 + cnt) % n if (cyc or i0 + cnt < n) else None
    if before is not None:
        pts.append(list(vs[before]) if sg[before] == 0 else cross(before, run[0]))
    pts.extend(list(vs[i]) for i in run)
    if after is not None:
        pts.append(list(vs[after]) if sg[after] == 0 else cross(run[-1], after))
    return ("ok", pts, run, before is not None, mag, sds)


def _sign_independent(c, o, ref, nrm, vs):
    """only ValueError may be raised; a returned polyline is open, finite, nowhere behind the plane beyond rounding,
    made of at least one vertex; the arguments are untouched and a second call agrees"""
    if "raise" in o:
        return None if o["raise"] == "ValueError" else "raised %s (%s); only ValueError is allowed" % (o["raise"], o.get("msg"))
    if o["is_closed"]:
        return "result is a closed polyline"
    if not o["args_unchanged"]:
        return "input vertices were modified"
    if not o["second_call_same"]:
        return "a second call on the same polyline gave a different answer"
    mag = max([Fr(0)] + [abs(x) for x in ref] + [abs(x) for p in vs for x in p])
    for i, r in enumerate(o["v"]):
        if any(x != x or x in (float("inf"), float("-inf")) for x in r):
            return "row %d is not finite: %r" % (i, r)
        sd = _dot([Fr(a) - b for a, b in zip(r, ref)], nrm)
        if sd < -Fr(1, 10 ** 8) * (_feature_mag(c) if c.get("feature") else mag):
            return "row %d is behind the plane (signed distance %g)" % (i, float(sd))
    if len(o["v"]) == 0:
        return "returned an empty polyline"
    return None


def _undecided_content(c, o, ref, nrm, vs):
    """Some vertex is within rounding error of the plane, so the run and the refusals cannot be told; but whatever side
    binary64 gives those vertices, every vertex that is CLEARLY in front belongs to the run: if a polyline is returned
    it contains each of them bit-identically, in path order (cyclically for a closed polyline)."""
    if "raise" in o:
        return None
    mag = max([Fr(0)] + [abs(x) for x in ref] + [abs(x) for p in vs for x in p])
    sds = [_dot([a - b for a, b in zip(p, ref)], nrm) for p in vs]
    front = [i for i, sd in enumerate(sds) if sd > Fr(1, 10 ** 8) * mag]
    rows = o["v"]
    where = []
    for i in front:
        js = [j for j, r in enumerate(rows) if r == c["v"][i]]
        if not js:
            return "vertex %d is clearly in front (signed distance %g) but is not in the returned polyline" % (i, float(sds[i]))
        where.append(js)
    if all(len(js) == 1 for js in where):
        seq = [js[0] for js in where]
        descents = sum(1 for a, b in zip(seq, seq[1:]) if a >= b)
        if descents > (1 if (c["closed"] and len(vs) > 1) else 0):
            return "the vertices clearly in front are not returned in path order (row positions %r)" % seq
    return None


def oracle(c, o):
    if c["kind"] == "xsect":
        if "raise" in o:
            return "intersect_segment_with_plane raised %s" % o["raise"]
        return None
    ref, nrm, vs = _F(c["ref"]), _F(c["normal"]), [_F(p) for p in c["v"]]
    # clauses that do not depend on how the vertices are classified are judged first, for every case - also when a
    # vertex is within rounding error of the plane and its side is whatever binary64 computes
    bad = _sign_independent(c, o, ref, nrm, vs)
    if bad:
        return bad
    exp = expected_slice(ref, nrm, vs, c["closed"], c["exact"])
    if exp[0] == "undecided":
        return _undecided_content(c, o, ref, nrm, vs)
    if "raise" in o:
        if exp[0] == "ValueError":
            return None if o["raise"] == "ValueError" else "raised %s where ValueError is demanded (%s)" % (o["raise"], o.get("msg"))
        return "raised %s but exactly one run of vertices is in front and the polyline is not wholly in front" % o["raise"]
    if exp[0] == "ValueError":
        return "returned a polyline with %d vertices where ValueError is demanded" % len(o["v"])
    _, pts, run, has_before, mag, sds = exp
    if o["is_closed"]:
        return "result is a closed polyline"
    if not o["args_unchanged"]:
        return "input vertices were modified"
    if not o["second_call_same"]:
        return "a second call on the same polyline gave a different answer"
    rows = o["v"]
    if len(rows) != len(pts):
        return "result has %d vertices, the run in front with its extensions has %d" % (len(rows), len(pts))
    tol = Fr(1, 10 ** 9) * (_feature_mag(c) if c.get("feature") else mag)
    for i, (r, p) in enumerate(zip(rows, pts)):
        if any(x != x or x in (float("inf"), float("-inf")) for x in r):
            return "row %d is not finite: %r" % (i, r)
        if any(abs(Fr(x) - y) > tol for x, y in zip(r, p)):
            return "row %d is %r, expected %r" % (i, r, [float(y) for y in p])
        sd = _dot([Fr(a) - b for a, b in zip(r, ref)], nrm)
        if sd < -Fr(1, 10 ** 8) * mag:
            return "row %d is behind the plane (signed distance %g)" % (i, float(sd))
    off = 1 if has_before else 0
    for j, vi in enumerate(run):
        if rows[off + j] != c["v"][vi]:
            return "interior vertex %d is not bit-identical to input vertex %d" % (off + j, vi)
    return None


def classify(c, o, failure, disagrees):
    return None
