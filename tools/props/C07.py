"""C07 — Polyline.nearest is the true closest point; sub-path selection builds on it."""
import math
import warnings
from fractions import Fraction as Fr

import numpy as np

from common import Kernel, call_impl, coq_bool, coq_list, coq_nat, fl, flv, grid_vec, q, qv

ID = "C07"
N_CASES = {"quick": 360, "thorough": 5000, "search": 3000}
SHARD = 60
RULE = ("seeded streams: nearest on exact polylines (segment vectors with power-of-two squared length, repeated vertices, "
        "half-integer query grid: many exact ties), nearest on generic grid polylines at power-of-two scales, all 8 flag "
        "subsets, single and stacked queries, zero-segment polylines; pairwise closest_point/is_point_on_line_segment "
        "incl. zero-length segments; sliced_at_points / aligned_along_subsegment on simple open chains and star-shaped "
        "closed polygons with well-separated queries; non-trivial = the call returned values; distinct by hash of inputs")
TRUSTED = ["Coq 8.16.1 kernel, vm_compute for the correspondence evaluation",
           "axioms (Print Assumptions): ClassicalDedekindReals.sig_forall_dec, sig_not_dec, "
           "FunctionalExtensionality.functional_extensionality_dep, Classical_Prop.classic (all Coq stdlib Reals)",
           "tools/symtrace.py tracing translator + numpy shim (re-validated numerically each run)",
           "coq/Agree.v agreement relation (relative tolerance 1e-9); segment index / t / point compared only for queries "
           "whose winning segment cannot be changed by rounding (K_C07.decided_query)",
           "NumPy, vg"]
CASE_IMPORTS = [("PW.model", "M_polyline_base"), ("PW.model", "M_segment"), ("PW.model", "M_polyline_nearest")]
# case analyses / unfoldings of the model's own definitions (nearest_ret, aligned_flip): shape of the model only
DEFINITIONAL = ["C07_pairwise_is_rowwise", "C07_nearest_returns_requested_partial", "C07_aligned_along_subsegment_decision"]
ASSUMPTIONS = ["theorems are about exact real arithmetic; binary64 rounding is covered only by the tolerance of the "
               "correspondence check on sampled inputs",
               "sub-path clauses are proved about the ORIGINAL polyline under hypotheses that formalise the property's domain "
               "(b's, for alignment also p1's, nearest point is the unique minimiser = the polyline does not touch itself there; "
               "nearest points not within the code's 1e-8 vertex tolerance of a vertex or of each other): sliced_at_points for open "
               "polylines (C07_sliced_at_points_open_spec) and for closed polylines incl. the closing edge and wrap-around "
               "(C07_sliced_at_points_closed_spec / _explicit); aligned_along_subsegment with its post-condition, open (sub-path "
               "runs forward, no refusal) and closed (shorter way round) (C07_aligned_along_subsegment_open_spec / _closed_spec)",
               "two query points whose nearest points are within 1e-8 of each other: the code returns the single vertex "
               "[nearest(a)] (no refusal, also on an open polyline); accepted as the degenerate sub-path (stream sliced_*_near_pair, "
               "generated at coordinate magnitudes <= 64 only: the tolerance is absolute, at ~1e9 rounding alone exceeds it and the "
               "outcome for coincident nearest points is ill-conditioned, e.g. the whole loop on a closed polyline)",
               "magnitudes: the theorems are about exact reals; in binary64 the squared segment lengths must neither overflow nor "
               "underflow (coordinates roughly within 1e-150 .. 1e150). Outside that range nearest returns t = 0 with distance inf, "
               "or distance 0 for every query; the stream nearest_extreme_magnitude records this behaviour and is NOT judged",
               "nearest: values of a stacked case are compared per query; queries whose winning segment rounding could "
               "change are skipped individually (K_C07.decided_query)"]

_IMPORTS = [("PW.model", "M_polyline_base"), ("PW.model", "M_segment"), ("PW.model", "M_polyline_nearest"),
            ("PW.proofs", "P_segment")]


# ---------------------------------------------------------------------------------------------------------
def kernels():
    from polliwog import Polyline
    from polliwog.segment import closest_point_of_line_segment, is_point_on_line_segment

    ks = []
    P, A, V = "(V3 p0 p1 p2)", "(V3 a0 a1 a2)", "(V3 v0 v1 v2)"

    def cp(p, a, v):
        return closest_point_of_line_segment(p.reshape(1, 3), a.reshape(1, 3), v.reshape(1, 3), ret_t_values=True)

    TM = "((p0 - a0) * v0 + (p1 - a1) * v1 + (p2 - a2) * v2) / (v0 * v0 + v1 * v1 + v2 * v2)"
    # generic script: name the projection parameter, rewrite every quotient of the trace into it (by `field`, so a
    # re-associated but equal formula still checks), decide the clamps from the path condition
    script = """unfold {T}_path in Hpath; rops. path_facts Hpath.
  unfold {T}, on_segment, sqdist, closest_point, closest_t, clip01, nmin, nmax, n0, n1.
  cbv [vlist vnorm2 vadd vscale vsub vdot vx vy vz app]; rops.
  destruct (Reqb_spec (v0 * v0 + v1 * v1 + v2 * v2) 0) as [Hz|_]; [contradiction|].
  set (tm := %s).
  repeat match goal with
  | H : context [?n / ?d] |- _ => progress (replace (n / d) with tm in * by (unfold tm; field; exact Hd))
  | |- context [?n / ?d] => progress (replace (n / d) with tm in * by (unfold tm; field; exact Hd))
  end.
  clearbody tm.
  repeat match goal with
  | |- context [Rleb ?x ?y] => destruct (Rleb_spec x y)
  | H : context [Rleb ?x ?y] |- _ => destruct (Rleb_spec x y)
  end; try (exfalso; lra); try (assert (tm = 0) by lra; subst tm); try (assert (tm = 1) by lra; subst tm);""" % TM
    lemma = """Lemma {T}_ok : forall {vars} : R, v0 * v0 + v1 * v1 + v2 * v2 <> 0 -> {T}_path ROps {vars} ->
  {T} ROps {vars} = vlist (closest_point ROps %s %s %s) ++ [closest_t ROps %s %s %s].
Proof. intros {vars} Hd Hpath. %s
  list_eq ltac:(first [reflexivity | ring]). Qed.
(* the property itself on the regenerated definition: the traced point is at least as close as any point of the segment *)
Lemma {T}_optimal : forall {vars} s : R, v0 * v0 + v1 * v1 + v2 * v2 <> 0 -> {T}_path ROps {vars} -> 0 <= s <= 1 ->
  match {T} ROps {vars} with
  | [c0; c1; c2; _] => sqdist ROps (V3 c0 c1 c2) %s <= sqdist ROps (vadd ROps %s (vscale ROps s %s)) %s
  | _ => False end.
Proof. intros {vars} s Hd Hpath Hs. rewrite ({T}_ok {vars} Hd Hpath). cbn [vlist app].
  rewrite <- V3_eta_seg. apply closest_point_optimal. exact Hs. Qed.""" % (P, A, V, P, A, V, script, P, A, V, P)
    # clamped scenarios: the t value comes back as the concrete 0 / 1 (pinned by expect_structure)
    lemma_clamped = """Lemma {T}_ok : forall {vars} : R, v0 * v0 + v1 * v1 + v2 * v2 <> 0 -> {T}_path ROps {vars} ->
  {T} ROps {vars} = vlist (closest_point ROps %s %s %s) /\\ closest_t ROps %s %s %s = TVAL.
Proof. intros {vars} Hd Hpath. split.
  - %s
    list_eq ltac:(first [reflexivity | ring]).
  - %s
    try reflexivity; lra. Qed.
Lemma {T}_optimal : forall {vars} s : R, v0 * v0 + v1 * v1 + v2 * v2 <> 0 -> {T}_path ROps {vars} -> 0 <= s <= 1 ->
  match {T} ROps {vars} with
  | [c0; c1; c2] => sqdist ROps (V3 c0 c1 c2) %s <= sqdist ROps (vadd ROps %s (vscale ROps s %s)) %s
  | _ => False end.
Proof. intros {vars} s Hd Hpath Hs. rewrite (proj1 ({T}_ok {vars} Hd Hpath)). cbn [vlist].
  rewrite <- V3_eta_seg. apply closest_point_optimal. exact Hs. Qed.""" % (P, A, V, P, A, V, script, script, P, A, V, P)
    pre = "Lemma V3_eta_seg (c : vec3 R) : c = V3 (vx c) (vy c) (vz c).\nProof. destruct c; reflexivity. Qed.\n"
    for name, pval, tval in (("closest_before", [-2.0, 1.0, 0.5], 0), ("closest_inside", [1.0, 1.5, -0.5], None),
                             ("closest_after", [5.0, 2.0, 1.0], 1)):
        if tval is None:
            lem, st = lemma, {"tuple": [{"shape": [1, 3], "data": ["e", "e", "e"]}, {"shape": [1], "data": ["e"]}]}
        else:
            lem = lemma_clamped.replace("TVAL", str(tval))
            # clamped: the t value is the literal 0 / 1 in the traced run and the float 0.0 / 1.0 in the validation run, so
            # only the point is taken as output; that t is 0 / 1 is the second conjunct of the lemma (from the path)
            st = {"shape": [1, 3], "data": ["e", "e", "e"]}
        ks.append(Kernel(name, {"p": pval, "a": [0.5, 0.25, 0.0], "v": [2.0, 1.0, 0.5]},
                         cp if tval is None else (lambda p, a, v: cp(p, a, v)[0]), pre + lem, imports=_IMPORTS,
                         expect_structure=st))

    # is_point_on_line_segment: concrete boolean; the decided comparison is the model's
    def on(p, a, v, e):
        c = closest_point_of_line_segment(p.reshape(1, 3), a.reshape(1, 3), v.reshape(1, 3))
        # same expression as the source, with a symbolic epsilon (the source insists on a Python float)
        return np.sum(np.square(c - p.reshape(1, 3)), axis=1) <= e[0] ** 2

    ks.append(Kernel(
        "on_segment_inside", {"p": [1.0, 1.5, -0.5], "a": [0.5, 0.25, 0.0], "v": [2.0, 1.0, 0.5], "e": [2.0]}, on,
        """Lemma {T}_ok : forall {vars} : R, v0 * v0 + v1 * v1 + v2 * v2 <> 0 -> {T}_path ROps {vars} ->
  on_segment ROps %s %s %s e0 = true.
Proof. intros {vars} Hd Hpath. %s
  try reflexivity; exfalso; nra. Qed.""" % (P, A, V, script),
        imports=_IMPORTS, expect_structure={"shape": [1], "dtype": "bool", "data": [True]}))

    return ks + _list_kernels()


# list-level ties: Polyline.nearest at fixed small sizes, symbolic vertices and queries, one kernel per scenario
# (which segment wins, whether t is clamped); square roots kept as atoms
_LIMPORTS = [("PW.model", "M_polyline_base"), ("PW.model", "M_segment"), ("PW.model", "M_polyline_nearest"),
            ("PW.proofs", "P_vec"), ("PW.proofs", "P_polyline_tie")]
def _seg_exprs(k, q):
    a = ["v%d" % (3 * k + j) for j in range(3)]
    b = ["v%d" % (3 * k + 3 + j) for j in range(3)]
    p = ["p%d" % (3 * q + j) for j in range(3)]
    d = " + ".join("(%s - %s) * (%s - %s)" % (b[j], a[j], b[j], a[j]) for j in range(3))
    n = " + ".join("(%s - %s) * (%s - %s)" % (p[j], a[j], b[j], a[j]) for j in range(3))
    return n, d


def _near_kernel(name, verts, queries, idx, t_concrete=None):
    from polliwog import Polyline
    nseg, nq = len(verts) - 1, len(queries)
    V = lambda i: "(V3 v%d v%d v%d)" % (3 * i, 3 * i + 1, 3 * i + 2)
    P = lambda i: "(V3 p%d p%d p%d)" % (3 * i, 3 * i + 1, 3 * i + 2)
    PL = "(MkPolyline [%s] false)" % "; ".join(V(i) for i in range(len(verts)))
    hyps = " -> ".join("%s <> 0" % _seg_exprs(k, 0)[1] for k in range(nseg))
    sets, reps = [], []
    for q in range(nq):
        for k in range(nseg):
            n, d = _seg_exprs(k, q)
            sets.append("set (tm%d_%d := (%s) / (%s)) in *." % (q, k, n, d))
            reps.append("progress (replace (n / d) with tm%d_%d in * by (unfold tm%d_%d; field; first [assumption | intro; lra]))" % (q, k, q, k))
    first = "first [%s]" % "\n      | ".join(reps)
    single = nq == 1
    call0 = (lambda v, p: Polyline(v).nearest(p if not single else p[0], ret_segment_indices=True, ret_distances=True, ret_t_values=True))
    # clamped winner: t is the literal 0 in the traced run (float 0.0 in the validation run): keep point, index, distance
    call = call0 if t_concrete is None else (lambda v, p: call0(v, p)[:3])
    # flattened result: points, (indices concrete), distances, t values
    model = ("rmap (fun rs => flat_map (fun r => vlist (n_pt r)) rs ++ map n_d rs ++ map n_t rs) (nearest_many ROps %s [%s])"
             % (PL, "; ".join(P(q) for q in range(nq))))
    idxs = "[%s]" % "; ".join("%d%%nat" % i for i in idx)
    lemma = """Lemma {T}_ok : forall {vars} : R, %s -> {T}_path ROps {vars} ->
  %s = Ok ({T} ROps {vars}%s) /\\
  rmap (map n_idx) (nearest_many ROps %s [%s]) = Ok %s.
Proof. intros {vars} %s Hpath. unfold {T}_path in Hpath; rops. path_facts Hpath.
  unfold {T}.
  cbv [nearest_many nearest_one cons_res hits seg_hit_of pl_segments pv pclosed zip app map flat_map closest_point closest_t clip01
       nmin nmax seg_vector amin_by amin_step h_d h_t h_pt n_pt n_d n_t n_idx rmap fst snd
       vnorm vnorm2 vadd vsub vscale vdot vlist vx vy vz n0 n1]; rops.
  repeat match goal with |- context [Reqb ?a 0] => destruct (Reqb_spec a 0); [contradiction|] end.
  %s
  repeat match goal with
  | H : context [?n / ?d] |- _ => %s
  | |- context [?n / ?d] => %s
  end.
  clearbody %s.
  repeat match goal with
  | |- context [Rleb ?a 0] => destruct (Rleb_spec a 0); try (exfalso; lra)
  | |- context [Rleb ?a 1] => destruct (Rleb_spec a 1); try (exfalso; lra)
  end.
  all: repeat match goal with
  | H1 : ?t <= 0, H2 : 0 <= ?t |- _ => is_var t; assert (t = 0) by lra; subst t
  end.
  all: sqrt_atoms.
  all: repeat match goal with
  | |- context [Rleb ?a ?b] => destruct (Rleb_spec a b); try (exfalso; lra)
  | |- context [Rltb ?a ?b] => destruct (Rltb_spec a b); try (exfalso; lra)
  end.
  all: split; [f_equal; list_eq ltac:(first [reflexivity | ring | lra]) | reflexivity]. Qed.""" % (
        hyps, model, "" if t_concrete is None else " ++ [%d]" % t_concrete, PL, "; ".join(P(q) for q in range(nq)), idxs,
        " ".join("Hd%d" % k for k in range(nseg)), "\n  ".join(sets), first, first,
        " ".join("tm%d_%d" % (q, k) for q in range(nq) for k in range(nseg)))
    if single:
        st = {"tuple": [{"shape": [3], "data": ["e"] * 3}, idx[0], "e"] + (["e"] if t_concrete is None else [])}
    else:
        st = {"tuple": [{"shape": [nq, 3], "data": ["e"] * (3 * nq)}, {"shape": [nq], "dtype": "int64", "data": idx},
                        {"shape": [nq], "data": ["e"] * nq}, {"shape": [nq], "data": ["e"] * nq}]}
    return Kernel(name, {"v": verts, "p": queries}, call, lemma, imports=_LIMPORTS, expect_structure=st, timeout=120)


def _list_kernels():
    VS = [[0.0, 0.0, 0.0], [2.0, 0.0, 0.0], [2.0, 2.0, 0.5]]
    return [
        _near_kernel("nearest_second_inside", VS, [[2.5, 1.0, 0.25]], [1]),
        _near_kernel("nearest_first_inside", VS, [[1.0, 0.5, 0.25]], [0]),
        _near_kernel("nearest_first_clamped", VS, [[-1.0, 0.5, 0.0]], [0], t_concrete=0),
        _near_kernel("nearest_two_queries", VS, [[1.0, 0.5, 0.25], [2.5, 1.0, 0.25]], [0, 1]),
    ]


# ---------------------------------------------------------------------------------------------------------
# exact helpers (Fractions)
def _F3(p):
    return [Fr(float(x)) for x in p]


def _segs(vs, closed):
    n = len(vs)
    if n == 0:
        return []
    out = [(vs[i], vs[i + 1]) for i in range(n - 1)]
    if closed:
        out.append((vs[-1], vs[0]))
    return out


def _dot(a, b):
    return sum(x * y for x, y in zip(a, b))


def _sub(a, b):
    return [x - y for x, y in zip(a, b)]


def _hit(p, a, b):
    v = _sub(b, a)
    d = _dot(v, v)
    n = _dot(_sub(p, a), v)
    t = Fr(0) if d == 0 else min(max(n / d, Fr(0)), Fr(1))
    c = [x + t * y for x, y in zip(a, v)]
    w = _sub(p, c)
    return _dot(w, w), t, c


def _feat(points):
    """FEATURE size: spread of the points around the first one (exact). Tolerances are relative to it, so that an error of
    the size of the scene is seen however far from the origin the scene sits."""
    pts = [q_ for q_ in points]
    if not pts:
        return Fr(0)
    return max([Fr(0)] + [abs(x - r) for q_ in pts for x, r in zip(q_, pts[0])])


def _exact_nearest(vs, closed, p):
    """(well_conditioned, index, t, point, d2) with exact rationals; index = first minimal segment"""
    hs = [_hit(p, a, b) for a, b in _segs(vs, closed)]
    best = min(range(len(hs)), key=lambda k: (hs[k][0], k))
    d2, t, c = hs[best]
    mag = _feat(list(vs) + [p])
    well = all(h[0] > d2 * (1 + Fr(1, 10 ** 5)) + Fr(1, 10 ** 10) * mag * mag or h[2] == c for h in hs)
    return well, best, t, c, d2


POW2_VECS = ([[s * m if j == ax else 0.0 for j in range(3)] for ax in range(3) for s in (1, -1) for m in (0.5, 1.0, 2.0, 4.0)]
             + [[sx * m if j == a1 else (sy * m if j == a2 else 0.0) for j in range(3)]
                for (a1, a2) in ((0, 1), (1, 2), (0, 2)) for sx in (1, -1) for sy in (1, -1) for m in (0.5, 1.0, 2.0)])


UNIT_VECS = [v for v in POW2_VECS if max(abs(x) for x in v) == 1.0]


def _flags(rng):
    return [rng.random() < 0.5 for _ in range(3)]


def _simple_open(rng):
    """x-monotone chain in a coordinate plane: never touches itself"""
    n = rng.randint(2, 6)
    x, pts = rng.randint(-4, 0), []
    for _ in range(n):
        pts.append([float(x), float(rng.randint(-3, 3)), 0.0])
        x += rng.randint(1, 3)
    return pts


STAR = [(4, 0), (3, 2), (1, 3), (-1, 4), (-3, 2), (-4, 0), (-3, -3), (0, -4), (3, -3)]


def _simple_closed(rng):
    """star-shaped polygon (strictly increasing polar angle, gaps < pi)"""
    while True:
        keep = [i for i in range(len(STAR)) if rng.random() < 0.6]
        if len(keep) < 3:
            continue
        angs = [math.atan2(STAR[i][1], STAR[i][0]) % (2 * math.pi) for i in keep]
        gaps = [(angs[(k + 1) % len(angs)] - angs[k]) % (2 * math.pi) for k in range(len(angs))]
        if max(gaps) < math.pi - 0.2:
            break
    pts = [[float(STAR[i][0] * m), float(STAR[i][1] * m), 0.0] for i in keep for m in [rng.choice([1, 1, 2])]]
    s = rng.randrange(len(pts))
    return pts[s:] + pts[:s]


def _perm(rng, pts):
    ax = rng.choice([(0, 1, 2), (1, 2, 0), (2, 0, 1), (1, 0, 2)])
    return [[p[ax[0]], p[ax[1]], p[ax[2]]] for p in pts], ax


def _query_near(rng, vs, closed, ax, sc=1.0, exact_only=False):
    """a point near the polyline: on a segment at a dyadic parameter, moved off a little"""
    segs = _segs(vs, closed)
    a, b = segs[rng.randrange(len(segs))]
    t = rng.choice([0.25, 0.5, 0.75, 0.5, 0.125])
    p = [a[j] + t * (b[j] - a[j]) for j in range(3)]
    off = [0.0, 0.0, 0.0]
    normal_axis = ax.index(2)          # the coordinate that is constant on the polyline
    if exact_only or rng.random() < 0.6:
        off[normal_axis] = rng.choice([0.125, -0.25, 0.0]) * sc
    else:
        off = [rng.choice([0.0, 0.0625, -0.0625]) * sc for _ in range(3)]
    return [x + y for x, y in zip(p, off)]


def _far_offset_case(rng):
    """far_offset_exact: a unit-size scene on a dyadic grid translated by 2^24 .. 2^31 per axis. Segment vectors have
    power-of-two squared length (or integer end points with queries at dyadic parameters), so every t, closest point
    and squared distance is exactly representable and the code must agree with the exact model to a tolerance relative
    to the FEATURE size. A formula that subtracts large numbers (|q|^2 + |p|^2 - 2 q.p) loses everything here."""
    off = [rng.choice([1, -1]) * 2.0 ** rng.randint(24, 31) for _ in range(3)]
    sh = lambda p: [x + o for x, o in zip(p, off)]
    r = rng.random()
    if r < 0.45:
        pts = [[x for x in grid_vec(rng, -2, 2, 8)]]
        for _ in range(rng.randint(1, 6)):
            pts.append(list(pts[-1]) if rng.random() < 0.15 else [a + b for a, b in zip(pts[-1], rng.choice(POW2_VECS))])
        single = rng.random() < 0.2
        qs = [grid_vec(rng, -4, 4, 2) for _ in range(1 if single else rng.randint(1, 4))]
        if rng.random() < 0.3:
            qs[0] = list(rng.choice(pts))
        return {"kind": "nearest_far_offset_exact", "v": [sh(p) for p in pts], "closed": False,
                "points": [sh(p) for p in qs], "single": single, "flags": _flags(rng)}
    if r < 0.7:
        ps, sa, sv = [], [], []
        for _ in range(rng.randint(1, 6)):
            a = grid_vec(rng, -3, 3, 8)
            v = [0.0, 0.0, 0.0] if rng.random() < 0.15 else rng.choice(POW2_VECS)
            p = grid_vec(rng, -4, 4, 2)
            if rng.random() < 0.3:
                t = rng.choice([0.0, 0.25, 0.5, 1.0])
                p = [a[j] + t * v[j] for j in range(3)]
            ps.append(sh(p)), sa.append(sh(a)), sv.append(v)
        return {"kind": "closest_pairs_far_offset_exact", "exact": True, "points": ps, "starts": sa, "vectors": sv,
                "eps": rng.choice([0.0, 0.25, 0.5, 1.0, 2.0])}
    while True:
        closed = rng.random() < 0.5
        pts, ax = _perm(rng, _simple_closed(rng) if closed else _simple_open(rng))
        a = _query_near(rng, pts, closed, ax, 1.0, exact_only=True)
        b = _query_near(rng, pts, closed, ax, 1.0, exact_only=True)
        pts, a, b = [sh(p) for p in pts], sh(a), sh(b)
        fv = [_F3(p) for p in pts]
        wa, ia, ta, ca, _ = _exact_nearest(fv, closed, _F3(a))
        wb, ib, tb, cb, _ = _exact_nearest(fv, closed, _F3(b))
        if wa and wb and ca != cb:
            return {"kind": "sliced" + ("_closed" if closed else "_open") + "_far_offset_exact", "v": pts, "closed": closed,
                    "a": a, "b": b, "int": False, "near_pair": False}


def gen_cases(rng, n, tier):
    cases = []
    while len(cases) < n:
        if rng.random() < 0.1:
            cases.append(_far_offset_case(rng))
            continue
        u = rng.random()
        r_sc = rng.random()
        sc = 1.0 if r_sc < 0.45 else 2.0 ** (rng.randint(-10, 10) if r_sc < 0.8 else rng.randint(-30, 30))
        if u < 0.30:
            # exact stream: everything (t, closest point, squared distance) is exact in binary64
            k = rng.randint(1, 8)
            pts = [[x for x in grid_vec(rng, -2, 2, 2)]]
            for _ in range(k):
                if rng.random() < 0.15:
                    pts.append(list(pts[-1]))               # repeated vertex: zero-length segment
                else:
                    v = rng.choice(POW2_VECS)
                    pts.append([a + b for a, b in zip(pts[-1], v)])
            closed = rng.random() < 0.4
            single = rng.random() < 0.2
            qs = [grid_vec(rng, -4, 4, 2) for _ in range(1 if single else rng.randint(0, 4))]
            if qs and rng.random() < 0.3:
                qs[0] = list(rng.choice(pts))               # exactly a vertex
            if rng.random() < 0.3:
                # a very short jog (length 1e-5 .. 1e-4) between unit-size neighbours, queried right next to it;
                # all coordinates stay multiples of 2^-19 below 8, so the arithmetic is still exact
                j = rng.randrange(len(pts))
                jog = [x * 2.0 ** -rng.choice([14, 15, 16]) for x in rng.choice(UNIT_VECS)]
                end = [a + b for a, b in zip(pts[j], jog)]
                pts = pts[:j + 1] + [end] + [[a + b for a, b in zip(p, jog)] for p in pts[j + 1:]]
                t = rng.choice([0.25, 0.5, 0.75, 1.0, 0.5])
                off = [rng.randint(-2, 2) * 2.0 ** -18 for _ in range(3)]
                near_jog = [pts[j][i] + t * jog[i] + off[i] for i in range(3)]
                qs = ([near_jog] if single or not qs else [near_jog] + qs[1:])
                cases.append({"kind": "nearest_tiny_segment", "v": [[x * sc for x in p] for p in pts], "closed": closed,
                              "points": [[x * sc for x in p] for p in qs], "single": single, "flags": _flags(rng)})
                continue
            cases.append({"kind": "nearest_exact", "v": [[x * sc for x in p] for p in pts], "closed": closed,
                          "points": [[x * sc for x in p] for p in qs], "single": single, "flags": _flags(rng)})
        elif u < 0.52:
            k = rng.randint(2, 9)
            pts = [grid_vec(rng, -4, 4, 2) for _ in range(k)]
            if rng.random() < 0.2:
                j = rng.randrange(1, k)
                pts[j] = list(pts[j - 1])
            closed = rng.random() < 0.4
            single = rng.random() < 0.2
            qs = [grid_vec(rng, -5, 5, 4) for _ in range(1 if single else rng.randint(1, 4))]
            cases.append({"kind": "nearest_generic", "v": [[x * sc for x in p] for p in pts], "closed": closed,
                          "points": [[x * sc for x in p] for p in qs], "single": single, "flags": _flags(rng)})
        elif u < 0.535:
            # far outside the binary64 range in which squared lengths are representable: recorded, not judged
            s_ = 2.0 ** rng.choice([600, 700, 900, -560, -600, -900])
            cases.append({"kind": "nearest_extreme_magnitude", "v": [[0.0, 0.0, 0.0], [s_, 0.0, 0.0]], "closed": False,
                          "points": [[s_ / 2, s_ / 4, 0.0]], "single": False, "flags": [True, True, True]})
        elif u < 0.55:
            # no segment at all (outside the property's domain; model and code must agree on the refusal)
            pts = [grid_vec(rng)] if rng.random() < 0.6 else []
            cases.append({"kind": "nearest_no_segments", "v": pts, "closed": False, "points": [grid_vec(rng)],
                          "single": rng.random() < 0.5, "flags": _flags(rng)})
        elif u < 0.70:
            k = rng.randint(0, 6)
            exact = rng.random() < 0.5
            ps, sa, sv = [], [], []
            for _ in range(k):
                a = grid_vec(rng, -3, 3, 2)
                r = rng.random()
                v = [0.0, 0.0, 0.0] if r < 0.2 else (rng.choice(POW2_VECS) if exact else grid_vec(rng, -3, 3, 2))
                p = grid_vec(rng, -4, 4, 2)
                if rng.random() < 0.25:
                    t = rng.choice([0.0, 0.25, 0.5, 1.0])
                    p = [a[j] + t * v[j] for j in range(3)]     # exactly on the segment
                if r >= 0.2 and rng.random() < 0.25:
                    # very short segment (1e-5 .. 1e-4 long) at unit-size coordinates, query next to it
                    v = [x * 2.0 ** -rng.choice([14, 15, 16]) for x in v]
                    t = rng.choice([-0.5, 0.25, 0.5, 0.75, 1.0, 1.5])
                    p = [a[j] + t * v[j] + rng.randint(-2, 2) * 2.0 ** -18 for j in range(3)]
                ps.append(p), sa.append(a), sv.append(v)
            eps = rng.choice([0.0, 0.5, 1.0, 2.0, 1e-8, 0.25])
            cases.append({"kind": "closest_pairs", "exact": exact, "points": [[x * sc for x in p] for p in ps],
                          "starts": [[x * sc for x in p] for p in sa], "vectors": [[x * sc for x in p] for p in sv],
                          "eps": eps * sc})
        else:
            closed = rng.random() < 0.5
            # index_of_vertex uses an ABSOLUTE tolerance of 1e-8: keep the geometry well above it
            # (the property speaks about queries not within 1e-3 of a vertex)
            sc = max(sc, 2.0 ** -10)
            raw = _simple_closed(rng) if closed else _simple_open(rng)
            if rng.random() < 0.35:
                # non-planar: any heights keep an x-monotone chain / a star-shaped polygon simple in 3-D
                raw = [[p[0], p[1], float(rng.randint(-2, 2))] for p in raw]
            pts, ax = _perm(rng, raw)
            # integer vertex array (Polyline stores float64 since fix 9b9f8e2: the inserted points must not be truncated)
            as_int = sc == 1.0 and rng.random() < 0.4
            pts = [[x * sc for x in p] for p in pts]
            a = _query_near(rng, pts, closed, ax, sc)
            b = _query_near(rng, pts, closed, ax, sc)
            if rng.random() < 0.15:
                a = list(rng.choice(pts))                       # exactly a vertex
            if rng.random() < 0.12:
                b = list(rng.choice(pts))                       # exactly a vertex: no insertion for the end point
            # only at moderate scales: the code's vertex tolerance is absolute (1e-8), so at coordinates ~1e9 the rounding of
            # the inserted point alone exceeds it and the outcome for coincident nearest points is ill-conditioned
            near_pair = u < 0.87 and sc <= 16.0 and rng.random() < 0.1
            if near_pair:
                b = [a[0] + 2.0 ** -31, a[1], a[2] - 2.0 ** -32]  # nearest points closer than the 1e-8 vertex tolerance
            fv = [_F3(p) for p in pts]
            wa, ia, ta, ca, _ = _exact_nearest(fv, closed, _F3(a))
            wb, ib, tb, cb, _ = _exact_nearest(fv, closed, _F3(b))
            if not (wa and wb) or (ca == cb and not near_pair):
                continue
            if near_pair and max(abs(x - y) for x, y in zip(ca, cb)) > Fr(1, 10 ** 9):
                continue
            kind = "sliced" if u < 0.87 else "aligned"
            if kind == "aligned" and closed:
                # the two ways round must differ clearly in length
                la, lb = _arc_pos(pts, closed, ia, ta), _arc_pos(pts, closed, ib, tb)
                tot = _arc_pos(pts, closed, len(pts) - 1, Fr(1))
                fwd = (lb - la) % tot
                if abs(fwd - (tot - fwd)) < 1e-6 * tot:
                    continue
            cases.append({"kind": kind + ("_closed" if closed else "_open") + ("_near_pair" if near_pair else ""), "v": pts,
                          "closed": closed, "a": a, "b": b, "int": as_int, "near_pair": near_pair})
    return cases


def _arc_pos(pts, closed, i, t):
    segs = _segs(pts, closed)
    ln = [math.dist(a, b) for a, b in segs]
    return sum(ln[:i]) + float(t) * ln[i]


# ---------------------------------------------------------------------------------------------------------
def _col(x, single):
    a = np.asarray(x)
    if a.dtype.kind in "iu":
        return {"k": "I", "data": [int(e) for e in a.reshape(-1)], "shape": list(a.shape)}
    if (single and a.ndim == 1) or (not single and a.ndim == 2):
        return {"k": "V", "data": a.reshape(-1, 3).tolist(), "shape": list(a.shape)}
    return {"k": "F", "data": [float(e) for e in a.reshape(-1)], "shape": list(a.shape)}


def _near_obs(res, single):
    if isinstance(res, tuple):
        return {"tuple": [_col(x, single) for x in res]}
    return {"bare": _col(res, single)}


def run_impl(c):
    from polliwog import Polyline
    from polliwog.segment import closest_point_of_line_segment, is_point_on_line_segment

    def go():
        with warnings.catch_warnings():
            warnings.simplefilter("ignore")
            if c["kind"].startswith("nearest"):
                v = np.array(c["v"], dtype=np.float64).reshape(-1, 3)
                pl = Polyline(v, is_closed=c["closed"])
                pts = np.array(c["points"], dtype=np.float64).reshape(-1, 3)
                arg = pts[0] if c["single"] else pts
                before = arg.copy()
                ri, rd, rt = c["flags"]
                out = {"obs": call_impl(lambda: _near_obs(pl.nearest(arg, ret_segment_indices=ri, ret_distances=rd,
                                                                     ret_t_values=rt), c["single"])),
                       "full": call_impl(lambda: _near_obs(pl.nearest(arg, ret_segment_indices=True, ret_distances=True,
                                                                      ret_t_values=True), c["single"]))}
                out["args_unchanged"] = bool(np.array_equal(before, arg) and np.array_equal(pl.v, v))
                return out
            if c["kind"].startswith("closest_pairs"):
                ps = np.array(c["points"], dtype=np.float64).reshape(-1, 3)
                sa = np.array(c["starts"], dtype=np.float64).reshape(-1, 3)
                sv = np.array(c["vectors"], dtype=np.float64).reshape(-1, 3)
                pts, ts = closest_point_of_line_segment(ps, sa, sv, ret_t_values=True)
                pts2 = closest_point_of_line_segment(ps, sa, sv)
                on = is_point_on_line_segment(ps, sa, sv, float(c["eps"]))
                return {"pts": pts.tolist(), "ts": ts.tolist(), "on": [bool(x) for x in on],
                        "same_without_t": bool(np.array_equal(pts, pts2))}
            v = np.array(c["v"], dtype=np.int64 if c.get("int") else np.float64).reshape(-1, 3)
            pl = Polyline(v, is_closed=c["closed"])
            a, b = np.array(c["a"]), np.array(c["b"])
            if c["kind"].startswith("sliced"):
                r = pl.sliced_at_points(a, b)
            else:
                r = pl.aligned_along_subsegment(a, b)
            return {"v": r.v.tolist(), "closed": bool(r.is_closed), "args_unchanged": bool(np.array_equal(pl.v, v))}

    return call_impl(go)


# ---------------------------------------------------------------------------------------------------------
def _vecs(vs):
    return coq_list(flv(v) for v in vs)


def _pl(c):
    return "(MkPolyline %s %s)" % (coq_list(qv(p) for p in c["v"]), coq_bool(c["closed"]))


def _ocol(col):
    if col["k"] == "V":
        return "(OV %s)" % _vecs(col["data"])
    if col["k"] == "I":
        return "(OI %s)" % coq_list(coq_nat(i) for i in col["data"])
    return "(OF %s)" % flv(col["data"])


def _onear(o):
    if "raise" in o:
        return "(Raise %s)" % o["raise"]
    if "bare" in o:
        b = o["bare"]
        if b["k"] != "V":
            return "(Ok (OTuple []))"          # not a point array: can never agree
        return "(Ok (OBare %s))" % _vecs(b["data"])
    return "(Ok (OTuple %s))" % coq_list(_ocol(x) for x in o["tuple"])


def coq_case(c, o):
    if c["kind"] == "nearest_extreme_magnitude":
        return "CClosest true [] [] [] 0 [] [] []"      # recorded only (see ASSUMPTIONS): nothing to compare
    if c["kind"].startswith("nearest"):
        if "raise" in o:
            o = {"obs": o, "full": o}
        ri, rd, rt = c["flags"]
        return "CNearest %s %s %s %s %s %s %s" % (_pl(c), coq_list(qv(p) for p in c["points"]), coq_bool(ri), coq_bool(rd),
                                                  coq_bool(rt), _onear(o["obs"]), _onear(o["full"]))
    if c["kind"].startswith("closest_pairs"):
        if "raise" in o:
            return "CClosest true [] [] [] 0 [] [FNan] []"
        return "CClosest %s %s %s %s %s %s %s %s" % (
            coq_bool(c["exact"]), coq_list(qv(p) for p in c["points"]), coq_list(qv(p) for p in c["starts"]),
            coq_list(qv(p) for p in c["vectors"]), q(c["eps"]), _vecs(o["pts"]), flv(o["ts"]),
            coq_list(coq_bool(x) for x in o["on"]))
    ctor = "CSliced" if c["kind"].startswith("sliced") else "CAligned"
    obs = "(Raise %s)" % o["raise"] if "raise" in o else "(Ok (%s, %s))" % (_vecs(o["v"]), coq_bool(o["closed"]))
    return "%s %s %s %s %s" % (ctor, _pl(c), qv(c["a"]), qv(c["b"]), obs)


# ---------------------------------------------------------------------------------------------------------
ONLY_T = "ret_t_values was requested but no t values were returned (bare point array)"


def _close(x, y, mag, rel=Fr(1, 10 ** 8)):
    return abs(Fr(float(x)) - y) <= rel * mag


def _col_of(obs, kind, nth=0):
    cols = [x for x in obs["tuple"] if x["k"] == kind]
    return cols[nth]["data"] if len(cols) > nth else None


def _oracle_nearest(c, o):
    if "raise" in o:
        return "unexpected exception %s: %s" % (o["raise"], o.get("msg"))
    vs = [_F3(p) for p in c["v"]]
    segs = _segs(vs, c["closed"])
    obs, full = o["obs"], o["full"]
    if not segs:
        # outside the property's domain: the code refuses (argmin of an empty sequence)
        return None if ("raise" in obs and "raise" in full) else "nearest answered on a polyline without any segment"
    if "raise" in full or "raise" in obs:
        return "nearest raised %s on a polyline with %d segments" % ((full.get("raise") or obs.get("raise")), len(segs))
    if not o["args_unchanged"]:
        return "argument array was modified"
    k = len(c["points"])
    P, I, D, T = _col_of(full, "V"), _col_of(full, "I"), _col_of(full, "F", 0), _col_of(full, "F", 1)
    if P is None or I is None or D is None or T is None or len(full["tuple"]) != 4:
        return "nearest(all flags) did not return (points, indices, distances, t values)"
    if not (len(P) == len(I) == len(D) == len(T) == k):
        return "nearest(all flags): %d queries but result rows %d/%d/%d/%d" % (k, len(P), len(I), len(D), len(T))
    want_shapes = [[3], [], [], []] if c["single"] else [[k, 3], [k], [k], [k]]
    if [x["shape"] for x in full["tuple"]] != want_shapes:
        return "nearest(all flags): result shapes %r, expected %r" % ([x["shape"] for x in full["tuple"]], want_shapes)
    mag = _feat(list(vs) + [_F3(p) for p in c["points"]])
    for r in range(k):
        p = _F3(c["points"][r])
        if not (0 <= I[r] < len(segs)):
            return "query %d: segment index %d out of range" % (r, I[r])
        a, b = segs[I[r]]
        t = Fr(T[r])
        if not (0 <= t <= 1):
            return "query %d: t=%r outside [0,1]" % (r, T[r])
        pt = _F3(P[r])
        for j in range(3):
            if not _close(P[r][j], a[j] + t * (b[j] - a[j]), mag):
                return "query %d: point is not start + t * vector of segment %d" % (r, I[r])
        d2 = _dot(_sub(p, pt), _sub(p, pt))
        if abs(Fr(D[r]) ** 2 - d2) > Fr(1, 10 ** 8) * max(d2, mag * mag):
            return "query %d: distance %r is not |query - point|" % (r, D[r])
        best = min(_hit(p, x, y)[0] for x, y in segs)
        if d2 > best + Fr(1, 10 ** 8) * max(best, mag * mag * Fr(1, 10 ** 16)):
            return "query %d: a closer point of the polyline exists (returned d^2=%s, minimum %s)" % (r, float(d2), float(best))
    # the flagged call: every requested output is returned and equals the all-flags result
    ri, rd, rt = c["flags"]
    want = [full["tuple"][0]] + ([full["tuple"][1]] if ri else []) + ([full["tuple"][2]] if rd else []) + ([full["tuple"][3]] if rt else [])
    if "bare" in obs:
        if rt and not (ri or rd):
            return ONLY_T
        if ri or rd or rt:
            return "optional outputs requested %r but a bare array was returned" % (c["flags"],)
        if obs["bare"] != full["tuple"][0]:
            return "bare result differs from the point column of the all-flags call"
        return None
    if not (ri or rd or rt):
        return "no optional output requested but a tuple was returned"
    if obs["tuple"] != want:
        return "flags %r: returned columns are not the requested columns of the all-flags call" % (c["flags"],)
    return None


def _expected_subpath(c):
    """exact expected vertices of sliced_at_points (None when an open polyline would have to run backwards)"""
    vs = [_F3(p) for p in c["v"]]
    n, closed = len(vs), c["closed"]
    _, ia, ta, ca, _ = _exact_nearest(vs, closed, _F3(c["a"]))
    _, ib, tb, cb, _ = _exact_nearest(vs, closed, _F3(c["b"]))
    nseg = len(_segs(vs, closed))
    pa, pb = ia + ta, ib + tb
    if closed:
        pa, pb = pa % nseg, pb % nseg
    if not closed and pb <= pa:
        return None
    path = [ca]
    if pa < pb:
        ks = [k for k in range(n) if pa < k < pb]
    else:
        ks = [k for k in range(n) if pa < k] + [k for k in range(n) if k < pb]
    path += [vs[k] for k in ks]
    path.append(cb)
    return path


def _oracle_sliced(c, o):
    if c.get("near_pair"):
        # nearest(a) and nearest(b) coincide within the code's vertex tolerance: the degenerate sub-path [nearest(a)]
        if "raise" in o:
            return "sliced_at_points raised %s on two points with (almost) the same nearest point" % o["raise"]
        vs = [_F3(p) for p in c["v"]]
        ca = _exact_nearest(vs, c["closed"], _F3(c["a"]))[3]
        mag = _feat(vs)
        if o["closed"] or len(o["v"]) not in (1, 2):
            return "near pair: expected the single vertex nearest(a) (or the two points), got %d vertices" % len(o["v"])
        for got in o["v"]:
            if not all(abs(Fr(float(got[j])) - ca[j]) <= Fr(2, 10 ** 8) + Fr(1, 10 ** 8) * mag for j in range(3)):
                return "near pair: vertex %r is not nearest(a)" % (got,)
        return None
    exp = _expected_subpath(c)
    if "raise" in o:
        if exp is None and o["raise"] == "ValueError":
            return None
        return "sliced_at_points raised %s: %s" % (o["raise"], o.get("msg"))
    if exp is None:
        return "open polyline sliced backwards: expected a refusal, got %d vertices" % len(o["v"])
    if o["closed"]:
        return "sliced_at_points returned a closed polyline"
    if not o["args_unchanged"]:
        return "polyline was modified"
    mag = _feat(exp)
    if len(o["v"]) != len(exp):
        return "sub-path has %d vertices, expected %d (nearest(a), vertices in between, nearest(b))" % (len(o["v"]), len(exp))
    for r, (got, want) in enumerate(zip(o["v"], exp)):
        if not all(_close(got[j], want[j], mag) for j in range(3)):
            return "sub-path vertex %d is %r, expected %r" % (r, got, [float(x) for x in want])
    return None


def _oracle_aligned(c, o):
    if "raise" in o:
        return "aligned_along_subsegment raised %s: %s" % (o["raise"], o.get("msg"))
    if o["closed"] != c["closed"]:
        return "closedness changed"
    if o["v"] != c["v"] and o["v"] != c["v"][::-1]:
        return "result is neither the polyline nor its reversal"
    vs = [_F3(p) for p in o["v"]]
    _, ia, ta, _, _ = _exact_nearest(vs, c["closed"], _F3(c["a"]))
    _, ib, tb, _, _ = _exact_nearest(vs, c["closed"], _F3(c["b"]))
    if not c["closed"]:
        # among equal nearest points (vertex shared by two segments) any of the tied positions is acceptable
        if (ib + tb) < (ia + ta):
            return "after alignment the point nearest p2 (segment %d, t=%s) comes before the point nearest p1 (segment %d, t=%s)" % (
                ib, float(tb), ia, float(ta))
        return None
    tot = _arc_pos(o["v"], True, len(vs) - 1, Fr(1))
    fwd = (_arc_pos(o["v"], True, ib, tb) - _arc_pos(o["v"], True, ia, ta)) % tot
    if fwd > (tot - fwd) * (1 + 1e-7):
        return "after alignment the path from p1 to p2 (%g) is the longer way round (other way %g)" % (fwd, tot - fwd)
    return None


def oracle(c, o):
    if c["kind"] == "nearest_extreme_magnitude":
        return None                                       # documented float range, not judged
    if c["kind"].startswith("nearest"):
        return _oracle_nearest(c, o)
    if isinstance(o, dict) and "raise" in o and c["kind"].startswith("closest_pairs"):
        return "unexpected exception %s: %s" % (o["raise"], o.get("msg"))
    if c["kind"].startswith("closest_pairs"):
        if not o["same_without_t"]:
            return "closest points differ with and without ret_t_values"
        k = len(c["points"])
        if not (len(o["pts"]) == len(o["ts"]) == len(o["on"]) == k):
            return "pairwise result has the wrong number of rows"
        eps2 = Fr(float(c["eps"])) ** 2
        for r in range(k):
            p, a, v = _F3(c["points"][r]), _F3(c["starts"][r]), _F3(c["vectors"][r])
            mag = max([Fr(0)] + [abs(x - y) for x, y in zip(p, a)] + [abs(x) for x in v])
            t = Fr(o["ts"][r])
            if not (0 <= t <= 1):
                return "row %d: t=%r outside [0,1]" % (r, o["ts"][r])
            for j in range(3):
                if not _close(o["pts"][r][j], a[j] + t * v[j], mag):
                    return "row %d: point is not start + t * vector" % r
            pt = _F3(o["pts"][r])
            d2 = _dot(_sub(p, pt), _sub(p, pt))
            best = _hit(p, a, [x + y for x, y in zip(a, v)])[0]
            if d2 > best + Fr(1, 10 ** 8) * max(best, mag * mag * Fr(1, 10 ** 16)):
                return "row %d: a closer point of the segment exists" % r
            decided = c["exact"] or abs(best - eps2) > Fr(1, 10 ** 5) * max(eps2, mag * mag)
            if decided and o["on"][r] != (best <= eps2):
                return "row %d: is_point_on_line_segment=%r but squared distance %s vs eps^2 %s" % (r, o["on"][r], float(best), float(eps2))
        return None
    if c["kind"].startswith("sliced"):
        return _oracle_sliced(c, o)
    return _oracle_aligned(c, o)


def classify(c, o, failure, disagrees):
    # Polyline.nearest called with ret_t_values=True as the only flag
    if (c["kind"].startswith("nearest") and list(c["flags"]) == [False, False, True] and failure == ONLY_T
            and not disagrees):
        return "only_ret_t_values"
    return None
