"""Shared by C01 and C02: generators, implementation runner, Coq case writer and exact-arithmetic helpers for
polliwog.plane.slice_triangles_by_plane."""
from fractions import Fraction as Fr

import numpy as np

from common import call_impl, coq_bool, coq_list, coq_nat, flv, q, qv

TOL = Fr(1e-8)  # tol.merge as the binary64 value
REL = Fr(1, 10 ** 11)  # oracle slack relative to the FEATURE size (largest |v - reference point|): a handful of flops
UEPS = Fr(1, 2 ** 50)  # ... plus 4 units in the last place of the coordinate magnitude: binary64 cannot store a point better
UNSIGNED_FACES = True  # generate uint8/uint32/uint64 face arrays: on once fixes/C02-unsigned-faces.diff is in /repo
TRUSTED = ["Coq 8.16.1 kernel, vm_compute for the correspondence evaluation and the finite sign-pattern claims",
           "axioms (Print Assumptions): ClassicalDedekindReals.sig_forall_dec, sig_not_dec, "
           "FunctionalExtensionality.functional_extensionality_dep, Classical_Prop.classic (all Coq stdlib Reals)",
           "tools/symtrace.py tracing translator + numpy shim (re-validated numerically each run)",
           "coq/Agree.v agreement relation (relative tolerance 1e-9 on cut-vertex coordinates; indices, mapping, "
           "dtypes and shapes exact)",
           "NumPy"]
ASSUMPTIONS = ["theorems are about exact real arithmetic; binary64 rounding is covered only by the tolerance of the "
               "correspondence check on sampled inputs whose classification is exact",
               "the kernel snaps every per-vertex offset within 1e-8 of the plane to 0; theorems are stated both on the true "
               "offsets (with a tolerance slack) and on the snapped ones (exact); no 'exactly on the plane' hypothesis is used",
               "output dtypes: the model carries a dtype table (return path of slice_faces_plane -> dtypes; the wrapper's two "
               "np.asarray conversions, /repo 1119c57 and fixes/C02-unsigned-faces.diff, and its three assertions); the dtype "
               "theorems are look-ups in that table (listed as DEFINITIONAL); the table is tied to the code by the correspondence "
               "check on wrapper and kernel calls with float32 / float16 / integer vertex arrays and int8..int64 / unsigned face "
               "arrays — validated, not proved; shapes ((k,3) / (m,3) / (m,)) are validated only",
               "negative (NumPy wrap-around) face entries are modelled by a separate layer (slice_faces_plane_z); the geometric "
               "theorems are stated for non-negative entries, to which that layer reduces",
               "coordinate magnitudes above ~2^18 times the mesh size are generated only in the far_offset_exact stream (unit mesh "
               "translated by up to 7*2^28): there binary64 cannot place a cut vertex within 1e-8 of the plane (one ulp is up to "
               "4.8e-7), so the re-slice (idempotence) comparison of the oracle is skipped for those cases when the result has "
               "new vertices; everything else is judged, with tolerances relative to the mesh size, not to the coordinates",
               "tolerances on lengths are 1e-11 * feature size (largest |v - reference point|) + 4 ulp of the coordinate "
               "magnitude, in the correspondence check and in the oracle alike; every discrete output is compared exactly"]
CASE_IMPORTS = [("PW.model", "M_slicing")]


# ---- generators ----------------------------------------------------------------------------------------------
def _grid(rng, lo=-4, hi=4, denom=2):
    return rng.randint(lo * denom, hi * denom) / denom


def gen_plane(rng, kind):
    """returns (ref, normal, tangents or None, axis or None)"""
    ref = [_grid(rng) for _ in range(3)]
    if kind == "axis":
        ax = rng.randrange(3)
        n = [0.0, 0.0, 0.0]
        n[ax] = rng.choice([1.0, -1.0]) * 2.0 ** rng.randint(-2, 2)
        t1 = [1.0 if j == (ax + 1) % 3 else 0.0 for j in range(3)]
        t2 = [1.0 if j == (ax + 2) % 3 else 0.0 for j in range(3)]
        return ref, n, (t1, t2), ax
    if kind == "dyadic":
        while True:
            n = [rng.randint(-8, 8) / 4 for _ in range(3)]
            if any(n):
                break
        a, b, c = n
        t1 = [4 * b, -4 * a, 0.0]
        t2 = [0.0, 4 * c, -4 * b]
        if not any(t1):
            t1 = [4 * c, 0.0, -4 * a]
        if not any(t2):
            t2 = [4 * c, 0.0, -4 * a]
        return ref, n, (t1, t2), None
    # "float": a normal that is not exactly representable work (rounded unit vector); classification of grid
    # vertices stays far from the thresholds unless a vertex is placed on the plane through ref itself
    v = np.array([rng.uniform(-1, 1) for _ in range(3)])
    while np.linalg.norm(v) < 0.2:
        v = np.array([rng.uniform(-1, 1) for _ in range(3)])
    n = list(v / np.linalg.norm(v))
    return ref, [float(x) for x in n], None, None


def gen_far_case(rng, profile):
    """Stream far_offset_exact: a unit-size mesh on a dyadic grid, translated by a large dyadic offset (|T| up to 7*2^28 per axis,
    mixed signs; every coordinate is still exact, <= 51 bits), a plane whose normal has 16-24 significant bits per component and is
    not unit, and vertices EXACTLY on the plane (reference + integer combinations of (b,-a,0), (0,c,-b)).  Differences
    `vertex - reference` are exact and so are their products with the normal and the sums (<= 51 bits), so the code as it is
    computes every offset exactly; a formula that multiplies the big coordinates first must round by ~|T| 2^-53 |n| >> 1e-8.
    Model and implementation must agree on every discrete output, and on coordinates to 1e-11 * mesh size + 4 ulp."""
    T = [rng.choice([1.0, -1.0]) * rng.choice([1, 3, 5, 7]) * 2.0 ** rng.randint(24, 28) for _ in range(3)]
    n = [rng.choice([1.0, -1.0]) * (rng.randrange(2 ** 15, 2 ** 23) | 1) / 2.0 ** 20 for _ in range(3)]
    if rng.random() < 0.2:
        n[rng.randrange(3)] = 0.0
    a, b, c = n
    t1, t2 = [b, -a, 0.0], [0.0, c, -b]
    if not any(t1):
        t1 = [c, 0.0, -a]
    if not any(t2):
        t2 = [c, 0.0, -a]
    ref_local = [rng.randint(-16, 16) / 8 for _ in range(3)]
    ref = [T[j] + ref_local[j] for j in range(3)]
    nv, nf = rng.randint(3, 12), rng.randint(1, 12)
    vs = []
    for _ in range(nv):
        r = rng.random()
        if r < 0.4:
            al, be = rng.randint(-3, 3), rng.randint(-3, 3)
            vs.append([ref[j] + (al * t1[j] + be * t2[j]) for j in range(3)])  # exactly on the plane
        elif r < 0.45:
            vs.append(list(ref))
        else:
            vs.append([T[j] + rng.randint(-64, 64) / rng.choice([8, 16, 64]) for j in range(3)])
    for v in vs:  # the construction promises exact differences: fail closed if a coordinate did not fit
        for j in range(3):
            assert Fr(v[j]) - Fr(ref[j]) == Fr(v[j] - ref[j]) and abs(v[j]) < 2.0 ** 32
    if nv >= 2 and rng.random() < 0.2:
        vs[rng.randrange(nv)] = list(vs[rng.randrange(nv)])
    fs = []
    for _ in range(nf):
        r = rng.random()
        if r < 0.1:
            x, y = rng.randrange(nv), rng.randrange(nv)
            fs.append(rng.choice([[x, x, y], [x, y, x], [x, x, x]]))
        else:
            fs.append([rng.randrange(nv) for _ in range(3)])
    m = rng.random()
    mask = None if m < 0.6 else ([rng.random() < 0.6 for _ in fs] if m < 0.9 else [False for _ in fs])
    fdtype = rng.choice(["int64", "int64", "int64", "int32", "uint32" if UNSIGNED_FACES else "int16"])
    tags = ["mask:" + ("none" if mask is None else ("allF" if not any(mask) else ("allT" if all(mask) else "mixed")))]
    if fdtype != "int64":
        tags.insert(0, "f:" + fdtype)
    return {"kind": "far_offset_exact", "far": True, "buckets": tags, "vdtype": "float64", "fdtype": fdtype, "vertices": vs,
            "faces": fs, "ref": ref, "normal": n, "mask": mask,
            "ret_face_mapping": rng.random() < (0.6 if profile == "geom" else 0.75),
            "int32": fdtype == "int32", "has_near": False, "inexact": False}


def gen_mesh_case(rng, tier, profile):
    """profile 'geom' (C01) or 'struct' (C02): same streams, different mix."""
    if rng.random() < 0.1:
        return gen_far_case(rng, profile)
    u = rng.random()
    pk = rng.random()
    plane_kind = "axis" if pk < 0.4 else ("dyadic" if pk < 0.85 else "float")
    ref, n, tang, ax = gen_plane(rng, plane_kind)
    p_empty_v = 0.03 if profile == "geom" else 0.10
    p_empty_f = 0.03 if profile == "geom" else 0.08
    p_behind = 0.04 if profile == "geom" else 0.10
    kind = "generic"
    nv = rng.randint(1, 12)
    nf = rng.randint(1, 12)
    if u < p_empty_v:
        kind, nv, nf = "empty_vertices", 0, 0
    elif u < p_empty_v + p_empty_f:
        kind, nf = "empty_faces", 0
    # any scale: ordinary, around the 1e-8 band (2^-30..2^-8), whole mesh inside the band (2^-40..2^-31), large (up to 2^17:
    # beyond that the rounding of a cut vertex is no longer small against the band)
    sk = rng.random()
    if sk < 0.6:
        shift = rng.randint(-3, 6) if tier != "thorough" else rng.randint(-6, 9)
    elif sk < 0.75:
        shift = rng.randint(-30, -8)
    elif sk < 0.87:
        shift = rng.randint(-40, -31)
    else:
        shift = rng.randint(7, 17)
    scale = 2.0 ** shift
    on_frac = rng.choice([0.0, 0.3, 0.3, 0.3, 0.6])
    near = (plane_kind == "axis") and rng.random() < 0.35
    # oblique planes: vertices strictly inside the band (offset k |n|^2 <= 5.6e-9), snapped to the plane by the kernel
    near_oblique = (plane_kind == "dyadic") and rng.random() < 0.3
    oblique_side = rng.choice([1.0, -1.0])
    near_axis_shift = rng.choice([0, 0, -3, 4, 10, 17])  # axis planes: exact offsets at any scale of the rest of the mesh
    vs = []
    has_near = False
    for _ in range(nv):
        r = rng.random()
        if tang is not None and r < on_frac:
            a, b = rng.randint(-4, 4) / 2, rng.randint(-4, 4) / 2
            v = [ref[j] + a * tang[0][j] + b * tang[1][j] for j in range(3)]
            if near and rng.random() < 0.5:
                # inside / outside the tolerance band, never within 1e-12 of +-1e-8 (the property excludes that)
                off = rng.choice([0.5e-8, -0.5e-8, 0.9e-8, -0.9e-8, 1.1e-8, -1.1e-8, 2e-8, -2e-8, 1e-9, -1e-9])
                v = v + [("near", off / abs(n[ax]))]  # absolute offset, added after the mesh is scaled
                has_near = True
            elif near_oblique and rng.random() < 0.5:
                # inside the band on either side (|offset| <= 5.6e-9); or just OUTSIDE it (offset 1.05e-8 .. 4.5e-8 depending on
                # |n|^2) on ONE side per mesh: an edge between two inexactly computed near-band offsets of opposite sign is
                # ill-conditioned (cut parameter = ratio of two rounding-level quantities) and would only test float noise
                if rng.random() < 0.6:
                    k = rng.choice([1.0, -1.0, 0.5, -0.5, 0.25]) * 2.0 ** -31
                else:
                    nn2 = sum(x * x for x in n)
                    k = oblique_side * rng.choice([1.05e-8, 1.1e-8, 2e-8, 4e-8]) / nn2
                v = [v[j] + k * n[j] for j in range(3)]
                has_near = True
        elif plane_kind == "float" and r < on_frac * 0.5:
            v = list(ref)  # the reference point itself is the only exactly-on point of a rounded normal
        else:
            v = [_grid(rng) for _ in range(3)]
        vs.append(v)
    if has_near:
        shift = near_axis_shift if plane_kind == "axis" else 0
        scale = 2.0 ** shift
    # coincident vertices: distinct indices, equal coordinates
    if nv >= 2 and rng.random() < 0.2:
        for _ in range(rng.randint(1, 3)):
            vs[rng.randrange(nv)] = list(vs[rng.randrange(nv)])  # (copies a pending near-band offset too)
    scaled = []
    for v in vs:
        w = [x * scale for x in v[:3]]
        if len(v) == 4:
            w[ax] = ref[ax] * scale + v[3][1]
        scaled.append(w)
    vs = scaled
    ref = [x * scale for x in ref]
    if kind == "generic" and u < p_empty_v + p_empty_f + p_behind and nv:
        # plane moved so that the whole mesh is behind it (or exactly on it)
        kind = "all_behind"
        nn = np.array(n)
        far = max(float(np.dot(nn, np.array(v) - np.array(ref))) for v in vs)
        k = int(np.argmax(np.abs(nn)))
        step = (abs(far) + rng.choice([0.0, 1.0, 2.0]) * scale) / abs(nn[k])
        step = float(2.0 ** np.ceil(np.log2(step))) if step > 0 else 0.0
        ref = list(ref)
        ref[k] += step * (1 if nn[k] > 0 else -1)
    fs = []
    for _ in range(nf):
        r = rng.random()
        if nv == 0:
            break
        if r < 0.12:
            a, b = rng.randrange(nv), rng.randrange(nv)
            f = rng.choice([[a, a, b], [a, b, a], [b, a, a], [a, a, a]])
        elif r < 0.2 and fs:
            f = list(rng.choice(fs))
            if rng.random() < 0.5:
                f = f[1:] + f[:1]
        else:
            f = [rng.randrange(nv) for _ in range(3)]
        fs.append(f)
    if kind == "generic" and fs and rng.random() < 0.05:
        # NumPy wrap-around: entry i - nv reads the same vertex as i
        kind = "neg_index"
        for f in fs:
            for j in range(3):
                if rng.random() < 0.25:
                    f[j] -= nv
    if kind == "generic" and fs and rng.random() < 0.03:
        kind = "bad_index"
        fs[rng.randrange(len(fs))][rng.randrange(3)] = nv + rng.randint(0, 2)
    m = rng.random()
    if m < 0.5:
        mask = None
    elif m < 0.85:
        mask = [rng.random() < 0.6 for _ in fs]
    elif m < 0.92:
        mask = [False for _ in fs]
    else:
        mask = [True for _ in fs]
    if kind == "generic":  # (neg_index / bad_index / empty / all_behind keep their own kind)
        kind = "near_tol" if has_near else ("float_normal" if plane_kind == "float" else
                                            ("on_plane" if on_frac else "generic"))
    # vertex arrays that are not float64 (values exactly representable in the chosen dtype)
    vdtype = "float64"
    if not has_near and rng.random() < (0.06 if profile == "geom" else 0.2):
        vdtype = rng.choice(["float32", "float32", "int64", "int32", "float16"] if abs(shift) <= 6 else ["float32"])
        vs = np.array(vs, dtype=np.float64).reshape(-1, 3).astype(vdtype).astype(np.float64).tolist()
    # face arrays in other integer dtypes (entries <= 13 fit everywhere); unsigned ones only without negative entries
    fdtype = "int64"
    if rng.random() < (0.1 if profile == "geom" else 0.3):
        pool = ["int32", "int32", "int16", "int8"]
        if UNSIGNED_FACES and not any(i < 0 for f in fs for i in f):
            pool += ["uint8", "uint32", "uint32", "uint64"]
        fdtype = rng.choice(pool)
    # buckets for the evidence histogram: scale of the coordinates, non-default dtypes, kind of mask
    tags = []
    if shift <= -31:
        tags.append("scale<=2^-31")
    elif shift <= -8:
        tags.append("scale2^-30..-8")
    elif shift >= 7:
        tags.append("scale>=2^7")
    if vdtype != "float64":
        tags.append("v:" + vdtype)
    if fdtype != "int64":
        tags.append("f:" + fdtype)
    tags.append("mask:" + ("none" if mask is None else ("empty" if not mask else ("allF" if not any(mask) else
                                                                                 ("allT" if all(mask) else "mixed")))))
    return {"kind": kind, "buckets": tags, "vdtype": vdtype, "fdtype": fdtype, "vertices": vs, "faces": fs, "ref": ref, "normal": n, "mask": mask,
            "ret_face_mapping": rng.random() < (0.6 if profile == "geom" else 0.75),
            "int32": fdtype == "int32", "has_near": has_near,
            "inexact": plane_kind == "float"}


# ---- running the implementation -------------------------------------------------------------------------------
def arrays(c):
    V = np.array(c["vertices"], dtype=np.float64).reshape(-1, 3).astype(c.get("vdtype", "float64"))
    Fa = np.array(c["faces"], dtype=c.get("fdtype", "int32" if c.get("int32") else "int64")).reshape(-1, 3)
    ref = np.array(c["ref"], dtype=np.float64)
    n = np.array(c["normal"], dtype=np.float64)
    mask = None if c["mask"] is None else np.array(c["mask"], dtype=bool).reshape(-1)
    return V, Fa, ref, n, mask


def describe(res, ret):
    """JSON-able record of a returned tuple: values, dtypes, shapes."""
    if not isinstance(res, tuple) or len(res) != (3 if ret else 2):
        return {"malformed": "returned %s of length %s" % (type(res).__name__, len(res) if hasattr(res, "__len__") else "?")}
    out = {"v": res[0].tolist(), "f": res[1].tolist(), "v_dtype": str(res[0].dtype), "f_dtype": str(res[1].dtype),
           "v_shape": list(res[0].shape), "f_shape": list(res[1].shape)}
    if ret:
        out.update({"map": res[2].tolist(), "map_dtype": str(res[2].dtype), "map_shape": list(res[2].shape)})
    return out


def slice_call(V, Fa, ref, n, mask, ret):
    from polliwog.plane import slice_triangles_by_plane

    return call_impl(lambda: describe(slice_triangles_by_plane(V, Fa, ref, n, faces_to_slice=mask, ret_face_mapping=ret), ret))


def run_slice(c, extras=()):
    V, Fa, ref, n, mask = arrays(c)
    before = (V.copy(), Fa.copy(), ref.copy(), n.copy(), None if mask is None else mask.copy())
    ret = bool(c["ret_face_mapping"])
    main = slice_call(V, Fa, ref, n, mask, ret)
    o = {"main": main}
    o["args_unchanged"] = bool(np.array_equal(before[0], V) and np.array_equal(before[1], Fa) and np.array_equal(before[2], ref)
                               and np.array_equal(before[3], n) and (mask is None or np.array_equal(before[4], mask)))
    # the same call with provenance, for the oracles
    o["full"] = main if ret else slice_call(V, Fa, ref, n, mask, True)
    full = o["full"]
    if "raise" in full or "malformed" in full:
        return o
    if "behind" in extras:
        o["behind"] = slice_call(V, Fa, ref, -n, mask, True)
    if "reslice" in extras:
        V2 = np.array(full["v"], dtype=np.float64).reshape(-1, 3)
        F2 = np.array(full["f"], dtype=np.int64).reshape(-1, 3)
        ok = all(0 <= i < len(Fa) for i in full["map"]) and len(full["map"]) == len(F2)
        m2 = None if (mask is None or not ok) else np.array([bool(mask[i]) for i in full["map"]], dtype=bool)
        o["reslice"] = slice_call(V2, F2, ref, n, m2, True)
    if "perm" in extras and len(Fa) > 0:
        import random

        r = random.Random(len(Fa) * 1000 + len(V))
        perm = list(range(len(Fa)))
        r.shuffle(perm)
        o["perm"] = {"perm": perm, "res": slice_call(V, Fa[perm], ref, n, None if mask is None else mask[perm], True)}
        vp = list(range(len(V)))
        r.shuffle(vp)  # new position j holds old vertex vp[j]
        inv = [0] * len(V)
        for j, old in enumerate(vp):
            inv[old] = j
        if all(0 <= i < len(V) for i in Fa.reshape(-1)):
            Fr_ = np.array([[inv[i] for i in f] for f in Fa.tolist()], dtype=Fa.dtype).reshape(-1, 3)
            o["relabel"] = {"res": slice_call(V[vp], Fr_, ref, n, mask, True)}
    return o


def coq_slice_case(c, o):
    main = o["main"]
    vs = coq_list(qv(v) for v in c["vertices"])
    neg = any(i < 0 for f in c["faces"] for i in f)
    if neg:
        fs = coq_list("(mkzface (%d) (%d) (%d))" % tuple(f) for f in c["faces"])
    else:
        fs = coq_list("(mkface %d %d %d)" % tuple(f) for f in c["faces"])
    mask = "None" if c["mask"] is None else "(Some %s)" % coq_list(coq_bool(b) for b in c["mask"])
    if "malformed" in main:
        obs = "(Raise OtherError)"
    elif "raise" in main:
        obs = "(Raise %s)" % main["raise"]
    else:
        ret = "map" in main
        obs = "(Ok (Obs %s %s %s %s %s %s %s %s %s))" % (
            coq_list(flv(r) for r in main["v"]),
            coq_list(coq_list(coq_nat(i) for i in r) for r in main["f"]) if all(i >= 0 for r in main["f"] for i in r) else "[[0%nat]]",
            "(Some %s)" % coq_list(coq_nat(i) for i in main["map"]) if ret else "None",
            coq_nat(main["v_shape"][1] if len(main["v_shape"]) == 2 else 0),
            coq_nat(main["f_shape"][1] if len(main["f_shape"]) == 2 else 0),
            coq_bool(len(main["v_shape"]) == 2 and len(main["f_shape"]) == 2 and (not ret or len(main["map_shape"]) == 1)),
            coq_bool(main["v_dtype"] == "float64"), coq_bool(main["f_dtype"] == "int64"),
            coq_bool((not ret) or main["map_dtype"] == "int64"))
    vdt = {"float64": "VF64", "float32": "VF32", "float16": "VF16"}.get(c.get("vdtype", "float64"), "VInt")
    fdt = {"int64": "I64", "int32": "I32", "int16": "I16", "int8": "I8", "uint8": "U8", "uint32": "U32",
           "uint64": "U64"}[c.get("fdtype", "int32" if c.get("int32") else "int64")]
    return "%s %s %s %s %s %s %s" % ("CSliceZ" if neg else "CSlice %s %s" % (vdt, fdt), vs, fs, qv(c["ref"]), qv(c["normal"]), mask, obs)


# ---- exact arithmetic helpers for the oracles -------------------------------------------------------------------
def F3(v):
    return [Fr(float(x)) for x in v]


def dot(a, b):
    return a[0] * b[0] + a[1] * b[1] + a[2] * b[2]


def sub(a, b):
    return [a[0] - b[0], a[1] - b[1], a[2] - b[2]]


def cross(a, b):
    return [a[1] * b[2] - a[2] * b[1], a[2] * b[0] - a[0] * b[2], a[0] * b[1] - a[1] * b[0]]


def varea2(t):
    """twice the vector area of a triangle"""
    return cross(sub(t[1], t[0]), sub(t[2], t[0]))


def classify_d(d):
    """the code's convention: -1 front, 0 on, 1 behind"""
    return -1 if d > TOL else (1 if d < -TOL else 0)


def clipped_area2(t, ds):
    """twice the vector area of triangle t clipped to d >= 0, ds the (snapped) offsets of its corners"""
    poly = []
    for i in range(3):
        p, qq, dp, dq = t[i], t[(i + 1) % 3], ds[i], ds[(i + 1) % 3]
        if dp >= 0:
            poly.append(p)
        if (dp > 0 and dq < 0) or (dp < 0 and dq > 0):
            s = dp / (dp - dq)
            poly.append([p[j] + s * (qq[j] - p[j]) for j in range(3)])
    tot = [Fr(0)] * 3
    for i in range(1, len(poly) - 1):
        a = varea2([poly[0], poly[i], poly[i + 1]])
        tot = [x + y for x, y in zip(tot, a)]
    return tot


def point_in_face(w, t, atol):
    """is w in the convex hull of the corners of t, up to the absolute distance atol?  Exact rationals."""
    N = varea2(t)
    nn = dot(N, N)
    if nn > 0:
        # barycentric weights through sub-triangle areas projected on N
        ws = [dot(varea2([w, t[1], t[2]]), N) / nn, dot(varea2([t[0], w, t[2]]), N) / nn, dot(varea2([t[0], t[1], w]), N) / nn]
        off = dot(sub(w, t[0]), N)  # distance from the face's plane times |N|
        if off * off > atol ** 2 * nn:
            return False
        if all(x >= 0 for x in ws):
            return True
        # sliver faces make the weights ill-conditioned: fall through to the distance from the face's outline
    # degenerate (or sliver) face: distance to the nearest edge
    best = None
    for i in range(3):
        for j in range(3):
            p, qq = t[i], t[j]
            e = sub(qq, p)
            ee = dot(e, e)
            s = Fr(0) if ee == 0 else min(Fr(1), max(Fr(0), dot(sub(w, p), e) / ee))
            r = sub(w, [p[k] + s * e[k] for k in range(3)])
            dist2 = dot(r, r)
            best = dist2 if best is None or dist2 < best else best
    return best <= atol ** 2


def expected_rule(signs, selected):
    """what the property text prescribes for a face: 'keep', 'drop' or 'cut'"""
    if not selected:
        return "keep"
    if all(s <= 0 for s in signs):
        return "keep"
    if all(s >= 0 for s in signs):
        return "drop"
    return "cut"


def close_vec(a, b, rel, mag):
    return all(abs(x - y) <= rel * mag for x, y in zip(a, b))


def length_tolerance(c, rel=REL):
    """(absolute tolerance on a length / coordinate, feature size).  The feature size is the largest |v - reference point| over
    the input vertices, NOT the coordinate magnitude: a small mesh far from the origin is judged as strictly as the same mesh at
    the origin; binary64 cannot store a point better than an ulp of its magnitude, hence the second term."""
    V = [F3(v) for v in c["vertices"]]
    ref = F3(c["ref"])
    vmag = max([Fr(0)] + [abs(x) for v in V for x in v] + [abs(x) for x in ref])
    feat = max([Fr(0)] + [abs(x) for v in V for x in sub(v, ref)])
    return rel * feat + UEPS * vmag, feat


def geometry_failure(c, full, rel=REL):
    """The C01 text on a result that carries provenance (`full` = describe() of a ret_face_mapping=True call).
    Returns None or a message."""
    V = [F3(v) for v in c["vertices"]]
    Fa = c["faces"]
    ref, n = F3(c["ref"]), F3(c["normal"])
    mask = c["mask"]
    outV = [F3(v) for v in full["v"]]
    outF = full["f"]
    mp = full["map"]
    if len(mp) != len(outF):
        return "face mapping has %d entries for %d output faces" % (len(mp), len(outF))
    if any(not (0 <= i < len(Fa)) for i in mp):
        return "face mapping names a face that does not exist"
    if any(not (0 <= i < len(outV)) for f in outF for i in f):
        return "an output face indexes a vertex that was not returned"
    d = [dot(n, sub(v, ref)) for v in V]
    nsum = sum(abs(x) for x in n)
    ltol, feat = length_tolerance(c, rel)
    # the kernel works on snapped distances: a corner inside the band is cut AT that corner, so the expected clipped face
    # (computed below from the snapped distances) is met to rounding also when corners sit inside the band
    by_src = {}
    for j, i in enumerate(mp):
        by_src.setdefault(i, []).append(j)
    for i, f in enumerate(Fa):
        t = [V[k] for k in f]
        ds = [d[k] for k in f]
        signs = [classify_d(x) for x in ds]
        sel = True if mask is None else bool(mask[i])
        rule = expected_rule(signs, sel)
        outs = [[outV[k] for k in outF[j]] for j in by_src.get(i, [])]
        if rule == "keep":
            if len(outs) != 1:
                return "face %d (signs %s, selected=%s) must be returned whole, got %d output faces" % (i, signs, sel, len(outs))
            o3 = outs[0]
            if not any([o3[(r + k) % 3] for k in range(3)] == t for r in range(3)):
                return "face %d must keep its three corners in order, got %s" % (i, [[float(x) for x in p] for p in o3])
            continue
        if rule == "drop":
            if outs:
                return "face %d has no corner in front (signs %s) but %d output faces come from it" % (i, signs, len(outs))
            continue
        # cut: tiles the clipped face
        N = varea2(t)
        snapped = [Fr(0) if s == 0 else x for s, x in zip(signs, ds)]
        want = clipped_area2(t, snapped)
        got = [Fr(0)] * 3
        for o3 in outs:
            for w in o3:
                dw = dot(n, sub(w, ref))
                if dw < -TOL - ltol * nsum:
                    return "output vertex %s from face %d lies behind the plane by %.3g" % ([float(x) for x in w], i, float(-dw))
                if not point_in_face(w, t, ltol * 10):
                    return "output vertex %s lies outside input face %d it came from" % ([float(x) for x in w], i)
            a = varea2(o3)
            if dot(a, N) < -10 * ltol * feat ** 3:
                return "output triangle from face %d has flipped orientation" % i
            cr = cross(a, N)
            if dot(cr, cr) > (10 * ltol * feat ** 3) ** 2:
                return "output triangle from face %d is not in the plane of that face" % i
            got = [x + y for x, y in zip(got, a)]
        if not close_vec(got, want, 100 * ltol, feat):
            return ("outputs of face %d (signs %s) do not tile its clipped part: area %s, expected %s"
                    % (i, signs, [float(x) for x in got], [float(x) for x in want]))
    return None



def in_domain(c):
    """faces index the vertices (NumPy semantics: -k <= i < k for k vertices)"""
    nv = len(c["vertices"])
    return all(-nv <= i < nv for f in c["faces"] for i in f)


def negative_index_class(c, o, failure, disagrees=False):
    """known finding `negative_index_survives`: a face array with wrapping (negative) entries, and the call raised the
    ValueError of np.bincount — matched on the input class and the exception, never on the property id alone."""
    if disagrees:  # the model says exactly when this error occurs: a disagreement is never the known finding
        return None
    if not failure or "ValueError" not in failure:
        return None
    if not any(i < 0 for f in c.get("faces", []) for i in f):
        return None
    def raised(x):
        if isinstance(x, dict):
            if x.get("raise") == "ValueError" and "negative" in (x.get("msg") or ""):
                return True
            return any(raised(v) for v in x.values())
        return False

    return "negative_index_survives" if raised(o) else None


def histogram_kind(c):
    """kind used in the evidence histogram: base kind plus the scale / dtype / mask buckets"""
    return c["kind"] + "".join(" " + t for t in c.get("buckets", []))
