"""C05 — Plane point queries follow signed-distance semantics."""
from fractions import Fraction as Fr

import numpy as np

from common import (Kernel, call_impl, coq_bool, coq_list, coq_nat, coq_Z, fl, flv, grid_vec, q, qv,
                    rational_unit_normal)

ID = "C05"
N_CASES = {"quick": 400, "thorough": 6000, "search": 4000}
RULE = ("seeded streams: generic planes (rational unit normals, grid points, power-of-two scales), exact planes "
        "(axis / 22-bit dyadic normals with points exactly on the plane), module-level calls with shared and "
        "per-point equations; non-trivial = the call returned values (no exception); distinct by hash of inputs")
TRUSTED = ["Coq 8.16.1 kernel, vm_compute for the correspondence evaluation",
           "axioms (Print Assumptions): ClassicalDedekindReals.sig_forall_dec, sig_not_dec, "
           "FunctionalExtensionality.functional_extensionality_dep, Classical_Prop.classic (all Coq stdlib Reals)",
           "tools/symtrace.py tracing translator + numpy shim (re-validated numerically each run)",
           "coq/Agree.v agreement relation (relative tolerance 1e-9; signs compared only when |sd|>1e-8 unless arithmetic is exact)",
           "NumPy, vg"]
CASE_IMPORTS = [("PW.model", "M_plane")]
DEFINITIONAL = ["C05_stacked_is_map_single", "C05_pairs_is_map_single", "C05_distance_is_abs", "C05_pairs_length"]
ASSUMPTIONS = ["planes are built with Plane(ref, normal[, direction_decimals]) directly; the other constructors are C13's; "
               "normals unit only to 10^-d (d = 2..5) are generated and every law that needs |n| = 1 is judged up to its proved defect term",
               "value comparisons are relative to the largest input coordinate with a floor of 1 (Agree.close_mag): below "
               "coordinate scale ~2^-20 they are effectively absolute 1e-9, decisions (signs, selections) are exact there",
               "theorems are about exact real arithmetic; binary64 rounding is covered only by the tolerance of the "
               "correspondence check on sampled inputs"]


def _imports():
    return [("PW.model", "M_plane")]


def kernels():
    from polliwog import Plane
    from polliwog.plane import mirror_point_across_plane, project_point_to_plane, signed_distance_to_plane

    P1 = "(V3 p0 p1 p2)"
    P2 = "(V3 p3 p4 p5)"
    E1 = "(E4 e0 e1 e2 e3)"
    E2 = "(E4 e4 e5 e6 e7)"
    ring = "Proof. intros. unfold {T}. cbv [sd_stack sd_pairs project_stack project_pairs mirror_stack mirror_pairs map2 zip map fst snd project_eq mirror_eq translate_along sd_eq eq_normal ea eb ec ed vlist vadd vscale vdot vx vy vz]; rops. list_eq_ring. Qed."
    ks = []

    def fun_kernel(name, fn, pshape, eshape, model):
        pv = [[1.0, 2.0, 3.0], [-0.5, 4.0, 2.5]]
        ev = [[0.25, 0.5, -1.0, 2.0], [1.5, -0.5, 0.75, -3.0]]
        ks.append(Kernel(
            name, {"p": pv[0] if pshape == 1 else pv, "e": ev[0] if eshape == 1 else ev},
            lambda p, e: fn(p, e),
            "Lemma {T}_ok : forall {vars} : R, {T} ROps {vars} = %s.\n%s" % (model, ring),
            imports=_imports()))

    fun_kernel("sd_single", signed_distance_to_plane, 1, 1, "[sd_eq ROps %s %s]" % (P1, E1))
    fun_kernel("sd_stack", signed_distance_to_plane, 2, 1, "sd_stack ROps [%s; %s] %s" % (P1, P2, E1))
    fun_kernel("sd_pairs", signed_distance_to_plane, 2, 2, "sd_pairs ROps [%s; %s] [%s; %s]" % (P1, P2, E1, E2))
    fun_kernel("project_single", project_point_to_plane, 1, 1, "vlist (project_eq ROps %s %s)" % (P1, E1))
    fun_kernel("project_stack", project_point_to_plane, 2, 1,
               "flat_map vlist (project_stack ROps [%s; %s] %s)" % (P1, P2, E1))
    fun_kernel("project_pairs", project_point_to_plane, 2, 2,
               "flat_map vlist (project_pairs ROps [%s; %s] [%s; %s])" % (P1, P2, E1, E2))
    fun_kernel("mirror_single", mirror_point_across_plane, 1, 1, "vlist (mirror_eq ROps %s %s)" % (P1, E1))
    fun_kernel("mirror_stack", mirror_point_across_plane, 2, 1,
               "flat_map vlist (mirror_stack ROps [%s; %s] %s)" % (P1, P2, E1))
    fun_kernel("mirror_pairs", mirror_point_across_plane, 2, 2,
               "flat_map vlist (mirror_pairs ROps [%s; %s] [%s; %s])" % (P1, P2, E1, E2))
    for k in ks:
        k.lemma = k.lemma.replace("list_eq_ring", "cbn [flat_map app]; list_eq_ring")

    # Plane methods on one point: everything the object computes, as expressions in (ref, normal, point)
    n = [2.0 / 3, -1.0 / 3, 2.0 / 3]

    def methods(r, n, p):
        pl = Plane(r, n)
        return (pl.equation, pl.canonical_point, pl.signed_distance(p), pl.distance(p), pl.project_point(p),
                pl.mirror_point(p), pl.flipped().equation, pl.flipped().signed_distance(p))

    PL = "(MkPlane (V3 r0 r1 r2) (V3 n0 n1 n2))"
    ks.append(Kernel(
        "plane_methods", {"r": [1.0, 2.0, 3.0], "n": n, "p": [0.5, -1.0, 4.0]}, methods,
        """Lemma {T}_ok : forall {vars} : R, {T} ROps {vars} =
  let pl := %s in let p := V3 p0 p1 p2 in
  [ea (plane_equation ROps pl); eb (plane_equation ROps pl); ec (plane_equation ROps pl); ed (plane_equation ROps pl)]
  ++ vlist (canonical_point ROps pl) ++ [plane_sd ROps pl p; plane_distance ROps pl p]
  ++ vlist (plane_project ROps pl p) ++ vlist (plane_mirror ROps pl p)
  ++ [ea (plane_equation ROps (flipped ROps pl)); eb (plane_equation ROps (flipped ROps pl));
      ec (plane_equation ROps (flipped ROps pl)); ed (plane_equation ROps (flipped ROps pl))]
  ++ [plane_sd ROps (flipped ROps pl) p].
Proof. intros. unfold {T}.
  cbv [plane_sd plane_distance plane_project plane_mirror plane_equation canonical_point flipped project_eq mirror_eq
       translate_along sd_eq eq_normal ea eb ec ed pref pnormal vlist vadd vscale vneg vdot vx vy vz app]; rops.
  list_eq ltac:(try ring; try (f_equal; ring)). Qed.""" % PL,
        imports=_imports(), perturb=1e-9))

    # classification of three points (front, on, behind): concrete output, tie = path condition implies model result
    def signs(r, n, p):
        pl = Plane(r, n)
        return (pl.sign(p), pl.points_in_front(p, ret_indices=True), pl.points_in_front(p, inverted=True, ret_indices=True),
                pl.points_on_or_in_front(p, ret_indices=True), pl.points_on_or_in_front(p, inverted=True, ret_indices=True))

    PS = "[V3 p0 p1 p2; V3 p3 p4 p5; V3 p6 p7 p8]"
    ks.append(Kernel(
        "plane_signs", {"r": [0.0, 0.0, 1.0], "n": [0.0, 0.0, 1.0], "p": [[0.5, 1.0, 3.0], [2.0, -1.0, 1.0], [1.0, 1.0, -2.0]]},
        signs,
        """Lemma {T}_ok : forall {vars} : R, {T}_path ROps {vars} ->
  let pl := %s in
  map (plane_sign ROps pl) %s = [1; 0; -1]%%Z /\\
  points_in_front_idx ROps pl false %s = [0]%%nat /\\ points_in_front_idx ROps pl true %s = [2]%%nat /\\
  points_on_or_in_front_idx ROps pl false %s = [0; 1]%%nat /\\ points_on_or_in_front_idx ROps pl true %s = [1; 2]%%nat.
Proof. intros {vars} Hpath. unfold {T}_path in Hpath; rops. path_facts Hpath.
  cbv [points_in_front_idx points_on_or_in_front_idx in_front_mask on_or_in_front_mask map plane_sign nsign plane_sd
       plane_equation sd_eq eq_normal ea eb ec ed pref pnormal vdot vx vy vz]; rops.
  repeat match goal with |- context [Rltb ?a ?b] => destruct (Rltb_spec a b); try (exfalso; lra) end.
  cbn. repeat split; reflexivity. Qed.""" % (PL, PS, PS, PS, PS, PS),
        imports=_imports(), perturb=1e-9,
        expect_structure={"tuple": [
            {"shape": [3], "dtype": "int64", "data": [1, 0, -1]},
            {"shape": [1], "dtype": "int64", "data": [0]}, {"shape": [1], "dtype": "int64", "data": [2]},
            {"shape": [2], "dtype": "int64", "data": [0, 1]}, {"shape": [2], "dtype": "int64", "data": [1, 2]}]}))
    return ks


# ---------------------------------------------------------------------------------------------------------
def _dyadic22(x):
    return round(x * 2 ** 22) / 2 ** 22


def gen_cases(rng, n, tier):
    cases = []
    for i in range(n):
        u = rng.random()
        if tier == "thorough" or rng.random() < 0.15:
            scale = 2.0 ** rng.randint(-30, 30)
        else:
            scale = 2.0 ** rng.randint(-10, 10)
        if u < 0.06:
            # planes obtainable from the constructors with a looser direction_decimals: the normal is unit only to 10^-d
            d = rng.choice([2, 3, 4, 5])
            nn = np.array([float(x) for x in rational_unit_normal(rng)])
            nn = nn / np.linalg.norm(nn) * (1.0 + rng.uniform(-0.8, 0.8) * 10.0 ** (-d))
            ref = [x * scale for x in grid_vec(rng)]
            pts = [[x * scale for x in grid_vec(rng)] for _ in range(rng.randint(1, 6))]
            cases.append({"kind": "plane_loose_normal", "exact": False, "ref": ref, "normal": list(nn), "points": pts,
                          "direction_decimals": d})
            continue
        if u < 0.45:
            nrm = [float(x) for x in rational_unit_normal(rng)]
            nn = np.array(nrm)
            nrm = list(nn / np.linalg.norm(nn))
            ref = [x * scale for x in grid_vec(rng)]
            pts = [[x * scale for x in grid_vec(rng)] for _ in range(rng.randint(0, 8))]
            if pts and rng.random() < 0.3:
                pts[rng.randrange(len(pts))] = list(ref)  # exactly the reference point
            if rng.random() < 0.15 and pts:
                # integer-dtype point arrays are ordinary caller input: same values, dtype int64
                ipts = [[float(rng.randint(-6, 6)) for _ in range(3)] for _ in pts]
                cases.append({"kind": "plane_int_points", "exact": False, "ref": ref, "normal": nrm, "points": ipts, "int": True})
            else:
                cases.append({"kind": "plane_generic", "exact": False, "ref": ref, "normal": nrm, "points": pts})
        elif u < 0.75:
            # exact arithmetic: axis normals, or 22-bit dyadic normals with a zero component
            ax = rng.randrange(3)
            if rng.random() < 0.5:
                nrm = [0.0, 0.0, 0.0]
                nrm[ax] = rng.choice([1.0, -1.0])
                tang = [[1.0 if j == (ax + 1) % 3 else 0.0 for j in range(3)], [1.0 if j == (ax + 2) % 3 else 0.0 for j in range(3)]]
            else:
                a, b = rng.choice([(3, 4, ), (5, 12), (8, 15), (7, 24), (20, 21)])
                c = (a * a + b * b) ** 0.5
                a, b = _dyadic22(a / c) * rng.choice([1, -1]), _dyadic22(b / c) * rng.choice([1, -1])
                nrm = [0.0, 0.0, 0.0]
                nrm[(ax + 1) % 3], nrm[(ax + 2) % 3] = a, b
                t1 = [0.0, 0.0, 0.0]
                t1[(ax + 1) % 3], t1[(ax + 2) % 3] = -b, a
                t2 = [1.0 if j == ax else 0.0 for j in range(3)]
                tang = [t1, t2]
            ref = [x * scale for x in grid_vec(rng, -4, 4, 2)]
            pts = []
            for _ in range(rng.randint(1, 8)):
                k1, k2 = rng.randint(-4, 4) / 2 * scale, rng.randint(-4, 4) / 2 * scale
                off = rng.choice([0, 0, 1, -1, 2, -3]) / 2 * scale
                pts.append([ref[j] + k1 * tang[0][j] + k2 * tang[1][j] + off * nrm[j] for j in range(3)])
            cases.append({"kind": "plane_exact", "exact": True, "ref": ref, "normal": nrm, "points": pts})
        elif u < 0.88:
            pts = [[x * scale for x in grid_vec(rng)] for _ in range(rng.randint(0, 6))]
            e = [x for x in grid_vec(rng, -2, 2, 4)] + [rng.randint(-8, 8) / 2 * scale]
            if rng.random() < 0.2 and pts:
                pts = [[float(rng.randint(-6, 6)) for _ in range(3)] for _ in pts]
                cases.append({"kind": "shared_int_points", "points": pts, "eq": e, "single": False, "int": True})
                continue
            if rng.random() < 0.3 and pts:
                cases.append({"kind": "shared_single", "points": pts[:1], "eq": e, "single": True})
            else:
                cases.append({"kind": "shared", "points": pts, "eq": e, "single": False})
        else:
            k = rng.randint(0, 6)
            pts = [[x * scale for x in grid_vec(rng)] for _ in range(k)]
            es = [[x for x in grid_vec(rng, -2, 2, 4)] + [rng.randint(-8, 8) / 2 * scale] for _ in range(k)]
            cases.append({"kind": "pairs", "points": pts, "eqs": es})
    return cases


def _arr(pts):
    return np.array(pts, dtype=np.float64).reshape(-1, 3)


def run_impl(c):
    from polliwog import Plane
    from polliwog.plane import mirror_point_across_plane, project_point_to_plane, signed_distance_to_plane

    def go():
        if c["kind"].startswith("plane"):
            pl = Plane(np.array(c["ref"]), np.array(c["normal"]), direction_decimals=c.get("direction_decimals"))
            pts = _arr(c["points"])
            if c.get("int"):
                pts = pts.astype(np.int64)
            before = pts.copy()
            o = {
                "ref": pl.reference_point.tolist(), "normal": pl.normal.tolist(),
                "sd": pl.signed_distance(pts).tolist(), "sign": [int(s) for s in pl.sign(pts)],
                "dist": pl.distance(pts).tolist(),
                "front": pl.points_in_front(pts, ret_indices=True).tolist(),
                "front_inv": pl.points_in_front(pts, inverted=True, ret_indices=True).tolist(),
                "onfront": pl.points_on_or_in_front(pts, ret_indices=True).tolist(),
                "onfront_inv": pl.points_on_or_in_front(pts, inverted=True, ret_indices=True).tolist(),
                "front_pts": pl.points_in_front(pts).tolist(),
                "onfront_inv_pts": pl.points_on_or_in_front(pts, inverted=True).tolist(),
                "front_inv_pts": pl.points_in_front(pts, inverted=True).tolist(),
                "onfront_pts": pl.points_on_or_in_front(pts).tolist(),
                "single_sign": [int(pl.sign(p)) for p in pts],
                "single_dist": [float(pl.distance(p)) for p in pts],
                "single_mirror": [pl.mirror_point(p).tolist() for p in pts],
                "proj": pl.project_point(pts).tolist(), "mirror": pl.mirror_point(pts).tolist(),
                "eq": pl.equation.tolist(), "canon": pl.canonical_point.tolist(),
                "flip_eq": pl.flipped().equation.tolist(),
                "single_sd": [float(pl.signed_distance(p)) for p in pts],
                "single_proj": [pl.project_point(p).tolist() for p in pts],
                "proj_proj": pl.project_point(pl.project_point(pts)).tolist(),
                "mirror_mirror": pl.mirror_point(pl.mirror_point(pts)).tolist(),
                "flip_sd": pl.flipped().signed_distance(pts).tolist(),
                "args_unchanged": bool(np.array_equal(before, pts)),
            }
            return o
        if c["kind"] in ("shared", "shared_single", "shared_int_points"):
            pts = _arr(c["points"])
            if c.get("int"):
                pts = pts.astype(np.int64)
            e = np.array(c["eq"])
            if c["single"]:
                p = pts[0]
                return {"sd": [float(signed_distance_to_plane(p, e))], "proj": [project_point_to_plane(p, e).tolist()],
                        "mirror": [mirror_point_across_plane(p, e).tolist()]}
            return {"sd": signed_distance_to_plane(pts, e).tolist(), "proj": project_point_to_plane(pts, e).tolist(),
                    "mirror": mirror_point_across_plane(pts, e).tolist()}
        pts = _arr(c["points"])
        es = np.array(c["eqs"], dtype=np.float64).reshape(-1, 4)
        return {"sd": signed_distance_to_plane(pts, es).tolist(), "proj": project_point_to_plane(pts, es).tolist(),
                "mirror": mirror_point_across_plane(pts, es).tolist()}

    return call_impl(go)


def _vecs(vs):
    return coq_list(flv(v) for v in vs)


def coq_case(c, o):
    if isinstance(o, dict) and "raise" in o:
        # no call of this property's generators is expected to raise: make the case fail in Coq
        return "CShared [] (E4 0 0 0 0) [FNan] [] []"
    if c["kind"].startswith("plane"):
        pl = "(MkPlane %s %s)" % (qv(o["ref"]), qv(o["normal"]))
        obs = "(PlaneObs %s %s %s %s %s %s %s %s %s %s %s %s %s %s %s %s %s %s %s %s)" % (
            flv(o["sd"]), coq_list(coq_Z(s) for s in o["sign"]), flv(o["dist"]),
            coq_list(coq_nat(i) for i in o["front"]), coq_list(coq_nat(i) for i in o["front_inv"]),
            coq_list(coq_nat(i) for i in o["onfront"]), coq_list(coq_nat(i) for i in o["onfront_inv"]),
            _vecs(o["front_pts"]), _vecs(o["onfront_inv_pts"]), _vecs(o["front_inv_pts"]), _vecs(o["onfront_pts"]),
            coq_list(coq_Z(s) for s in o["single_sign"]), flv(o["single_dist"]), _vecs(o["single_mirror"]),
            _vecs(o["proj"]), _vecs(o["mirror"]),
            flv(o["eq"]), flv(o["canon"]), flv(o["flip_eq"]), flv(o["single_sd"]))
        return "CPlane %s %s %s %s" % (coq_bool(c["exact"]), pl, coq_list(qv(p) for p in c["points"]), obs)
    if c["kind"] in ("shared", "shared_single", "shared_int_points"):
        e = "(E4 %s)" % " ".join(q(x) for x in c["eq"])
        return "CShared %s %s %s %s %s" % (coq_list(qv(p) for p in c["points"]), e, flv(o["sd"]), _vecs(o["proj"]), _vecs(o["mirror"]))
    es = coq_list("(E4 %s)" % " ".join(q(x) for x in e) for e in c["eqs"])
    return "CPairs %s %s %s %s %s" % (coq_list(qv(p) for p in c["points"]), es, flv(o["sd"]), _vecs(o["proj"]), _vecs(o["mirror"]))


# ---------------------------------------------------------------------------------------------------------
def _F(v):
    return [Fr(float(x)) for x in v]


def _dot(a, b):
    return sum(x * y for x, y in zip(a, b))


def _close(a, b, scale=1, extra=0):
    return abs(Fr(float(a)) - b) <= Fr(1, 10 ** 9) * max(1, abs(b), scale) + extra


def oracle(c, o):
    """The property text evaluated on the implementation's outputs with exact rational arithmetic."""
    if isinstance(o, dict) and "raise" in o:
        return "unexpected exception %s: %s" % (o["raise"], o.get("msg"))
    if c["kind"].startswith("plane"):
        ref, nrm = _F(o["ref"]), _F(o["normal"])
        pts = [_F(p) for p in c["points"]]
        k = len(pts)
        if not o["args_unchanged"]:
            return "argument array was modified"
        mag = max([1] + [abs(x) for x in ref] + [abs(x) for p in pts for x in p])
        sds = [_dot([a - b for a, b in zip(p, ref)], nrm) for p in pts]
        band = Fr(1, 10 ** 8) * mag
        for i, (sd, p) in enumerate(zip(sds, pts)):
            if not _close(o["sd"][i], sd, mag):
                return "signed_distance[%d]=%r but (p-ref).n=%s" % (i, o["sd"][i], float(sd))
            if not _close(o["single_sd"][i], sd, mag):
                return "single-point signed_distance differs from stacked at row %d" % i
            if not _close(o["dist"][i], abs(sd), mag):
                return "distance[%d] is not |signed distance|" % i
            if not _close(o["flip_sd"][i], -sd, mag):
                return "flipped() does not negate the signed distance at row %d" % i
            decided = c["exact"] or abs(sd) > band
            want = 1 if sd > 0 else (-1 if sd < 0 else 0)
            if decided and o["sign"][i] != want:
                return "sign[%d]=%d but signed distance is %s" % (i, o["sign"][i], float(sd))
            # "classify by exactly that value": sign and distance are functions of the number signed_distance itself
            # returned for this row, whatever rounding went into it (no band: both come from the same call form)
            own = o["sd"][i]
            if isinstance(own, (int, float)) and own == own and o["sign"][i] != (1 if own > 0 else (-1 if own < 0 else 0)):
                return "sign[%d]=%d but signed_distance returned %r for the same row" % (i, o["sign"][i], own)
            if isinstance(own, float) and own == own and isinstance(o["dist"][i], float) and o["dist"][i] != abs(own):
                return "distance[%d]=%r is not the absolute value of the returned signed distance %r" % (i, o["dist"][i], own)
            # projection: on the plane, moved along the normal; mirror negates; midpoint is projection
            pr, mi = _F(o["proj"][i]), _F(o["mirror"][i])
            n2 = _dot(nrm, nrm)
            # the constructor accepts normals that are unit only to 1e-6: the laws that need |n|=1 hold up to that defect
            slack = Fr(9, 2) * abs(sd) * abs(n2 - 1)  # exact defects: C05_project_twice_defect, C05_mirror_twice_defect (factor 4|n_j|)
            for j in range(3):
                if not _close(o["proj"][i][j], p[j] - sd * nrm[j], mag):
                    return "project_point[%d] is not p - sd*n" % i
                if not _close(o["mirror"][i][j], p[j] - 2 * sd * nrm[j], mag):
                    return "mirror_point[%d] is not p - 2*sd*n" % i
                if not _close(o["proj_proj"][i][j], pr[j], mag, slack):
                    return "project_point is not idempotent at row %d" % i
                if not _close(o["mirror_mirror"][i][j], p[j], mag, slack):
                    return "mirror_point is not an involution at row %d" % i
                if not _close(o["single_proj"][i][j], pr[j], mag):
                    return "single-point project differs from stacked at row %d" % i
            if abs(_dot([a - b for a, b in zip(pr, ref)], nrm)) > Fr(1, 10 ** 6) * mag + slack:
                return "projected point %d is not on the plane" % i
        # partitions are exact statements about the returned index sets
        fr, fri, on, oni = o["front"], o["front_inv"], o["onfront"], o["onfront_inv"]
        if sorted(fr + oni) != list(range(k)) or set(fr) & set(oni):
            return "in-front and inverted on-or-in-front do not partition the points: %r %r" % (fr, oni)
        if sorted(on + fri) != list(range(k)) or set(on) & set(fri):
            return "on-or-in-front and inverted in-front do not partition the points: %r %r" % (on, fri)
        for name, idx in (("front", fr), ("front_inv", fri), ("onfront", on), ("onfront_inv", oni)):
            if idx != sorted(idx):
                return "%s indices not ascending" % name
        for i in range(k):
            s = o["sign"][i]
            if (i in fr) != (s > 0) or (i in fri) != (s < 0) or (i in on) != (s >= 0) or (i in oni) != (s <= 0):
                return "selection disagrees with sign at row %d" % i
        if o["front_pts"] != [c["points"][i] for i in fr]:
            return "points_in_front does not return the rows at its indices"
        if o["onfront_inv_pts"] != [c["points"][i] for i in oni]:
            return "points_on_or_in_front(inverted) does not return the rows at its indices"
        if o["front_inv_pts"] != [c["points"][i] for i in fri]:
            return "points_in_front(inverted) does not return the rows at its indices"
        if o["onfront_pts"] != [c["points"][i] for i in on]:
            return "points_on_or_in_front does not return the rows at its indices"
        for i in range(k):
            if o["single_sign"][i] != o["sign"][i] and (c["exact"] or abs(sds[i]) > band):
                return "single-point sign differs from the stacked sign at row %d" % i
        # (stacked and single forms may differ in the last ulp: different summation order inside NumPy)
        for i in range(k):
            if not _close(o["single_dist"][i], Fr(o["dist"][i]), mag):
                return "single-point distance differs from the stacked distance at row %d" % i
            for j in range(3):
                if not _close(o["single_mirror"][i][j], Fr(o["mirror"][i][j]), mag):
                    return "single-point mirror_point differs from the stacked result at row %d" % i
        # equation / canonical point / flipped
        e = _F(o["eq"])
        if e[:3] != nrm or not _close(o["eq"][3], -_dot(ref, nrm), mag):
            return "equation is not [n, -ref.n]"
        cp = _F(o["canon"])
        # sd(canonical point) = (ref.n)(|n|^2 - 1) exactly (theorem C05_canonical_sd_defect): zero only for an exactly unit normal
        n2 = _dot(nrm, nrm)
        if abs(_dot(cp, nrm) + e[3]) > Fr(1, 10 ** 6) * mag + 2 * abs(_dot(ref, nrm)) * abs(n2 - 1):
            return "canonical_point is not on the plane described by equation"
        fe = _F(o["flip_eq"])
        if fe[:3] != [-x for x in nrm] or not _close(o["flip_eq"][3], _dot(ref, nrm), mag):
            return "flipped().equation is not the negated equation"
        return None
    # module-level functions
    pts = [_F(p) for p in c["points"]]
    eqs = [_F(c["eq"])] * len(pts) if "eq" in c else [_F(e) for e in c["eqs"]]
    if len(o["sd"]) != len(pts) or len(o["proj"]) != len(pts) or len(o["mirror"]) != len(pts):
        return "stacked result has the wrong number of rows"
    for i, (p, e) in enumerate(zip(pts, eqs)):
        # rounding is relative to the terms that are actually added: |p||n| + |d| for sd, times (1 + |n|^2) for the moves
        nmax = max([1] + [abs(x) for x in e[:3]])
        mag = (max([1] + [abs(x) for x in p]) * nmax + abs(e[3])) * 3
        sd = _dot(p, e[:3]) + e[3]
        if not _close(o["sd"][i], sd, mag):
            return "signed_distance_to_plane row %d is not p.n + d" % i
        for j in range(3):
            if not _close(o["proj"][i][j], p[j] - sd * e[j], mag * (1 + nmax * nmax)):
                return "project_point_to_plane row %d is not p - sd*n" % i
            if not _close(o["mirror"][i][j], p[j] - 2 * sd * e[j], mag * (1 + nmax * nmax) * 2):
                return "mirror_point_across_plane row %d is not p - 2*sd*n" % i
    return None


def classify(c, o, failure, disagrees):
    return None
