"""C13 — Plane constructors yield the plane they describe, with a real unit normal."""
import math
from fractions import Fraction as Fr

import numpy as np

from common import Kernel, call_impl, coq_bool, coq_list, fl, flv, grid_vec, q, qv, rational_unit_normal

ID = "C13"
N_CASES = {"quick": 360, "thorough": 4000, "search": 3000}
SHARD = 60
RULE = ("seeded streams: constructor with normals unit / off by multiples of the tolerance / zero, for several "
        "direction_decimals; from_point_and_normal (grid normals, zero); from_points (grid triples, collinear, repeated); "
        "from_points_and_vector (incl. parallel); fit_from_points (generic, nearly planar, exactly planar, collinear, "
        "lattice clouds of 3..14 points); tilted (axis and rational planes, degenerate tilt); equation functions on "
        "stacks of 1..5 triangles and on each triangle alone; coordinate planes; power-of-two scales; "
        "non-trivial = a plane was returned; distinct by hash of inputs")
TRUSTED = ["Coq 8.16.1 kernel, vm_compute for the correspondence evaluation",
           "axioms (Print Assumptions): ClassicalDedekindReals.sig_forall_dec, sig_not_dec, "
           "FunctionalExtensionality.functional_extensionality_dep, Classical_Prop.classic (all Coq stdlib Reals)",
           "tools/symtrace.py tracing translator + numpy shim (re-validated numerically each run)",
           "coq/Agree.v agreement relation (tolerance 1e-9, reference points relative to the input magnitude)",
           "LAPACK symmetric eigen-solver (np.linalg.eigh): trusted through its contract (orthonormal eigenvectors of "
           "the covariance), which the correspondence re-checks on every fitted cloud against the model's covariance",
           "math.cos / math.sin / arccos: NumPy's values passed as data, re-checked against the model's own "
           "trigonometry on the `tilted_full` cases",
           "NumPy, vg"]
CASE_IMPORTS = [("PW.model", "M_plane"), ("PW.model", "M_plane_ctor")]
ASSUMPTIONS = ["theorems are about exact real arithmetic",
               "fit_from_points is modelled with fixes/C13-fit-real-normal.diff applied (np.linalg.eigh)",
               "fit optimality is proved under the eigen-solver contract, not for LAPACK itself"]
IMPORTS = [("PW.model", "M_plane"), ("PW.model", "M_plane_ctor"), ("PW.proofs", "P_vec")]

ATOL6 = 0.1 ** 6


def kernels():
    from polliwog import Plane
    from polliwog.plane import plane_equation_from_points, plane_normal_from_points

    ks = []
    unf = ("cbv [from_point_and_normal from_points from_points_and_vector plane_normal_from_points plane_equation_from_points "
           "tri_cross vnormalize vnorm vnorm2 vdivs vdot vcross vsub vlist vx vy vz pref pnormal ea eb ec ed app]; rops")
    solve = "list_eq ltac:(first [reflexivity | ring | (f_equal; [ring | f_equal; ring]) | (f_equal; f_equal; ring) | (f_equal; ring)])"

    def plane_out(pl):
        return (pl.reference_point, pl.normal)

    ks.append(Kernel(
        "from_point_and_normal", {"r": [1.0, 2.0, 3.0], "v": [2.0, -1.0, 2.0]},
        lambda r, v: plane_out(Plane.from_point_and_normal(r, v)),
        """Lemma {T}_ok : forall {vars} : R, {T} ROps {vars} = vlist (V3 r0 r1 r2) ++ vlist (vnormalize ROps (V3 v0 v1 v2)).
Proof. intros. unfold {T}. cbv zeta. %s. %s. Qed.""" % (unf, solve), imports=IMPORTS, perturb=1e-3))
    ks.append(Kernel(
        "from_points", {"a": [0.0, 0.0, 1.0], "b": [2.0, 0.5, 1.0], "c": [0.5, 3.0, 2.0]},
        lambda a, b, c: plane_out(Plane.from_points(a, b, c)),
        """Lemma {T}_ok : forall {vars} : R, {T} ROps {vars} =
  vlist (V3 a0 a1 a2) ++ vlist (vnormalize ROps (tri_cross ROps (V3 a0 a1 a2) (V3 b0 b1 b2) (V3 c0 c1 c2))).
Proof. intros. unfold {T}. cbv zeta. %s. %s. Qed.""" % (unf, solve), imports=IMPORTS, perturb=1e-3))
    ks.append(Kernel(
        "from_points_and_vector", {"a": [0.0, 0.0, 1.0], "b": [2.0, 0.5, 1.0], "v": [0.5, 3.0, 2.0]},
        lambda a, b, v: plane_out(Plane.from_points_and_vector(a, b, v)),
        """Lemma {T}_ok : forall {vars} : R, {T} ROps {vars} =
  vlist (V3 a0 a1 a2) ++ vlist (vnormalize ROps (vcross ROps (vsub ROps (V3 b0 b1 b2) (V3 a0 a1 a2)) (V3 v0 v1 v2))).
Proof. intros. unfold {T}. cbv zeta. %s. %s. Qed.""" % (unf, solve), imports=IMPORTS, perturb=1e-3))
    EQ = ("(let n := vnormalize ROps (tri_cross ROps (V3 t{0} t{1} t{2}) (V3 t{3} t{4} t{5}) (V3 t{6} t{7} t{8})) in "
          "[vx n; vy n; vz n; - vdot ROps (V3 t{0} t{1} t{2}) n])")
    ks.append(Kernel(
        "plane_equation_single", {"t": [[0.0, 0.0, 1.0], [2.0, 0.5, 1.0], [0.5, 3.0, 2.0]]},
        lambda t: plane_equation_from_points(t),
        """Lemma {T}_ok : forall {vars} : R, {T} ROps {vars} = %s.
Proof. intros. unfold {T}. cbv zeta. %s. %s. Qed.""" % (EQ.format(*range(9)), unf, solve), imports=IMPORTS, perturb=1e-3))
    ks.append(Kernel(
        "plane_equation_stack", {"t": [[[0.0, 0.0, 1.0], [2.0, 0.5, 1.0], [0.5, 3.0, 2.0]],
                                       [[1.0, 0.0, 0.0], [0.0, 2.0, 0.5], [-1.0, 0.5, 3.0]]]},
        lambda t: plane_equation_from_points(t),
        """Lemma {T}_ok : forall {vars} : R, {T} ROps {vars} = %s ++ %s.
Proof. intros. unfold {T}. cbv zeta. %s. %s. Qed.""" % (EQ.format(*range(9)), EQ.format(*range(9, 18)), unf, solve),
        imports=IMPORTS, perturb=1e-3))
    ks.append(Kernel(
        "plane_normal_raw", {"t": [[0.0, 0.0, 1.0], [2.0, 0.5, 1.0], [0.5, 3.0, 2.0]]},
        lambda t: plane_normal_from_points(t, normalize=False),
        """Lemma {T}_ok : forall {vars} : R, {T} ROps {vars} = vlist (tri_cross ROps (V3 t0 t1 t2) (V3 t3 t4 t5) (V3 t6 t7 t8)).
Proof. intros. unfold {T}. cbv zeta. %s. %s. Qed.""" % (unf, solve), imports=IMPORTS, perturb=1e-3))
    return ks


# ---------------------------------------------------------------------------------------------------------
def _unit(rng):
    n = np.array([float(x) for x in rational_unit_normal(rng)])
    return list(n / np.linalg.norm(n))


def _scale(rng, tier):
    return 2.0 ** rng.randint(-10, 10) if tier != "thorough" else 2.0 ** rng.randint(-30, 30)


def _sv(v, s):
    return [x * s for x in v]


def _tilt_cs(pl, newp, cop):
    from vg.compat import v2 as vg
    with np.errstate(all="ignore"):
        vo = pl.project_point(newp) - cop
        vn = newp - cop
        axis = vg.perpendicular(vo, pl.normal)
        ang = vg.signed_angle(vo, vn, look=axis, units="rad")
    ang = float(ang)
    if math.isnan(ang):
        return None
    return math.cos(ang), math.sin(ang)


def gen_cases(rng, n, tier):
    cases = [{"kind": "coord"}]
    full_budget = 3 if tier == "quick" else 12
    for i in range(n):
        u = rng.random()
        sc = _scale(rng, tier)
        if u < 0.14:
            d = rng.choice([None, None, 3, 6, 8])
            atol = 0.1 ** (6 if d is None else d)
            nrm = _unit(rng) if rng.random() < 0.7 else [float(x) for x in rng.choice([[1, 0, 0], [0, -1, 0], [0, 0, 1]])]
            k = rng.choice([0, 0, 0.3, -0.3, 3, -3, 10, 1000, -0.9 / atol])
            nrm = [x * (1 + k * atol) for x in nrm]
            if rng.random() < 0.05:
                nrm = [0.0, 0.0, 0.0]
            cases.append({"kind": "ctor", "decimals": d, "ref": _sv(grid_vec(rng), sc), "normal": nrm})
        elif u < 0.26:
            d = rng.choice([None, None, 4])
            v = _sv(grid_vec(rng, -6, 6, 2), sc) if rng.random() < 0.9 else [0.0, 0.0, 0.0]
            cases.append({"kind": "fpn", "decimals": d, "ref": _sv(grid_vec(rng), sc), "normal": v})
        elif u < 0.42:
            p1, p2, p3 = grid_vec(rng), grid_vec(rng), grid_vec(rng)
            m = rng.random()
            if m < 0.12:
                k = rng.choice([-2, -1, 0.5, 2, 3])
                p3 = [a + k * (b - a) for a, b in zip(p1, p2)]  # exactly collinear
            elif m < 0.18:
                p2 = list(p1)
            cases.append({"kind": "from_points", "p": [_sv(p1, sc), _sv(p2, sc), _sv(p3, sc)]})
        elif u < 0.54:
            p1, p2 = grid_vec(rng), grid_vec(rng)
            v = grid_vec(rng, -3, 3, 2)
            if rng.random() < 0.12:
                k = rng.choice([-2, 0.5, 1, 3])
                v = [k * (b - a) for a, b in zip(p1, p2)]  # parallel to p2 - p1
            cases.append({"kind": "fpv", "decimals": rng.choice([None, None, 5]), "p1": _sv(p1, sc), "p2": _sv(p2, sc),
                          "vector": v})
        elif u < 0.74:
            k = rng.randint(3, 14)
            mode = rng.choice(["generic", "generic", "nearly_planar", "planar", "collinear", "lattice"])
            if mode == "generic":
                pts = [grid_vec(rng, -6, 6, 4) for _ in range(k)]
            elif mode == "lattice":
                pts = [[float(rng.randint(-2, 2)) for _ in range(3)] for _ in range(k)]
            elif mode == "collinear":
                a, dvec = grid_vec(rng), grid_vec(rng, -2, 2, 2)
                pts = [[x + t * y for x, y in zip(a, dvec)] for t in rng.sample(range(-8, 9), min(k, 10))]
            else:
                nrm = [float(x) for x in rational_unit_normal(rng)]
                t1 = np.cross(nrm, [1.0, 0.3, -0.2])
                t2 = np.cross(nrm, t1)
                a = np.array(grid_vec(rng))
                pts = []
                for _ in range(k):
                    off = 0.0 if mode == "planar" else rng.uniform(-1, 1) * 1e-3
                    pts.append(list(a + rng.uniform(-3, 3) * t1 + rng.uniform(-3, 3) * t2 + off * np.array(nrm)))
                if mode == "planar" and rng.random() < 0.5:
                    pts = [[rng.randint(-8, 8) / 2, rng.randint(-8, 8) / 2, 1.5] for _ in range(k)]
            cases.append({"kind": "fit_" + mode, "points": [_sv(p, sc) for p in pts]})
        elif u < 0.88:
            exact = rng.random() < 0.4
            if exact:
                ax = rng.randrange(3)
                nrm = [0.0, 0.0, 0.0]
                nrm[ax] = rng.choice([1.0, -1.0])
                ref = grid_vec(rng)
                cop = grid_vec(rng)
                cop[ax] = ref[ax]
                newp = grid_vec(rng)
                if rng.random() < 0.25:
                    newp = list(cop)
                    newp[ax] += rng.choice([1.0, -2.0, 0.5])  # straight above the retained point: no tilt axis
                elif rng.random() < 0.2:
                    newp[ax] = ref[ax]  # already in the plane
            else:
                nrm = _unit(rng)
                ref = grid_vec(rng)
                t1 = np.cross(nrm, [0.3, 1.0, -0.2])
                t2 = np.cross(nrm, t1)
                cop = list(np.array(ref) + rng.randint(-4, 4) / 2 * t1 + rng.randint(-4, 4) / 2 * t2)
                newp = grid_vec(rng)
            full = False
            if full_budget > 0 and not exact:
                full, full_budget = True, full_budget - 1
            cases.append({"kind": "tilted_full" if full else ("tilted_exact" if exact else "tilted"), "ref": _sv(ref, sc),
                          "normal": nrm, "new_point": _sv(newp, sc), "coplanar": _sv(cop, sc)})
        else:
            k = rng.randint(1, 5)
            ts = []
            for _ in range(k):
                p1, p2, p3 = grid_vec(rng), grid_vec(rng), grid_vec(rng)
                if rng.random() < 0.15:
                    p3 = [a + 2 * (b - a) for a, b in zip(p1, p2)]
                ts.append([_sv(p1, sc), _sv(p2, sc), _sv(p3, sc)])
            cases.append({"kind": "equations", "tris": ts})
    return cases


def _obs_plane(pl):
    nrm = np.asarray(pl.normal)
    return {"ref": np.asarray(pl.reference_point).real.tolist(), "normal": nrm.real.tolist(),
            "imag": float(np.abs(nrm.imag).max()) if np.iscomplexobj(nrm) else 0.0,
            "dtype": str(nrm.dtype), "ref_dtype": str(np.asarray(pl.reference_point).dtype),
            "readonly": (not pl.normal.flags.writeable) and (not pl.reference_point.flags.writeable)}


def run_impl(c):
    from polliwog import Plane
    from polliwog.plane import (normal_and_offset_from_plane_equations, plane_equation_from_points,
                                plane_normal_from_points)

    def go():
        k = c["kind"]
        with np.errstate(all="ignore"):
            if k == "coord":
                return {"xy": _obs_plane(Plane.xy), "xz": _obs_plane(Plane.xz), "yz": _obs_plane(Plane.yz)}
            if k == "ctor":
                ref, nrm = np.array(c["ref"]), np.array(c["normal"])
                pl = Plane(ref, nrm) if c["decimals"] is None else Plane(ref, nrm, direction_decimals=c["decimals"])
                o = _obs_plane(pl)
                ref[0] += 1.0  # defensive copy: mutating the argument afterwards must not change the plane
                o["copied"] = bool(pl.reference_point[0] == c["ref"][0])
                return o
            if k == "fpn":
                kw = {} if c["decimals"] is None else {"direction_decimals": c["decimals"]}
                return _obs_plane(Plane.from_point_and_normal(np.array(c["ref"]), np.array(c["normal"]), **kw))
            if k == "from_points":
                p = [np.array(x) for x in c["p"]]
                return _obs_plane(Plane.from_points(*p))
            if k == "fpv":
                kw = {} if c["decimals"] is None else {"direction_decimals": c["decimals"]}
                return _obs_plane(Plane.from_points_and_vector(np.array(c["p1"]), np.array(c["p2"]), np.array(c["vector"]), **kw))
            if k.startswith("fit_"):
                pts = np.array(c["points"])
                return _obs_plane(Plane.fit_from_points(pts))
            if k.startswith("tilted"):
                pl = Plane(np.array(c["ref"]), np.array(c["normal"]))
                return _obs_plane(pl.tilted(np.array(c["new_point"]), np.array(c["coplanar"])))
            ts = np.array(c["tris"])
            e_stack = plane_equation_from_points(ts)
            no_n, no_o = normal_and_offset_from_plane_equations(e_stack)
            one_n, one_o = normal_and_offset_from_plane_equations(e_stack[0])
            return {"n_stack": plane_normal_from_points(ts).tolist(),
                    "n_single": [plane_normal_from_points(t).tolist() for t in ts],
                    "raw_stack": plane_normal_from_points(ts, normalize=False).tolist(),
                    "e_stack": e_stack.tolist(), "e_single": [plane_equation_from_points(t).tolist() for t in ts],
                    "no_normals": no_n.tolist(), "no_offsets": no_o.tolist(),
                    "no_exact": bool(np.array_equal(no_n, e_stack[:, :3], equal_nan=True) and np.array_equal(no_o, e_stack[:, 3], equal_nan=True)
                                     and np.array_equal(one_n, e_stack[0, :3], equal_nan=True)
                                     and (one_o == e_stack[0, 3] or (one_o != one_o)))}

    return call_impl(go)


def _oplane(o):
    return "(OPlane %s %s %s)" % (flv(o["ref"]), flv(o["normal"]), coq_bool(o["dtype"] == "float64"))


def _obs(o):
    if "raise" in o:
        return "(Raise %s)" % o["raise"]
    return "(Ok %s)" % _oplane(o)


def _atol(d):
    return q(0.1 ** (6 if d is None else d))


def _eig_of(points):
    pts = np.array(points)
    with np.errstate(all="ignore"):
        w, v = np.linalg.eigh(np.cov(pts.T))
    return w, v


def coq_case(c, o):
    k = c["kind"]
    if k == "coord":
        if "raise" in o:
            return "CCoord (OPlane [] [] false) (OPlane [] [] false) (OPlane [] [] false)"
        return "CCoord %s %s %s" % (_oplane(o["xy"]), _oplane(o["xz"]), _oplane(o["yz"]))
    if k == "ctor":
        return "CCtor %s %s %s %s" % (_atol(c["decimals"]), qv(c["ref"]), qv(c["normal"]), _obs(o))
    if k == "fpn":
        return "CFpn %s %s %s %s" % (_atol(c["decimals"]), qv(c["ref"]), qv(c["normal"]), _obs(o))
    if k == "from_points":
        return "CFromPoints %s %s %s %s" % (qv(c["p"][0]), qv(c["p"][1]), qv(c["p"][2]), _obs(o))
    if k == "fpv":
        return "CFpv %s %s %s %s %s" % (_atol(c["decimals"]), qv(c["p1"]), qv(c["p2"]), qv(c["vector"]), _obs(o))
    if k.startswith("fit_"):
        w, v = _eig_of(c["points"])
        if not (np.all(np.isfinite(w)) and np.all(np.isfinite(v))):
            return "CSkip"
        sc = max(1e-300, float(np.max(np.abs(w))))
        gaps = [abs(w[i] - w[j]) for i in range(3) for j in range(i)]
        if min(gaps) <= 1e-7 * sc:
            return "CSkip"  # tie: the eigenbasis (hence the sign pattern of the cross product) is not determined
        e = "(Eig3 %s %s %s %s %s %s)" % (q(w[0]), q(w[1]), q(w[2]), qv(v[:, 0]), qv(v[:, 1]), qv(v[:, 2]))
        return "CFit %s %s %s" % (coq_list(qv(p) for p in c["points"]), e, _obs(o))
    if k.startswith("tilted"):
        from polliwog import Plane
        pl = Plane(np.array(c["ref"]), np.array(c["normal"]))
        cs = _tilt_cs(pl, np.array(c["new_point"]), np.array(c["coplanar"]))
        if cs is None:
            cs = (1.0, 0.0)
        return "CTilted %s (MkPlane %s %s) %s %s %s %s %s" % (
            coq_bool(k == "tilted_full" and "raise" not in o), qv(c["ref"]), qv(c["normal"]), qv(c["new_point"]),
            qv(c["coplanar"]), q(cs[0]), q(cs[1]), _obs(o))
    if "raise" in o:
        return "CEq [] [[FNan]] [] [] [] [] [] []"
    ts = coq_list("(%s, %s, %s)" % (qv(t[0]), qv(t[1]), qv(t[2])) for t in c["tris"])
    rows = lambda name: coq_list(flv(r) for r in o[name])
    return "CEq %s %s %s %s %s %s %s %s" % (ts, rows("n_stack"), rows("n_single"), rows("raw_stack"), rows("e_stack"),
                                          rows("e_single"), rows("no_normals"), flv(o["no_offsets"]))


# ---------------------------------------------------------------------------------------------------------
def _F(v):
    return [Fr(float(x)) for x in v]


def _dot(a, b):
    return sum(x * y for x, y in zip(a, b))


def _sub(a, b):
    return [x - y for x, y in zip(a, b)]


def _cross(a, b):
    return [a[1] * b[2] - a[2] * b[1], a[2] * b[0] - a[0] * b[2], a[0] * b[1] - a[1] * b[0]]


def _plane_ok(o, atol=ATOL6):
    """real, finite, unit normal; read-only copies"""
    if o["dtype"] != "float64" or o["imag"] != 0.0:
        return "normal is %s, not a real float64 vector" % o["dtype"]
    if o["ref_dtype"] != "float64":
        return "reference point dtype is %s" % o["ref_dtype"]
    if not all(math.isfinite(x) for x in o["normal"] + o["ref"]):
        return "plane has non-finite coordinates"
    n2 = _dot(_F(o["normal"]), _F(o["normal"]))
    if abs(n2 - 1) > 3 * Fr(atol):
        return "normal is not unit length (|n|^2 = %r)" % float(n2)
    if not o["readonly"]:
        return "plane arrays are writeable"
    return None


def _contains(o, p, mag, what, rel=Fr(1, 10 ** 8)):
    sd = _dot(_sub(_F(p), _F(o["ref"])), _F(o["normal"]))
    if abs(sd) > rel * mag:
        return "%s is not on the returned plane (signed distance %g)" % (what, float(sd))
    return None


def oracle(c, o):
    k = c["kind"]
    if k == "coord":
        if "raise" in o:
            return "coordinate planes raised"
        for name, nrm in (("xy", [0, 0, 1]), ("xz", [0, 1, 0]), ("yz", [1, 0, 0])):
            if o[name]["ref"] != [0, 0, 0] or o[name]["normal"] != nrm or o[name]["dtype"] != "float64":
                return "Plane.%s is not the coordinate plane through the origin" % name
        return None
    if "raise" in o and o["raise"] != "ValueError":
        return "raised %s (%s); only ValueError is allowed" % (o["raise"], o.get("msg"))
    if k == "ctor":
        atol = 0.1 ** (6 if c["decimals"] is None else c["decimals"])
        nn = math.sqrt(float(_dot(_F(c["normal"]), _F(c["normal"]))))
        err = abs(nn - 1)
        if "raise" in o:
            return "rejected a normal that is unit to %r decimals (| |n| - 1 | = %g)" % (c["decimals"], err) if err < 0.5 * atol else None
        if err > 2 * atol:
            return "accepted a normal with | |n| - 1 | = %g > 0.1**%r" % (err, c["decimals"])
        if o["ref"] != c["ref"] or o["normal"] != c["normal"]:
            return "constructor changed the reference point or normal"
        if not o["copied"]:
            return "constructor did not copy the reference point"
        return _plane_ok(o, atol)
    if k == "fpn":
        v = _F(c["normal"])
        if all(x == 0 for x in v):
            return None if "raise" in o else "accepted a zero normal"
        if "raise" in o:
            return "from_point_and_normal raised ValueError for a non-zero normal"
        bad = _plane_ok(o)
        if bad:
            return bad
        nrm = _F(o["normal"])
        if o["ref"] != c["ref"]:
            return "reference point changed"
        vmax = max(abs(x) for x in v)
        if any(abs(x) > Fr(1, 10 ** 9) * vmax for x in _cross(v, nrm)) or _dot(v, nrm) <= 0:
            return "normal is not the normalised input direction"
        return None
    if k == "from_points":
        p1, p2, p3 = [_F(p) for p in c["p"]]
        cr = _cross(_sub(p2, p1), _sub(p3, p1))
        if all(x == 0 for x in cr):
            return None if "raise" in o else "accepted collinear points"
        if "raise" in o:
            return "from_points raised ValueError for non-collinear points"
        mag = max([1] + [abs(x) for p in (p1, p2, p3) for x in p])
        bad = _plane_ok(o) or _contains(o, p1, mag, "p1") or _contains(o, p2, mag, "p2") or _contains(o, p3, mag, "p3")
        if bad:
            return bad
        if _dot(cr, _F(o["normal"])) <= 0:
            return "normal is not on the counter-clockwise side of (p1, p2, p3)"
        return None
    if k == "fpv":
        p1, p2, v = _F(c["p1"]), _F(c["p2"]), _F(c["vector"])
        cr = _cross(_sub(p2, p1), v)
        if all(x == 0 for x in cr):
            return None if "raise" in o else "accepted p2 - p1 parallel to the vector"
        if "raise" in o:
            return "from_points_and_vector raised ValueError for a non-degenerate input"
        mag = max([1] + [abs(x) for p in (p1, p2) for x in p])
        bad = _plane_ok(o) or _contains(o, p1, mag, "p1") or _contains(o, p2, mag, "p2")
        if bad:
            return bad
        vmax = max(abs(x) for x in v)
        if abs(_dot(v, _F(o["normal"]))) > Fr(1, 10 ** 8) * vmax:
            return "plane is not parallel to the vector"
        return None
    if k.startswith("fit_"):
        pts = [_F(p) for p in c["points"]]
        n = len(pts)
        cen = [sum(p[j] for p in pts) / n for j in range(3)]
        mag = max([1] + [abs(x) for p in pts for x in p])
        if "raise" in o:
            return "fit_from_points raised %s: %s" % (o["raise"], o.get("msg"))
        bad = _plane_ok(o)
        if bad:
            return bad
        if any(abs(Fr(a) - b) > Fr(1, 10 ** 9) * mag for a, b in zip(o["ref"], cen)):
            return "fitted plane does not pass through the centroid"
        nrm = _F(o["normal"])
        n2 = _dot(nrm, nrm)
        cpts = [_sub(p, cen) for p in pts]
        ssd = sum(_dot(p, nrm) ** 2 for p in cpts) / n2
        S = np.array([[float(sum(p[a] * p[b] for p in cpts)) for b in range(3)] for a in range(3)])
        lam = float(np.linalg.eigvalsh(S)[0])
        tot = float(np.trace(S))
        if float(ssd) > max(lam, 0.0) * (1 + 1e-6) + 1e-9 * max(tot, 1e-300):
            return "fitted plane is not least squares: sum of squared distances %g > minimum %g" % (float(ssd), lam)
        return None
    if k.startswith("tilted"):
        from polliwog import Plane
        pl = Plane(np.array(c["ref"]), np.array(c["normal"]))
        newp, cop = np.array(c["new_point"]), np.array(c["coplanar"])
        vo = pl.project_point(newp) - cop
        mag = max([1.0] + [abs(x) for x in c["new_point"] + c["coplanar"] + c["ref"]])
        if float(np.linalg.norm(vo)) <= 1e-9 * mag:
            return None  # new point on the rotation axis direction: outside the property's domain
        if abs(float(pl.signed_distance(cop))) > 1e-9 * mag:
            return None
        if "raise" in o:
            return "tilted raised ValueError for a new point off the rotation axis"
        # the angle goes through arccos, whose error near 0 and pi is sqrt(machine epsilon) ~ 1.5e-8: generous band
        return (_plane_ok(o) or _contains(o, c["coplanar"], Fr(mag), "coplanar_point")
                or _contains(o, c["new_point"], Fr(mag), "new_point", Fr(1, 10 ** 6)))
    # equation functions
    if "raise" in o:
        return "equation functions raised %s" % o["raise"]
    if not o["no_exact"]:
        return "normal_and_offset_from_plane_equations does not return the columns of its argument"
    for i, t in enumerate(c["tris"]):
        p1, p2, p3 = [_F(p) for p in t]
        cr = _cross(_sub(p2, p1), _sub(p3, p1))
        rows = [o["n_stack"][i], o["n_single"][i], o["e_stack"][i], o["e_single"][i]]
        if all(x == 0 for x in cr):
            if not all(x != x for r in rows for x in r):
                return "collinear triangle %d does not give a NaN row" % i
            continue
        if o["n_stack"][i] != o["n_single"][i] or o["e_stack"][i] != o["e_single"][i]:
            return "stacked and single results differ for triangle %d" % i
        if o["e_stack"][i][:3] != o["n_stack"][i]:
            return "plane equation %d does not start with the unit normal" % i
        nrm = _F(o["n_stack"][i])
        mag = max([1] + [abs(x) for p in (p1, p2, p3) for x in p])
        if abs(_dot(nrm, nrm) - 1) > Fr(1, 10 ** 9) or _dot(cr, nrm) <= 0:
            return "normal %d is not the unit counter-clockwise normal" % i
        D = Fr(o["e_stack"][i][3])
        for name, p in (("p1", p1), ("p2", p2), ("p3", p3)):
            if abs(_dot(p, nrm) + D) > Fr(1, 10 ** 8) * mag:
                return "%s of triangle %d does not satisfy its plane equation" % (name, i)
        if any(abs(Fr(a) - b) > Fr(1, 10 ** 9) * mag * mag for a, b in zip(o["raw_stack"][i], cr)):
            return "unnormalised normal %d is not the cross product of the edges" % i
    return None


def classify(c, o, failure, disagrees):
    return None
