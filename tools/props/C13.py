"""C13 — Plane constructors yield the plane they describe, with a real unit normal."""
import math
import warnings
from fractions import Fraction as Fr

import numpy as np

from common import Kernel, call_impl, coq_bool, coq_list, fl, flv, grid_vec, q, qv, rational_unit_normal

ID = "C13"
N_CASES = {"quick": 360, "thorough": 4000, "search": 3000}
SHARD = 40
RULE = ("seeded streams: constructor with normals unit / off by multiples of the tolerance / zero, for several "
        "direction_decimals; from_point_and_normal (grid normals, zero); from_points (grid triples, collinear, repeated); "
        "from_points_and_vector (incl. parallel); fit_from_points (generic, nearly planar, exactly planar, collinear, "
        "lattice clouds of 3..14 points); tilted (axis and rational planes, degenerate tilt); equation functions on "
        "stacks of 1..5 triangles and on each triangle alone; coordinate planes; power-of-two scales 2^-30..2^30; "
        "small triangles (1e-9..1) translated to coordinates up to 1e8; unit-size clouds on a dyadic grid translated by "
        "2^24..2^31 per axis (exactly planar / nearly planar / generic; least-squares clause judged relative to the cloud "
        "diameter); integer-dtype arguments; every argument is a "
        "row view of a caller buffer that is overwritten after construction (aliasing probe); "
        "non-trivial = a plane was returned; distinct by hash of inputs")
TRUSTED = ["Coq 8.16.1 kernel, vm_compute for the correspondence evaluation",
           "axioms (Print Assumptions): ClassicalDedekindReals.sig_forall_dec, sig_not_dec, "
           "FunctionalExtensionality.functional_extensionality_dep, Classical_Prop.classic (all Coq stdlib Reals)",
           "tools/symtrace.py tracing translator + numpy shim (re-validated numerically each run)",
           "agreement relation of coq/corr/K_C13.v (unit normals: absolute 1e-9; reference points, centroid, plane offsets, eigen residuals: relative to the largest |coordinate| / covariance entry of the case, no absolute floor)",
           "LAPACK symmetric eigen-solver (np.linalg.eigh): trusted through its contract (orthonormal eigenvectors of "
           "the covariance), which the correspondence re-checks on every fitted cloud against the model's covariance",
           "math.cos / math.sin / arccos: NumPy's values passed as data, re-checked against the model's own "
           "trigonometry on the `tilted_full` cases (20 in quick, 60 in thorough); the pieces of Plane.tilted are traced: "
           "its first statements (tilt_prefix), vg.reject, vg.signed_angle (symbolic and z viewing direction, both signs), "
           "vg.rotate with a symbolic angle; their composition inside Plane.tilted is tied by the correspondence",
           "NumPy, vg"]
CASE_IMPORTS = [("PW.model", "M_plane"), ("PW.model", "M_plane_ctor")]
ASSUMPTIONS = ["theorems are about exact real arithmetic",
               "fit_from_points is the code of /repo commit 9820109 (np.linalg.eigh; fixes/C13-fit-real-normal.diff)",
               "fit optimality (C13_fit_is_least_squares_partial) is proved under the eigen-solver contract, not for LAPACK itself",
               "C13_tilted_contains_both uses Reals' cos / sin / acos for math.cos / math.sin / np.arccos"]
IMPORTS = [("PW.model", "M_plane"), ("PW.model", "M_plane_ctor"), ("PW.proofs", "P_vec")]
# theorems that only restate how the stacked models are defined (map of the single ones)
DEFINITIONAL = ["C13_stacked_is_map_single", "C13_normal_and_offset_stack"]

ATOL6 = 0.1 ** 6


def kernels():
    from polliwog import Plane
    from polliwog.plane import plane_equation_from_points, plane_normal_from_points

    ks = []
    unf = ("cbv [from_point_and_normal from_points from_points_and_vector plane_normal_from_points plane_equation_from_points "
           "tri_cross vnormalize vnorm vnorm2 vdivs vdot vcross vsub vlist vx vy vz pref pnormal ea eb ec ed app]; rops")
    solve = "list_eq ltac:(first [reflexivity | ring | (f_equal; [ring | f_equal; ring]) | (f_equal; f_equal; ring) | (f_equal; ring) | ring_sqrt])"

    def plane_out(pl):
        return (pl.reference_point, pl.normal)

    ks.append(Kernel(
        "from_point_and_normal", {"r": [1.0, 2.0, 3.0], "v": [2.0, -1.0, 2.0]},
        lambda r, v: plane_out(Plane.from_point_and_normal(r, v)),
        """Lemma {T}_ok : forall {vars} : R, {T} ROps {vars} = vlist (V3 r0 r1 r2) ++ vlist (vnormalize ROps (V3 v0 v1 v2)).
Proof. intros. unfold {T}. cbv zeta. %s. %s. Qed.""" % (unf, solve), imports=IMPORTS, perturb=1e-3))
    ks.append(Kernel(
        "from_points", {"a": [0.0, 0.0, 1.0], "b": [2.0, 0.5, 1.0], "c": [0.5, 3.0, 2.0]},
        lambda a, b, c: plane_out(Plane.from_points(a, b, c)),
        """Lemma {T}_ok : forall {vars} : R, {T} ROps {vars} =
  vlist (V3 a0 a1 a2) ++ vlist (vnormalize ROps (tri_cross ROps (V3 a0 a1 a2) (V3 b0 b1 b2) (V3 c0 c1 c2))).
Proof. intros. unfold {T}. cbv zeta. %s. %s. Qed.""" % (unf, solve), imports=IMPORTS, perturb=1e-3))
    ks.append(Kernel(
        "from_points_and_vector", {"a": [0.0, 0.0, 1.0], "b": [2.0, 0.5, 1.0], "v": [0.5, 3.0, 2.0]},
        lambda a, b, v: plane_out(Plane.from_points_and_vector(a, b, v)),
        """Lemma {T}_ok : forall {vars} : R, {T} ROps {vars} =
  vlist (V3 a0 a1 a2) ++ vlist (vnormalize ROps (vcross ROps (vsub ROps (V3 b0 b1 b2) (V3 a0 a1 a2)) (V3 v0 v1 v2))).
Proof. intros. unfold {T}. cbv zeta. %s. %s. Qed.""" % (unf, solve), imports=IMPORTS, perturb=1e-3))
    EQ = ("(let n := vnormalize ROps (tri_cross ROps (V3 t{0} t{1} t{2}) (V3 t{3} t{4} t{5}) (V3 t{6} t{7} t{8})) in "
          "[vx n; vy n; vz n; - vdot ROps (V3 t{0} t{1} t{2}) n])")
    ks.append(Kernel(
        "plane_equation_single", {"t": [[0.0, 0.0, 1.0], [2.0, 0.5, 1.0], [0.5, 3.0, 2.0]]},
        lambda t: plane_equation_from_points(t),
        """Lemma {T}_ok : forall {vars} : R, {T} ROps {vars} = %s.
Proof. intros. unfold {T}. cbv zeta. %s. %s. Qed.""" % (EQ.format(*range(9)), unf, solve), imports=IMPORTS, perturb=1e-3))
    ks.append(Kernel(
        "plane_equation_stack", {"t": [[[0.0, 0.0, 1.0], [2.0, 0.5, 1.0], [0.5, 3.0, 2.0]],
                                       [[1.0, 0.0, 0.0], [0.0, 2.0, 0.5], [-1.0, 0.5, 3.0]]]},
        lambda t: plane_equation_from_points(t),
        """Lemma {T}_ok : forall {vars} : R, {T} ROps {vars} = %s ++ %s.
Proof. intros. unfold {T}. cbv zeta. %s. %s. Qed.""" % (EQ.format(*range(9)), EQ.format(*range(9, 18)), unf, solve),
        imports=IMPORTS, perturb=1e-3))
    ks.append(Kernel(
        "plane_normal_raw", {"t": [[0.0, 0.0, 1.0], [2.0, 0.5, 1.0], [0.5, 3.0, 2.0]]},
        lambda t: plane_normal_from_points(t, normalize=False),
        """Lemma {T}_ok : forall {vars} : R, {T} ROps {vars} = vlist (tri_cross ROps (V3 t0 t1 t2) (V3 t3 t4 t5) (V3 t6 t7 t8)).
Proof. intros. unfold {T}. cbv zeta. %s. %s. Qed.""" % (unf, solve), imports=IMPORTS, perturb=1e-3))
    ks.extend(_tilt_kernels())
    return ks


class _MathShim:
    """vg.rotate calls math.cos / math.sin on the angle; during a trace the angle is symbolic"""

    def __getattr__(self, name):
        return getattr(math, name)

    def cos(self, x):
        return x.cos() if hasattr(x, "cos") and not isinstance(x, float) else math.cos(x)

    def sin(self, x):
        return x.sin() if hasattr(x, "sin") and not isinstance(x, float) else math.sin(x)


def _with_math_shim(f):
    import vg.core as vc

    def g(*a, **kw):
        old = vc.math
        vc.math = _MathShim()
        try:
            return f(*a, **kw)
        finally:
            vc.math = old
    return g


def _tilt_kernels():
    """Plane.tilted piece by piece (its own first statements, and the vg helpers it calls, each on fresh symbols)"""
    from polliwog import Plane
    from vg.compat import v2 as vg

    ks = []
    # congruence up to `ring` at the leaves; purely syntactic head matching (conversion on Reals' operations is avoided:
    # `reflexivity` / `f_equal` on different heads make the unifier unfold Rplus / Rmult and overflow the stack)
    cr = ("Ltac cr := lazymatch goal with\n"
          "  | |- ?x = ?x => reflexivity\n"
          "  | |- ?a + ?b = ?c + ?d => first [apply f_equal2; cr | timeout 3 ring]\n"
          "  | |- ?a - ?b = ?c - ?d => first [apply f_equal2; cr | timeout 3 ring]\n"
          "  | |- ?a * ?b = ?c * ?d => first [apply f_equal2; cr | timeout 3 ring]\n"
          "  | |- ?a / ?b = ?c / ?d => first [apply f_equal2; cr | timeout 3 ring]\n"
          "  | |- - ?a = - ?b => apply f_equal; cr\n"
          "  | |- sqrt ?a = sqrt ?b => apply f_equal; cr\n"
          "  | |- acos ?a = acos ?b => apply f_equal; cr\n"
          "  | |- cos ?a = cos ?b => apply f_equal; cr\n"
          "  | |- sin ?a = sin ?b => apply f_equal; cr\n"
          "  | |- _ => timeout 3 ring\n"
          "  end.\n")
    unfv = "cbv [tilt_old tilt_new tilt_axis plane_project project_eq translate_along sd_eq plane_equation eq_normal ea eb ec ed pref pnormal vg_reject vg_angle_cos vg_rotate_cs vnormalize vnorm vnorm2 vdivs vdot vcross vsub vadd vscale vlist vx vy vz app]; rops"
    PL = "(MkPlane (V3 r0 r1 r2) (V3 m0 m1 m2))"

    def prefix(r, m, p, c):
        pl = Plane(r, m)
        vo = pl.project_point(p) - c
        vn = p - c
        return (vo, vn, vg.perpendicular(vo, pl.normal))

    ks.append(Kernel(
        "tilt_prefix", {"r": [0.5, 0.25, -0.5], "m": [0.6, 0.0, 0.8], "p": [2.0, 1.0, 1.5], "c": [1.3, -0.75, -1.1]}, prefix,
        cr + """Lemma {T}_ok : forall {vars} : R, {T} ROps {vars} =
  vlist (tilt_old ROps %s (V3 p0 p1 p2) (V3 c0 c1 c2)) ++ vlist (tilt_new ROps (V3 p0 p1 p2) (V3 c0 c1 c2)) ++
  vlist (tilt_axis ROps %s (V3 p0 p1 p2) (V3 c0 c1 c2)).
Proof. intros. unfold {T}. cbv zeta. %s. list_eq ltac:(idtac; cr). Qed.""" % (PL, PL, unfv), imports=IMPORTS, perturb=1e-9))

    A_, B_, L_ = "(V3 a0 a1 a2)", "(V3 b0 b1 b2)", "(V3 l0 l1 l2)"
    # vg.reject with a symbolic direction
    ks.append(Kernel(
        "vg_reject", {"a": [1.0, 0.5, 0.2], "l": [0.1, 0.2, 1.0]}, lambda a, l: vg.reject(a, from_v=l),
        cr + """Lemma {T}_ok : forall {vars} : R, {T} ROps {vars} = vlist (vg_reject ROps %s %s).
Proof. intros. unfold {T}. cbv zeta. %s. list_eq ltac:(idtac; cr). Qed.""" % (A_, L_, unfv), imports=IMPORTS, perturb=1e-3))
    # vg.signed_angle (reject both vectors, cosine, clip, arccos, sign of the triple product) seen along the z axis
    zlook = np.array([0.0, 0.0, 1.0])
    for name, a, b in (("pos", [1.0, 0.5, 0.2], [0.3, 1.0, -0.4]), ("neg", [0.3, 1.0, -0.4], [1.0, 0.5, 0.2])):
        ks.append(Kernel(
            "vg_signed_angle_" + name, {"a": a, "b": b},
            lambda a, b: vg.signed_angle(a, b, look=zlook, units="rad"),
            cr + """Lemma m1 (y : R) : -1 * y = - y.
Proof. ring. Qed.
Lemma nz : vnormalize ROps (V3 0 0 1) = V3 0 0 1.
Proof. unfold vnormalize, vnorm, vnorm2, vdot, vdivs. rops. cbn [vx vy vz]. replace (0 * 0 + 0 * 0 + 1 * 1) with 1 by ring. rewrite sqrt_1. apply V3_ext; field. Qed.
Lemma {T}_ok : forall {vars} : R, {T}_path ROps {vars} -> {T} ROps {vars} = [vg_signed_angle ROps %s %s (V3 0 0 1)].
Proof. intros {vars} Hpath. unfold {T}_path in Hpath. cbv zeta in Hpath. rops. path_facts Hpath.
  unfold {T}, vg_signed_angle, vg_angle_cos, vg_reject, nclip, nsign, n1. rewrite nz. cbv zeta. rops.
  cbv [vnorm vnorm2 vdot vcross vsub vscale vx vy vz]. rops.
  match goal with Hlo : _ <= ?x', Hhi : ?x' <= 1 |- context [Rltb ?x (- _)] => replace x' with x in Hlo, Hhi by cr end.
  repeat match goal with |- context [Rltb ?a ?b] => destruct (Rltb_spec a b); try (exfalso; lra) end.
  cbn [Z.eqb Pos.eqb]; rewrite ?Rmult_1_l, ?m1;
  apply cons_eq; [cr|reflexivity]. Qed.""" % (A_, B_), imports=IMPORTS, perturb=1e-3))
    # the same with a symbolic viewing direction
    ks.append(Kernel(
        "vg_signed_angle_look", {"a": [1.0, 0.5, 0.2], "b": [0.3, 1.0, -0.4], "l": [0.1, 0.2, 1.0]},
        lambda a, b, l: vg.signed_angle(a, b, look=l, units="rad"),
        cr + """Lemma m1 (y : R) : -1 * y = - y.
Proof. ring. Qed.
Lemma {T}_ok : forall {vars} : R, {T}_path ROps {vars} -> {T} ROps {vars} = [vg_signed_angle ROps %s %s %s].
Proof. intros {vars} Hpath. unfold {T}_path in Hpath. cbv zeta in Hpath. rops. path_facts Hpath.
  unfold {T}, vg_signed_angle, vg_angle_cos, vg_reject, nclip, nsign, n1. cbv zeta. rops.
  cbv [vnormalize vdivs vnorm vnorm2 vdot vcross vsub vscale vx vy vz]. rops.
  match goal with Hlo : _ <= ?x', Hhi : ?x' <= 1 |- context [Rltb ?x (- _)] => replace x' with x in Hlo, Hhi by cr end.
  repeat match goal with |- context [Rltb ?a ?b] => destruct (Rltb_spec a b); try (exfalso; lra) end.
  cbn [Z.eqb Pos.eqb]; rewrite ?Rmult_1_l, ?m1;
  apply cons_eq; [cr|reflexivity]. Qed.""" % (A_, B_, L_), imports=IMPORTS, perturb=1e-3))
    # vg.rotate (Rodrigues) with math.cos / math.sin of a symbolic angle
    ks.append(Kernel(
        "vg_rotate", {"a": [1.0, 0.5, 0.2], "l": [0.1, 0.2, 1.0], "t": [0.7]},
        _with_math_shim(lambda a, l, t: vg.rotate(a, around_axis=l, angle=t[0], units="rad")),
        cr + """Lemma {T}_ok : forall {vars} : R, {T} ROps {vars} = vlist (vg_rotate_cs ROps %s %s (cos t0) (sin t0)).
Proof. intros. unfold {T}. cbv zeta. %s. list_eq ltac:(idtac; cr). Qed.""" % (A_, L_, unfv), imports=IMPORTS, perturb=1e-3))
    return ks


# ---------------------------------------------------------------------------------------------------------
def _unit(rng):
    n = np.array([float(x) for x in rational_unit_normal(rng)])
    return list(n / np.linalg.norm(n))


def _scale(rng, tier):
    if tier == "thorough" or rng.random() < 0.15:
        return 2.0 ** rng.randint(-30, 30)
    return 2.0 ** rng.randint(-10, 10)


def _far_triangle(rng):
    """a well-conditioned triangle of size 1e-9..1 translated to coordinates of magnitude 0..1e8 (coordinates are
    whatever binary64 makes of offset + small; exactness is not needed, the model sees the same floats)"""
    for _ in range(50):
        size = 10.0 ** rng.uniform(-9, 0)
        off = [rng.choice([0.0, 1.0, 1e3, 1e6, 1e8]) * rng.choice([1, -1]) * rng.uniform(0.5, 1.0) for _ in range(3)]
        pts = [[o + size * x for o, x in zip(off, grid_vec(rng, -4, 4, 4))] for _ in range(3)]
        p1, p2, p3 = [_F(p) for p in pts]
        e1, e2 = _sub(p2, p1), _sub(p3, p1)
        cr = _cross(e1, e2)
        if _dot(cr, cr) * 100 >= _dot(e1, e1) * _dot(e2, e2) > 0:
            return pts
    return [[0.0, 0.0, 0.0], [1.0, 0.0, 0.0], [0.0, 1.0, 0.0]]


def _int_vec(rng, lo=-4, hi=4):
    return [float(rng.randint(lo, hi)) for _ in range(3)]


def _structured_cases(rng, tier):
    """a fixed block present in every tier: small triangles far from the origin, integer-dtype arguments"""
    cases = []
    for _ in range(24 if tier == "quick" else 120):
        t = _far_triangle(rng)
        cases.append({"kind": "from_points_far", "p": t})
        cases.append({"kind": "equations_far", "tris": [t, _far_triangle(rng)]})
        v = grid_vec(rng, -3, 3, 2)
        e = _sub(_F(t[1]), _F(t[0]))
        cr = _cross(e, _F(v))
        if _dot(cr, cr) * 100 >= _dot(e, e) * _dot(_F(v), _F(v)) > 0:
            cases.append({"kind": "fpv_far", "decimals": None, "p1": t[0], "p2": t[1], "vector": v})
    # clouds of unit size on a dyadic grid, translated far from the origin by dyadic offsets (every coordinate exact,
    # N a power of two so that the mean is exact): exactly planar (optimum 0), nearly planar, generic
    for _ in range(10 if tier == "quick" else 60):
        for mode in ("planar", "nearly_planar", "generic"):
            off = [rng.choice([1, -1]) * 2.0 ** rng.randint(24, 31) for _ in range(3)]
            npts = rng.choice([4, 8, 16])
            a, b, cc = rng.choice([(1, 2, 2), (2, -1, 3), (3, 1, -2), (1, 1, 1), (2, 3, -1), (1, -3, 2)])
            pts = set()
            while len(pts) < npts:
                if mode == "generic":
                    q3 = tuple(rng.randint(-8, 8) / 8 for _ in range(3))
                else:
                    i, j = rng.randint(-6, 6), rng.randint(-6, 6)
                    w = 0 if mode == "planar" else rng.randint(-2, 2)
                    q3 = ((i * b) / 8 + w * a / 64, (-i * a + j * cc) / 8 + w * b / 64, (-j * b) / 8 + w * cc / 64)
                pts.add(q3)
            pts = sorted(pts)
            rng.shuffle(pts)
            c = {"kind": "fit_far_" + mode, "points": [[o + x for o, x in zip(off, q3)] for q3 in pts], "feature": True,
                 "planar_exact": mode == "planar"}
            if _fit_tie(c["points"]):
                c["kind"] += "_tie"
            cases.append(c)
    for _ in range(6 if tier == "quick" else 30):
        ax = rng.randrange(3)
        n = [0.0, 0.0, 0.0]
        n[ax] = rng.choice([1.0, -1.0])
        cases.append({"kind": "ctor", "decimals": None, "ref": _int_vec(rng), "normal": n, "int": True})
        cases.append({"kind": "fpn", "decimals": None, "ref": _int_vec(rng), "normal": _int_vec(rng), "int": True})
        cases.append({"kind": "from_points", "p": [_int_vec(rng), _int_vec(rng), _int_vec(rng)], "int": True})
        cases.append({"kind": "fpv", "decimals": None, "p1": _int_vec(rng), "p2": _int_vec(rng), "vector": _int_vec(rng, -2, 2), "int": True})
        cases.append({"kind": "equations", "tris": [[_int_vec(rng), _int_vec(rng), _int_vec(rng)] for _ in range(rng.randint(1, 3))], "int": True})
        cases.append({"kind": "fit_lattice", "points": [_int_vec(rng, -3, 3) for _ in range(rng.randint(4, 9))], "int": True})
    return cases


def _sv(v, s):
    return [x * s for x in v]


def _tilt_cs(pl, newp, cop):
    from vg.compat import v2 as vg
    with np.errstate(all="ignore"):
        vo = pl.project_point(newp) - cop
        vn = newp - cop
        axis = vg.perpendicular(vo, pl.normal)
        ang = vg.signed_angle(vo, vn, look=axis, units="rad")
    ang = float(ang)
    if math.isnan(ang):
        return None
    return math.cos(ang), math.sin(ang)


def gen_cases(rng, n, tier):
    cases = [{"kind": "coord"}] + _structured_cases(rng, tier)
    full_budget = 10 if tier == "quick" else 30
    full_exact_budget = 10 if tier == "quick" else 30
    for i in range(n):
        u = rng.random()
        sc = _scale(rng, tier)
        if u < 0.14:
            d = rng.choice([None, None, 3, 6, 8])
            atol = 0.1 ** (6 if d is None else d)
            nrm = _unit(rng) if rng.random() < 0.7 else [float(x) for x in rng.choice([[1, 0, 0], [0, -1, 0], [0, 0, 1]])]
            k = rng.choice([0, 0, 0.3, -0.3, 0.9, -0.9, 0.9, -0.9, 1.1, -1.1, 1.1, -1.1, 3, -3, 10, 1000, -0.9 / atol])
            nrm = [x * (1 + k * atol) for x in nrm]
            if rng.random() < 0.05:
                nrm = [0.0, 0.0, 0.0]
            cases.append({"kind": "ctor", "decimals": d, "ref": _sv(grid_vec(rng), sc), "normal": nrm})
        elif u < 0.26:
            d = rng.choice([None, None, 4])
            v = _sv(grid_vec(rng, -6, 6, 2), sc) if rng.random() < 0.9 else [0.0, 0.0, 0.0]
            cases.append({"kind": "fpn", "decimals": d, "ref": _sv(grid_vec(rng), sc), "normal": v})
        elif u < 0.42:
            p1, p2, p3 = grid_vec(rng), grid_vec(rng), grid_vec(rng)
            m = rng.random()
            if m < 0.12:
                k = rng.choice([-2, -1, 0.5, 2, 3])
                p3 = [a + k * (b - a) for a, b in zip(p1, p2)]  # exactly collinear
            elif m < 0.18:
                p2 = list(p1)
            cases.append({"kind": "from_points", "p": [_sv(p1, sc), _sv(p2, sc), _sv(p3, sc)]})
        elif u < 0.54:
            p1, p2 = grid_vec(rng), grid_vec(rng)
            v = grid_vec(rng, -3, 3, 2)
            if rng.random() < 0.12:
                k = rng.choice([-2, 0.5, 1, 3])
                v = [k * (b - a) for a, b in zip(p1, p2)]  # parallel to p2 - p1
            cases.append({"kind": "fpv", "decimals": rng.choice([None, None, 5]), "p1": _sv(p1, sc), "p2": _sv(p2, sc),
                          "vector": v})
        elif u < 0.74:
            k = rng.randint(3, 14)
            mode = rng.choice(["generic", "generic", "nearly_planar", "planar", "collinear", "lattice"])
            if mode == "generic":
                pts = [grid_vec(rng, -6, 6, 4) for _ in range(k)]
            elif mode == "lattice":
                pts = [[float(rng.randint(-2, 2)) for _ in range(3)] for _ in range(k)]
            elif mode == "collinear":
                a, dvec = grid_vec(rng), grid_vec(rng, -2, 2, 2)
                pts = [[x + t * y for x, y in zip(a, dvec)] for t in rng.sample(range(-8, 9), min(k, 10))]
            else:
                nrm = [float(x) for x in rational_unit_normal(rng)]
                t1 = np.cross(nrm, [1.0, 0.3, -0.2])
                t2 = np.cross(nrm, t1)
                a = np.array(grid_vec(rng))
                pts = []
                for _ in range(k):
                    off = 0.0 if mode == "planar" else rng.uniform(-1, 1) * 1e-3
                    pts.append(list(a + rng.uniform(-3, 3) * t1 + rng.uniform(-3, 3) * t2 + off * np.array(nrm)))
                if mode == "planar" and rng.random() < 0.5:
                    pts = [[rng.randint(-8, 8) / 2, rng.randint(-8, 8) / 2, 1.5] for _ in range(k)]
            c = {"kind": "fit_" + mode, "points": [_sv(p, sc) for p in pts]}
            if _fit_tie(c["points"]):
                c["kind"] += "_tie"  # the eigenbasis is not determined: Coq checks the weaker observable (CFitTie)
            cases.append(c)
            if rng.random() < 0.04:
                # fewer than two points (outside the property's domain): the model says LinAlgError
                cases.append({"kind": "fit_too_few", "points": [_sv(grid_vec(rng), sc) for _ in range(rng.randint(0, 1))]})
        elif u < 0.88:
            exact = rng.random() < 0.4
            if exact:
                ax = rng.randrange(3)
                nrm = [0.0, 0.0, 0.0]
                nrm[ax] = rng.choice([1.0, -1.0])
                ref = grid_vec(rng)
                cop = grid_vec(rng)
                cop[ax] = ref[ax]
                newp = grid_vec(rng)
                if rng.random() < 0.25:
                    newp = list(cop)
                    newp[ax] += rng.choice([1.0, -2.0, 0.5])  # straight above the retained point: no tilt axis
                elif rng.random() < 0.2:
                    newp[ax] = ref[ax]  # already in the plane
            else:
                nrm = _unit(rng)
                ref = grid_vec(rng)
                t1 = np.cross(nrm, [0.3, 1.0, -0.2])
                t2 = np.cross(nrm, t1)
                cop = list(np.array(ref) + rng.randint(-4, 4) / 2 * t1 + rng.randint(-4, 4) / 2 * t2)
                newp = grid_vec(rng)
            full = False
            if full_budget > 0 and not exact:
                full, full_budget = True, full_budget - 1
            elif full_exact_budget > 0 and exact:
                full, full_exact_budget = True, full_exact_budget - 1
            cases.append({"kind": "tilted_full" if full else ("tilted_exact" if exact else "tilted"), "ref": _sv(ref, sc),
                          "normal": nrm, "new_point": _sv(newp, sc), "coplanar": _sv(cop, sc)})
        else:
            k = rng.randint(1, 5)
            ts = []
            for _ in range(k):
                p1, p2, p3 = grid_vec(rng), grid_vec(rng), grid_vec(rng)
                if rng.random() < 0.15:
                    p3 = [a + 2 * (b - a) for a, b in zip(p1, p2)]
                ts.append([_sv(p1, sc), _sv(p2, sc), _sv(p3, sc)])
            cases.append({"kind": "equations", "tris": ts})
    return cases


def _obs_plane(pl):
    nrm = np.asarray(pl.normal)
    return {"ref": np.asarray(pl.reference_point).real.tolist(), "normal": nrm.real.tolist(),
            "imag": float(np.abs(nrm.imag).max()) if np.iscomplexobj(nrm) else 0.0,
            "dtype": str(nrm.dtype), "ref_dtype": str(np.asarray(pl.reference_point).dtype),
            "equation": np.asarray(pl.equation).real.tolist(),
            "readonly": (not pl.normal.flags.writeable) and (not pl.reference_point.flags.writeable)}


class _Args:
    """Arguments handed to the constructors as row views of larger caller-owned buffers, so that the harness can go on
    using (overwriting) those buffers afterwards, the way a caller with a scratch array would."""

    def __init__(self, as_int=False):
        self.bufs = []
        self.as_int = as_int

    def row(self, values):
        a = np.array(values, dtype=np.int64 if self.as_int else np.float64)
        buf = np.zeros((3,) + a.shape, dtype=a.dtype)
        buf[1] = a
        self.bufs.append(buf)
        return buf[1]

    def scribble(self):
        """overwrite every buffer in place; a frozen buffer (ValueError) cannot alias a changed plane"""
        for buf in self.bufs:
            try:
                buf *= 3
                buf += 7
            except ValueError:
                pass


def _probe(pl, args):
    """Observe the plane, let the caller overwrite its own arrays, observe again (what is reported is the SECOND
    observation; `stable` says whether the two agree bit for bit)."""
    first = _obs_plane(pl)
    args.scribble()
    second = _obs_plane(pl)
    second["stable"] = (first["ref"] == second["ref"] and first["normal"] == second["normal"]
                        and first["equation"] == second["equation"]) or (first != first)
    if not second["stable"]:
        # NaN never equals itself: compare through repr
        second["stable"] = repr(first["ref"] + first["normal"] + first["equation"]) == repr(second["ref"] + second["normal"] + second["equation"])
    second["first"] = {"ref": first["ref"], "normal": first["normal"]}
    return second


def run_impl(c):
    from polliwog import Plane
    from polliwog.plane import (normal_and_offset_from_plane_equations, plane_equation_from_points,
                                plane_normal_from_points)

    def go():
        k = c["kind"]
        A = _Args(as_int=bool(c.get("int")))
        with np.errstate(all="ignore"), warnings.catch_warnings():
            warnings.simplefilter("ignore")
            if k == "coord":
                return {"xy": _obs_plane(Plane.xy), "xz": _obs_plane(Plane.xz), "yz": _obs_plane(Plane.yz)}
            if k == "ctor":
                ref, nrm = A.row(c["ref"]), A.row(c["normal"])
                pl = Plane(ref, nrm) if c["decimals"] is None else Plane(ref, nrm, direction_decimals=c["decimals"])
                return _probe(pl, A)
            if k == "fpn":
                kw = {} if c["decimals"] is None else {"direction_decimals": c["decimals"]}
                return _probe(Plane.from_point_and_normal(A.row(c["ref"]), A.row(c["normal"]), **kw), A)
            if k.startswith("from_points"):
                p = [A.row(x) for x in c["p"]]
                return _probe(Plane.from_points(*p), A)
            if k.startswith("fpv"):
                kw = {} if c["decimals"] is None else {"direction_decimals": c["decimals"]}
                return _probe(Plane.from_points_and_vector(A.row(c["p1"]), A.row(c["p2"]), A.row(c["vector"]), **kw), A)
            if k.startswith("fit_"):
                return _probe(Plane.fit_from_points(A.row(np.array(c["points"], dtype=np.float64).reshape(-1, 3))), A)
            if k.startswith("tilted"):
                pl = Plane(A.row(c["ref"]), A.row(c["normal"]))
                return _probe(pl.tilted(A.row(c["new_point"]), A.row(c["coplanar"])), A)
            ts = A.row(c["tris"])
            keep = ts.copy()
            e_stack = plane_equation_from_points(ts)
            no_n, no_o = normal_and_offset_from_plane_equations(e_stack)
            one_n, one_o = normal_and_offset_from_plane_equations(e_stack[0])
            out = {"n_stack": plane_normal_from_points(ts).tolist(),
                   "n_single": [plane_normal_from_points(t).tolist() for t in ts],
                   "raw_stack": np.asarray(plane_normal_from_points(ts, normalize=False), dtype=np.float64).tolist(),
                   "e_stack": e_stack.tolist(), "e_single": [plane_equation_from_points(t).tolist() for t in ts],
                   "no_normals": no_n.tolist(), "no_offsets": no_o.tolist(),
                   "args_unchanged": bool(np.array_equal(ts, keep)),
                   "no_exact": bool(np.array_equal(no_n, e_stack[:, :3], equal_nan=True) and np.array_equal(no_o, e_stack[:, 3], equal_nan=True)
                                    and np.array_equal(one_n, e_stack[0, :3], equal_nan=True)
                                    and (one_o == e_stack[0, 3] or (one_o != one_o)))}
            return out

    return call_impl(go)


def _real(dt):
    return np.dtype(dt).kind in "fiu"


def _oplane(o):
    return "(OPlane %s %s %s)" % (flv(o["ref"]), flv(o["normal"]), coq_bool(_real(o["dtype"])))


def _obs(o):
    if "raise" in o:
        return "(Raise %s)" % o["raise"]
    return "(Ok %s)" % _oplane(o)


def _atol(d):
    return q(0.1 ** (6 if d is None else d))


def _eig_of(points):
    pts = np.array(points)
    with np.errstate(all="ignore"):
        w, v = np.linalg.eigh(np.cov(pts.T))
    return w, v


def _fit_tie(points):
    if len(points) < 2:
        return False
    w, v = _eig_of(points)
    if not (np.all(np.isfinite(w)) and np.all(np.isfinite(v))):
        return True
    sc = max(1e-300, float(np.max(np.abs(w))))
    return min(abs(w[i] - w[j]) for i in range(3) for j in range(i)) <= 1e-7 * sc


def coq_case(c, o):
    k = c["kind"]
    if k == "coord":
        if "raise" in o:
            return "CCoord (OPlane [] [] false) (OPlane [] [] false) (OPlane [] [] false)"
        return "CCoord %s %s %s" % (_oplane(o["xy"]), _oplane(o["xz"]), _oplane(o["yz"]))
    if k == "ctor":
        return "CCtor %s %s %s %s" % (_atol(c["decimals"]), qv(c["ref"]), qv(c["normal"]), _obs(o))
    if k == "fpn":
        return "CFpn %s %s %s %s" % (_atol(c["decimals"]), qv(c["ref"]), qv(c["normal"]), _obs(o))
    if k.startswith("from_points"):
        return "CFromPoints %s %s %s %s" % (qv(c["p"][0]), qv(c["p"][1]), qv(c["p"][2]), _obs(o))
    if k.startswith("fpv"):
        return "CFpv %s %s %s %s %s" % (_atol(c["decimals"]), qv(c["p1"]), qv(c["p2"]), qv(c["vector"]), _obs(o))
    if k.startswith("fit_"):
        if len(c["points"]) < 2:
            e = "(Eig3 0 0 0 (V3 1 0 0) (V3 0 1 0) (V3 0 0 1))"
            return "CFit %s %s %s" % (coq_list(qv(p) for p in c["points"]), e, _obs(o))
        w, v = _eig_of(c["points"])
        if not (np.all(np.isfinite(w)) and np.all(np.isfinite(v))):
            return "CSkip"
        sc = max(1e-300, float(np.max(np.abs(w))))
        gaps = [abs(w[i] - w[j]) for i in range(3) for j in range(i)]
        if min(gaps) <= 1e-7 * sc:
            # tie: the eigenbasis (hence the plane) is not determined; check what every correct answer shares
            return "CFitTie %s %s %s" % (coq_list(qv(p) for p in c["points"]), q(w[0]), _obs(o))
        e = "(Eig3 %s %s %s %s %s %s)" % (q(w[0]), q(w[1]), q(w[2]), qv(v[:, 0]), qv(v[:, 1]), qv(v[:, 2]))
        return "CFit %s %s %s" % (coq_list(qv(p) for p in c["points"]), e, _obs(o))
    if k.startswith("tilted"):
        from polliwog import Plane
        pl = Plane(np.array(c["ref"]), np.array(c["normal"]))
        cs = _tilt_cs(pl, np.array(c["new_point"]), np.array(c["coplanar"]))
        if cs is None:
            cs = (1.0, 0.0)
        return "CTilted %s (MkPlane %s %s) %s %s %s %s %s" % (
            coq_bool(k == "tilted_full" and "raise" not in o), qv(c["ref"]), qv(c["normal"]), qv(c["new_point"]),
            qv(c["coplanar"]), q(cs[0]), q(cs[1]), _obs(o))
    if "raise" in o:
        return "CEq [] [[FNan]] [] [] [] [] [] []"
    ts = coq_list("(%s, %s, %s)" % (qv(t[0]), qv(t[1]), qv(t[2])) for t in c["tris"])
    rows = lambda name: coq_list(flv(r) for r in o[name])
    return "CEq %s %s %s %s %s %s %s %s" % (ts, rows("n_stack"), rows("n_single"), rows("raw_stack"), rows("e_stack"),
                                          rows("e_single"), rows("no_normals"), flv(o["no_offsets"]))


# ---------------------------------------------------------------------------------------------------------
def _F(v):
    return [Fr(float(x)) for x in v]


def _dot(a, b):
    return sum(x * y for x, y in zip(a, b))


def _sub(a, b):
    return [x - y for x, y in zip(a, b)]


def _cross(a, b):
    return [a[1] * b[2] - a[2] * b[1], a[2] * b[0] - a[0] * b[2], a[0] * b[1] - a[1] * b[0]]


def _plane_ok(o, atol=ATOL6):
    """real, finite, unit normal; read-only copies"""
    if not _real(o["dtype"]) or o["imag"] != 0.0:
        return "normal is %s, not a real vector" % o["dtype"]
    if not _real(o["ref_dtype"]):
        return "reference point dtype is %s" % o["ref_dtype"]
    if not o.get("stable", True):
        return ("the plane changed when the caller overwrote the arrays it was built from: normal %r -> %r, "
                "reference point %r -> %r" % (o["first"]["normal"], o["normal"], o["first"]["ref"], o["ref"]))
    if not all(math.isfinite(x) for x in o["normal"] + o["ref"]):
        return "plane has non-finite coordinates"
    n2 = _dot(_F(o["normal"]), _F(o["normal"]))
    if abs(n2 - 1) > 3 * Fr(atol):
        return "normal is not unit length (|n|^2 = %r)" % float(n2)
    if not o["readonly"]:
        return "plane arrays are writeable"
    return None


def _contains(o, p, mag, what, rel=Fr(1, 10 ** 8)):
    sd = _dot(_sub(_F(p), _F(o["ref"])), _F(o["normal"]))
    if abs(sd) > rel * mag:
        return "%s is not on the returned plane (signed distance %g)" % (what, float(sd))
    return None


def _direction(nrm, cr, e1, e2, what):
    """unit normal against the exact cross product, tolerance relative to the TRIANGLE (edge lengths), not to the
    coordinates: |n - cr/|cr|| <= 1e-9 * (1 + |e1||e2|/|cr|)"""
    n2 = float(_dot(cr, cr))
    if n2 <= 0 or not math.isfinite(n2):
        return None
    ln = math.sqrt(n2)
    cond = math.sqrt(float(_dot(e1, e1)) * float(_dot(e2, e2))) / ln
    tol = 1e-9 * (1 + cond)
    for a, b in zip(nrm, cr):
        if abs(float(a) - float(b) / ln) > tol:
            return "%s %r is not the unit vector along the exact cross product %r" % (
                what, [float(x) for x in nrm], [float(x) / ln for x in cr])
    return None


def oracle(c, o):
    k = c["kind"]
    if k == "coord":
        if "raise" in o:
            return "coordinate planes raised"
        for name, nrm in (("xy", [0, 0, 1]), ("xz", [0, 1, 0]), ("yz", [1, 0, 0])):
            if o[name]["ref"] != [0, 0, 0] or o[name]["normal"] != nrm or o[name]["dtype"] != "float64":
                return "Plane.%s is not the coordinate plane through the origin" % name
        return None
    if k == "fit_too_few":
        return None  # fewer than 3 points: outside the property's domain (model and code agree on LinAlgError)
    if "raise" in o and o["raise"] != "ValueError":
        return "raised %s (%s); only ValueError is allowed" % (o["raise"], o.get("msg"))
    if "raise" not in o and not o.get("stable", True):
        return ("the plane changed when the caller overwrote the arrays it was built from: normal %r -> %r, "
                "reference point %r -> %r" % (o["first"]["normal"], o["normal"], o["first"]["ref"], o["ref"]))
    if k == "ctor":
        atol = 0.1 ** (6 if c["decimals"] is None else c["decimals"])
        nn = math.sqrt(float(_dot(_F(c["normal"]), _F(c["normal"]))))
        err = abs(nn - 1)
        if "raise" in o:
            return "rejected a normal that is unit to %r decimals (| |n| - 1 | = %g)" % (c["decimals"], err) if err < 0.95 * atol else None
        if err > 1.05 * atol:
            return "accepted a normal with | |n| - 1 | = %g > 0.1**%r" % (err, c["decimals"])
        if o["ref"] != c["ref"] or o["normal"] != c["normal"]:
            return "constructor changed the reference point or normal"
        return _plane_ok(o, atol)
    if k == "fpn":
        v = _F(c["normal"])
        if all(x == 0 for x in v):
            return None if "raise" in o else "accepted a zero normal"
        if "raise" in o:
            return "from_point_and_normal raised ValueError for a non-zero normal"
        bad = _plane_ok(o)
        if bad:
            return bad
        nrm = _F(o["normal"])
        if o["ref"] != c["ref"]:
            return "reference point changed"
        vmax = max(abs(x) for x in v)
        if any(abs(x) > Fr(1, 10 ** 9) * vmax for x in _cross(v, nrm)) or _dot(v, nrm) <= 0:
            return "normal is not the normalised input direction"
        return None
    if k.startswith("from_points"):
        p1, p2, p3 = [_F(p) for p in c["p"]]
        cr = _cross(_sub(p2, p1), _sub(p3, p1))
        if all(x == 0 for x in cr):
            return None if "raise" in o else "accepted collinear points"
        if "raise" in o:
            return "from_points raised ValueError for non-collinear points"
        mag = max([Fr(0)] + [abs(x) for p in (p1, p2, p3) for x in p])
        if o["ref"] != c["p"][0]:
            return "reference point %r is not p1 %r" % (o["ref"], c["p"][0])
        bad = _plane_ok(o) or _contains(o, p1, mag, "p1") or _contains(o, p2, mag, "p2") or _contains(o, p3, mag, "p3")
        if bad:
            return bad
        if _dot(cr, _F(o["normal"])) <= 0:
            return "normal is not on the counter-clockwise side of (p1, p2, p3)"
        return _direction(_F(o["normal"]), cr, _sub(p2, p1), _sub(p3, p1), "from_points normal")
    if k.startswith("fpv"):
        p1, p2, v = _F(c["p1"]), _F(c["p2"]), _F(c["vector"])
        cr = _cross(_sub(p2, p1), v)
        if all(x == 0 for x in cr):
            return None if "raise" in o else "accepted p2 - p1 parallel to the vector"
        if "raise" in o:
            return "from_points_and_vector raised ValueError for a non-degenerate input"
        mag = max([Fr(0)] + [abs(x) for p in (p1, p2) for x in p])
        if o["ref"] != c["p1"]:
            return "reference point %r is not p1 %r" % (o["ref"], c["p1"])
        bad = _plane_ok(o) or _contains(o, p1, mag, "p1") or _contains(o, p2, mag, "p2")
        if bad:
            return bad
        vmax = max(abs(x) for x in v)
        if abs(_dot(v, _F(o["normal"]))) > Fr(1, 10 ** 8) * vmax:
            return "plane is not parallel to the vector"
        return _direction(_F(o["normal"]), cr, _sub(p2, p1), v, "from_points_and_vector normal")
    if k.startswith("fit_"):
        pts = [_F(p) for p in c["points"]]
        n = len(pts)
        cen = [sum(p[j] for p in pts) / n for j in range(3)]
        mag = max([Fr(0)] + [abs(x) for p in pts for x in p])
        if "raise" in o:
            return "fit_from_points raised %s: %s" % (o["raise"], o.get("msg"))
        bad = _plane_ok(o)
        if bad:
            return bad
        cpts = [_sub(p, cen) for p in pts]
        diam2 = max([Fr(0)] + [_dot(_sub(p, r), _sub(p, r)) for p in pts for r in pts])
        # far-offset clouds (exact coordinates, exact mean): tolerance relative to the cloud's own size, not to the
        # magnitude of its coordinates
        cen_tol = Fr(1, 10 ** 9) * (Fr(math.sqrt(float(diam2))) if c.get("feature") else mag)
        if any(abs(Fr(a) - b) > cen_tol for a, b in zip(o["ref"], cen)):
            return "fitted plane does not pass through the centroid (reference point %r, centroid %r)" % (
                o["ref"], [float(x) for x in cen])
        nrm = _F(o["normal"])
        n2 = _dot(nrm, nrm)
        ssd = sum(_dot(p, nrm) ** 2 for p in cpts) / n2
        if c.get("planar_exact"):
            lam = 0.0  # exactly planar by construction: the optimum is 0
        else:
            # the centred points are exact and small: the scatter matrix in binary64 is accurate to ~1e-16 of its trace
            S = np.array([[float(sum(p[a] * p[b] for p in cpts)) for b in range(3)] for a in range(3)])
            lam = float(np.linalg.eigvalsh(S)[0])
        if float(ssd) > max(lam, 0.0) * (1 + 1e-6) + 1e-9 * max(float(diam2), 1e-300):
            return ("fitted plane is not least squares: sum of squared distances %g > optimum %g (cloud diameter %g)"
                    % (float(ssd), lam, math.sqrt(float(diam2))))
        return None
    if k.startswith("tilted"):
        from polliwog import Plane
        pl = Plane(np.array(c["ref"]), np.array(c["normal"]))
        newp, cop = np.array(c["new_point"]), np.array(c["coplanar"])
        vo = pl.project_point(newp) - cop
        mag = max([0.0] + [abs(x) for x in c["new_point"] + c["coplanar"] + c["ref"]])
        if float(np.linalg.norm(vo)) <= 1e-9 * mag:
            return None  # new point on the rotation axis direction: outside the property's domain
        if abs(float(pl.signed_distance(cop))) > 1e-9 * mag:
            return None
        if "raise" in o:
            return "tilted raised ValueError for a new point off the rotation axis"
        # the angle goes through arccos, whose error near 0 and pi is sqrt(machine epsilon) ~ 1.5e-8: generous band
        return (_plane_ok(o) or _contains(o, c["coplanar"], Fr(mag), "coplanar_point")
                or _contains(o, c["new_point"], Fr(mag), "new_point", Fr(1, 10 ** 6)))
    # equation functions
    if "raise" in o:
        return "equation functions raised %s" % o["raise"]
    if not o["args_unchanged"]:
        return "equation functions modified their argument"
    if not o["no_exact"]:
        return "normal_and_offset_from_plane_equations does not return the columns of its argument"
    for i, t in enumerate(c["tris"]):
        p1, p2, p3 = [_F(p) for p in t]
        cr = _cross(_sub(p2, p1), _sub(p3, p1))
        rows = [o["n_stack"][i], o["n_single"][i], o["e_stack"][i], o["e_single"][i]]
        if all(x == 0 for x in cr):
            if not all(x != x for r in rows for x in r):
                return "collinear triangle %d does not give a NaN row" % i
            continue
        if o["n_stack"][i] != o["n_single"][i] or o["e_stack"][i] != o["e_single"][i]:
            return "stacked and single results differ for triangle %d" % i
        if o["e_stack"][i][:3] != o["n_stack"][i]:
            return "plane equation %d does not start with the unit normal" % i
        nrm = _F(o["n_stack"][i])
        mag = max([Fr(0)] + [abs(x) for p in (p1, p2, p3) for x in p])
        if abs(_dot(nrm, nrm) - 1) > Fr(1, 10 ** 9) or _dot(cr, nrm) <= 0:
            return "normal %d is not the unit counter-clockwise normal" % i
        bad = _direction(nrm, cr, _sub(p2, p1), _sub(p3, p1), "plane_normal_from_points row %d" % i)
        if bad:
            return bad
        e12 = math.sqrt(float(_dot(_sub(p2, p1), _sub(p2, p1))) * float(_dot(_sub(p3, p1), _sub(p3, p1))))
        if any(abs(float(a) - float(b)) > 1e-9 * e12 for a, b in zip(o["raw_stack"][i], cr)):
            return "unnormalised normal %d is %r, the cross product of the edges is %r" % (
                i, o["raw_stack"][i], [float(x) for x in cr])
        D = Fr(o["e_stack"][i][3])
        for name, p in (("p1", p1), ("p2", p2), ("p3", p3)):
            if abs(_dot(p, nrm) + D) > Fr(1, 10 ** 8) * mag:
                return "%s of triangle %d does not satisfy its plane equation" % (name, i)
        if any(abs(Fr(a) - b) > Fr(1, 10 ** 9) * mag * mag for a, b in zip(o["raw_stack"][i], cr)):
            return "unnormalised normal %d is not the cross product of the edges" % i
    return None


def classify(c, o, failure, disagrees):
    return None
