"""C18 — Line projection is closest point; reported line intersections lie on both lines."""
import os
import warnings
from fractions import Fraction as Fr

import numpy as np

from common import Kernel, call_impl, coq_list, fl, flv, grid_vec, q, qv

ID = "C18"
N_CASES = {"quick": 2400, "thorough": 40000, "search": 4000}
RULE = ("seeded streams: projection (single / stacked / paired, dyadic grid points times 2^k, directions of any non-zero "
        "length incl. zero and tiny); Line constructor / from_points / reference_points; 3-D and 2-D line pairs through "
        "integer lattice points of [-3,3]^3 / [-4,4]^2 biased towards every incidence pattern (shared defining points, "
        "a defining point on the other line, parallel, coincident, skew, coplanar crossing); float (dyadic) lines of "
        "magnitude 1e-3..1e3 that meet by construction; lattice lines inside axis-aligned planes (signed-zero cross "
        "products), int64 inputs, generic (skew) float lines with coordinates ~1e-3, direction vectors of length "
        "2^-45..2^20 for the projection forms (straddling Line's 1e-8 threshold, which is also probed at, one ulp below "
        "and one ulp above), extreme direction lengths 2^-1060..2^-480 and 2^480..2^1020 at unit-size positions "
        "(proj_*_extreme), arbitrary non-dyadic double lines meeting up to rounding (oracle only), extreme scales in the "
        "quick tier; plus oracle-only sweeps, in BOTH tiers, over ALL ordered pairs of lines through two distinct lattice "
        "points of [-1,1]^3 (492 804 pairs) and [-2,2]^2 (360 000 pairs); the larger 2-D box [-3,3]^2 (5 531 904 pairs) is "
        "only SAMPLED: every 3rd pair in the thorough tier, every 131st in the quick tier - exhaustiveness is claimed for "
        "the two small boxes only (counts and the `exhaustive` flag in coverage.lattice_sweep_*); "
        "far_offset_exact: unit-size dyadic scenes 2^24..2^31 away from the origin for all projection forms and "
        "intersect_lines (positions judged to 1e-9 of the scene plus 0.75..1.5 ulp per coordinate), intersect_2d_lines there "
        "relative to the coordinates only; non-trivial = the call returned; distinct by hash of inputs")
TRUSTED = ["Coq 8.16.1 kernel, vm_compute for the correspondence evaluation",
           "axioms (Print Assumptions): ClassicalDedekindReals.sig_forall_dec, sig_not_dec, "
           "FunctionalExtensionality.functional_extensionality_dep, Classical_Prop.classic (all Coq stdlib Reals)",
           "tools/symtrace.py tracing translator + numpy shim (re-validated numerically each run)",
           "coq/Agree.v agreement relation (tolerance 1e-9 relative to the magnitude of the inputs; all inputs are exactly "
           "representable with exact cross / dot products, so every decision of the code is compared)",
           "np.linalg.solve (2x2) is modelled by Cramer's rule and tied by the correspondence check only",
           "NumPy, vg"]
CASE_IMPORTS = [("PW.model", "M_line")]
DEFINITIONAL = ["C18_projection_stacked_is_rowwise", "C18_line_methods_delegate"]
ASSUMPTIONS = ["the real-number projection theorem cannot see overflow / underflow of the squared norm of a direction "
               "vector: direction lengths outside about [1e-150, 1e150] are judged by the correspondence and the oracle only "
               "(stream proj_*_extreme; the defect found there was repaired by fixes/C18-projection-extreme-lengths.diff, "
               "/repo commit 36e7d06)",
               "Line refuses non-zero directions whose components are all <= 1e-8 (vg.almost_zero): stated as "
               "C18_line_accepts_any_nonzero_direction_refuted / known finding line_rejects_tiny_nonzero_direction",
               "theorems are about exact real arithmetic; binary64 rounding is covered only by the tolerance of the "
               "correspondence check on sampled inputs",
               "the model is the code of /repo including the repairs fcc1d6c (intersect_lines), 7dfe779 (intersect_2d_lines); "
               "the power-of-two rescaling of 36e7d06 is not mirrored (identity over the reals, "
               "C18_projection_ignores_direction_length)"]
SHARD = 100
EXTRA_COVERAGE = {}   # filled by the exhaustive sweeps (run_impl of the sweep cases); copied into the evidence by the driver
IMPORTS = [("PW.model", "M_line"), ("PW.proofs", "P_vec"), ("PW.proofs", "P_plane_xsect"), ("PW.proofs", "P_line")]


# ---------------------------------------------------------------------------------------------------------
UNF = ("cbv [project_point_to_line project_points_to_line project_points_to_lines vg_project line_project "
       "line_project_stack reference_points line_intersect_line intersect_lines intersect_lines_rational intersect_2d_lines lref lalong "
       "veqb vnormalize vnorm vnorm2 vdivs vcross map zip fst snd option_map orb negb "
       "vlist vadd vsub vscale vdot vx vy vz n0 n1]; rops. rewrite ?Rplus_0_l in *. "
       # a power-of-two rescaling of the direction (literal constant c) cancels in the unit vector
       "rewrite ?sqrt_scale3 by (unfold nfrac; rops; lra). try (unfold nfrac in *; rops).")
HEAD = "Proof. intros {vars} Hpath. unfold {T}_path in Hpath; rops. path_facts Hpath. unfold {T}. " + UNF + "\n"
# value lists: syntactically equal, ring / field equal, or equal modulo sqrt facts (a rewrite may trade two divisions by a
# norm for one division by the squared length)
VALS = "first [ reflexivity | f_equal; list_eq ltac:(first [ reflexivity | ring | field; nonzero_from_path | sqrt_field ]) ]"


def kernels():
    from polliwog import Line
    from polliwog.line import intersect_2d_lines, intersect_lines, project_point_to_line

    ks = []
    P, R_, A = "(V3 p0 p1 p2)", "(V3 r0 r1 r2)", "(V3 a0 a1 a2)"
    NZ = "sqrt (a0 * a0 + a1 * a1 + a2 * a2) <> 0"
    HEADN = HEAD.replace("intros {vars} Hpath", "intros {vars} Hn Hpath")
    # the trace divides by |along| without a test: it exists only where that is non-zero (explicit hypothesis);
    # the zero direction (NaN row) is tied by the correspondence check
    ks.append(Kernel(
        "project_single", {"p": [1.0, 2.0, 3.0], "r": [0.5, -1.0, 2.0], "a": [3.0, -2.0, 0.5]},
        lambda p, r, a: project_point_to_line(p, r, a),
        "Lemma {T}_ok : forall {vars} : R, %s -> {T}_path ROps {vars} ->\n"
        "  option_map vlist (project_point_to_line ROps %s %s %s) = Some ({T} ROps {vars}).\n" % (NZ, P, R_, A)
        + HEADN + "  decide_ifs. " + VALS + ". Qed.",
        imports=IMPORTS))
    ks.append(Kernel(
        "project_stack", {"p": [[1.0, 2.0, 3.0], [-2.0, 0.5, 1.0]], "r": [0.5, -1.0, 2.0], "a": [3.0, -2.0, 0.5]},
        lambda p, r, a: project_point_to_line(p, r, a),
        "Lemma {T}_ok : forall {vars} : R, %s -> {T}_path ROps {vars} ->\n"
        "  map (option_map vlist) (project_points_to_line ROps [V3 p0 p1 p2; V3 p3 p4 p5] %s %s) =\n"
        "  [Some (firstn 3 ({T} ROps {vars})); Some (skipn 3 ({T} ROps {vars}))].\n" % (NZ, R_, A)
        + HEADN + "  decide_ifs. cbn [firstn skipn]. repeat (apply cons_eq; [" + VALS + "|]). reflexivity. Qed.",
        imports=IMPORTS))
    ks.append(Kernel(
        "project_pairs", {"p": [[1.0, 2.0, 3.0], [-2.0, 0.5, 1.0]], "r": [[0.5, -1.0, 2.0], [1.0, 1.0, 0.0]],
                          "a": [[3.0, -2.0, 0.5], [0.0, 2.0, -1.0]]},
        lambda p, r, a: project_point_to_line(p, r, a),
        "Lemma {T}_ok : forall {vars} : R, %s -> sqrt (a3 * a3 + a4 * a4 + a5 * a5) <> 0 -> {T}_path ROps {vars} ->\n"
        "  map (option_map vlist) (project_points_to_lines ROps [V3 p0 p1 p2; V3 p3 p4 p5] [V3 r0 r1 r2; V3 r3 r4 r5]\n"
        "     [V3 a0 a1 a2; V3 a3 a4 a5]) = [Some (firstn 3 ({T} ROps {vars})); Some (skipn 3 ({T} ROps {vars}))].\n" % NZ
        + HEAD.replace("intros {vars} Hpath", "intros {vars} Hn Hn2 Hpath")
        + "  decide_ifs. cbn [firstn skipn]. repeat (apply cons_eq; [" + VALS + "|]). reflexivity. Qed.",
        imports=IMPORTS))

    # ---- intersect_lines (the repaired routine): one kernel per branch ------------------------------------------
    ARGS = "(V3 a0 a1 a2) (V3 b0 b1 b2) (V3 c0 c1 c2) (V3 d0 d1 d2)"

    # intersect_lines kernels: the code may or may not take the norms of h and k. If neither the path nor the traced
    # values contain a square root, the tie is made against the square-root-free form of the model, which is proved equal
    # to intersect_lines for all inputs (P_line.intersect_lines_rational_eq); the lemma statement is about intersect_lines
    # either way.
    unf = UNF.replace(". ", "; ").rstrip(".;")
    has_sqrt = ("first [ match type of Hpath with context [sqrt _] => idtac end "
                "| match goal with |- context [nsqrt _ _] => idtac end ]")

    def il_script(close):
        rest = "path_facts Hpath; " + unf + "; decide_ifs; cbn [andb orb negb]; " + close
        return ("Proof. intros {vars} Hpath. unfold {T}_path in Hpath; rops. unfold {T}.\n"
                "  first [ " + has_sqrt + "; " + rest + "\n"
                "        | rewrite intersect_lines_rational_eq; " + rest + " ]. Qed.")

    def il(name, a, b, c, d, none=False, extra=""):
        if none:
            ks.append(Kernel(
                name, {"a": a, "b": b, "c": c, "d": d},
                lambda a, b, c, d: (intersect_lines(a, b, c, d) is None,),
                "Lemma {T}_ok : forall {vars} : R, {T}_path ROps {vars} -> intersect_lines ROps %s = None.\n" % ARGS
                + il_script("reflexivity"),
                imports=IMPORTS, expect_structure={"tuple": [True]}, perturb=0.0))
        else:
            ks.append(Kernel(
                name, {"a": a, "b": b, "c": c, "d": d},
                lambda a, b, c, d: intersect_lines(a, b, c, d),
                "Lemma {T}_ok : forall {vars} : R, {T}_path ROps {vars} ->\n"
                "  option_map vlist (intersect_lines ROps %s) = Some ({T} ROps {vars}).\n" % ARGS
                + il_script(VALS),
                imports=IMPORTS, perturb=0.0))

    il("isect_sign_minus", [5.0, 5.0, 4.0], [10.0, 10.0, 6.0], [5.0, 5.0, 5.0], [10.0, 10.0, 3.0])
    il("isect_sign_plus", [5.0, 5.0, 4.0], [10.0, 10.0, -6.0], [5.0, 5.0, 5.0], [10.0, 10.0, -3.0])
    # the configuration on which float equality of the unit vectors picks the wrong sign in the released code
    il("isect_lattice", [1.0, 0.0, 1.0], [-2.0, 1.0, 0.0], [0.0, -1.0, 0.0], [0.0, 1.0, 1.0])
    il("isect_p0_on_line1", [0.0, 0.0, 0.0], [1.0, 1.0, 0.0], [-1.0, 0.0, 0.0], [1.0, 0.0, 0.0])
    il("isect_parallel", [0.0, 1.0, 2.0], [0.0, 10.0, 20.0], [1.0, 2.0, 3.0], [1.0, 11.0, 21.0], none=True)
    il("isect_skew", [0.0, 1.0, 0.0], [1.0, 0.0, 0.0], [0.0, 0.0, 1.0], [1.0, 1.0, 1.0], none=True)
    il("isect_q0_is_p1", [0.0, 1.0, 2.0], [0.0, 10.0, 20.0], [0.0, 10.0, 20.0], [1.0, 2.0, 3.0])

    # ---- intersect_2d_lines: the determinant test (np.linalg.solve itself is LAPACK: not traceable) ----------------
    ks.append(Kernel(
        "isect2d_parallel", {"a": [-1.0, 2.0], "b": [2.0, -1.0], "c": [2.0, -2.0], "d": [-3.0, 3.0]},
        lambda a, b, c, d: (intersect_2d_lines(a, b, c, d) is None,),
        "Lemma {T}_ok : forall {vars} : R, {T}_path ROps {vars} ->\n"
        "  intersect_2d_lines ROps (a0, a1) (b0, b1) (c0, c1) (d0, d1) = None.\n"
        + HEAD + "  decide_ifs. reflexivity. Qed.",
        imports=IMPORTS, expect_structure={"tuple": [True]}, perturb=0.0))
    return ks


# ---------------------------------------------------------------------------------------------------------
def _lat(rng, lo=-3, hi=3):
    return [float(rng.randint(lo, hi)) for _ in range(3)]


def _lattice_pair(rng):
    """four lattice points p0 != q0, p1 != q1, biased towards every incidence pattern"""
    while True:
        p1, q1 = _lat(rng), _lat(rng)
        if p1 == q1:
            continue
        u = rng.random()
        f = [b - a for a, b in zip(p1, q1)]

        def on1(t):
            return [a + t * x for a, x in zip(p1, f)]

        if u < 0.30:      # generic (mostly skew)
            p0, q0 = _lat(rng), _lat(rng)
        elif u < 0.55:    # coplanar crossing: a point of line 1 (possibly a defining point) and two steps from it
            m = on1(rng.choice([-1, 0, 0, 1, 1, 2]))
            d = [float(rng.randint(-2, 2)) for _ in range(3)]
            s, t = rng.sample([-2, -1, 0, 1, 2, 3], 2)
            p0, q0 = [a + s * x for a, x in zip(m, d)], [a + t * x for a, x in zip(m, d)]
        elif u < 0.70:    # parallel (distinct or coincident)
            o = on1(rng.choice([0, 1, -1])) if rng.random() < 0.3 else _lat(rng)
            s = rng.choice([-2, -1, 1, 2])
            p0, q0 = o, [a + s * x for a, x in zip(o, f)]
        elif u < 0.85:    # shared defining points
            p0, q0 = _lat(rng), _lat(rng)
            w = rng.randrange(4)
            if w == 0:
                p0 = list(p1)
            elif w == 1:
                p0 = list(q1)
            elif w == 2:
                q0 = list(p1)
            else:
                q0 = list(q1)
        else:             # a defining point of line 0 on line 1, the other anywhere
            p0, q0 = on1(rng.choice([-2, -1, 2, 3, 0, 1])), _lat(rng)
            if rng.random() < 0.5:
                p0, q0 = q0, p0
        if p0 != q0:
            return p0, q0, p1, q1


def _lattice_pair_2d(rng):
    while True:
        p1, q1 = [float(rng.randint(-4, 4)) for _ in range(2)], [float(rng.randint(-4, 4)) for _ in range(2)]
        if p1 == q1:
            continue
        f = [b - a for a, b in zip(p1, q1)]
        u = rng.random()
        if u < 0.5:
            p0, q0 = [float(rng.randint(-4, 4)) for _ in range(2)], [float(rng.randint(-4, 4)) for _ in range(2)]
        elif u < 0.8:   # parallel, distinct or coincident
            o = [float(rng.randint(-4, 4)) for _ in range(2)] if rng.random() < 0.7 else list(p1)
            s = rng.choice([-3, -2, -1, 1, 2, 3])
            p0, q0 = o, [a + s * x for a, x in zip(o, f)]
        else:           # a shared point
            p0, q0 = list(rng.choice([p1, q1])), [float(rng.randint(-4, 4)) for _ in range(2)]
            if rng.random() < 0.5:
                p0, q0 = q0, p0
        if p0 != q0:
            return p0, q0, p1, q1


# ---- exhaustive lattice sweeps (oracle only) ---------------------------------------------------------------------
# Every ordered pair of lines through two distinct lattice points of a small box: 3-D [-1,1]^3 (27 points, 702 ordered
# point pairs = lines with a distinguished (p, q), 492 804 ordered pairs of lines), 2-D [-2,2]^2 (25 points, 600 lines,
# 360 000 pairs) and, sampled, [-3,3]^2 (49 points, 2352 lines, 5 531 904 pairs). The implementation is called on every pair; the verdict is computed for all pairs at once in exact
# int64 arithmetic (cross / dot products of lattice vectors), the expected common point in binary64 from exact integers.


def _sweep_lines(dim, box):
    import itertools
    lo, hi = box
    pts = np.array(list(itertools.product(range(lo, hi + 1), repeat=dim)), dtype=np.int64)
    idx = np.array([(i, j) for i in range(len(pts)) for j in range(len(pts)) if i != j], dtype=np.int64)
    return pts, idx


def _sweep_worker(args):
    """call the implementation for line-0 indices `rows` against every selected line 1; NaN row = None"""
    dim, box, rows, stride, offset = args
    from polliwog.line import intersect_2d_lines, intersect_lines

    fn = intersect_lines if dim == 3 else intersect_2d_lines
    pts, idx = _sweep_lines(dim, box)
    fpts = pts.astype(np.float64)
    nl = len(idx)
    out = []
    with warnings.catch_warnings(), np.errstate(all="ignore"):
        warnings.simplefilter("ignore")
        for i in rows:
            p0, q0 = fpts[idx[i, 0]], fpts[idx[i, 1]]
            js = np.flatnonzero((i * nl + np.arange(nl)) % stride == offset)
            res = np.full((len(js), dim), np.nan)
            exc = None
            for n_, j in enumerate(js):
                try:
                    r = fn(p0.copy(), q0.copy(), fpts[idx[j, 0]].copy(), fpts[idx[j, 1]].copy())
                except Exception as e:  # noqa
                    exc = (j, type(e).__name__)
                    r = None
                if r is not None:
                    res[n_] = r
            out.append((i, js, res, exc))
    return out


def _run_sweep(dim, box, stride, offset):
    import multiprocessing
    import time

    t0 = time.time()
    box = tuple(box)
    offset %= stride
    pts, idx = _sweep_lines(dim, box)
    nl = len(idx)
    rows = list(range(nl))
    nproc = max(1, min(8, (os.cpu_count() or 2) // 2))
    chunks = [(dim, box, rows[k::nproc * 4], stride, offset) for k in range(nproc * 4)]
    try:
        with multiprocessing.get_context("fork").Pool(nproc) as pool:
            parts = pool.map(_sweep_worker, chunks)
    except Exception:  # no fork / no pool: serial
        parts = [_sweep_worker(ch) for ch in chunks]
    I, J, R, excs = [], [], [], []
    for part in parts:
        for i, js, res, exc in part:
            I.append(np.full(len(js), i, dtype=np.int64))
            J.append(np.asarray(js, dtype=np.int64))
            R.append(res)
            if exc:
                excs.append((i,) + exc)
    I, J = np.concatenate(I), np.concatenate(J)
    R = np.vstack(R)
    P0, Q0, P1, Q1 = pts[idx[I, 0]], pts[idx[I, 1]], pts[idx[J, 0]], pts[idx[J, 1]]
    returned = ~np.isnan(R).any(axis=1)
    finite = np.isfinite(R).all(axis=1)
    if dim == 3:
        e, f, g = P0 - Q0, P1 - Q1, P0 - P1
        k, h = np.cross(f, e), np.cross(f, g)
        kk, gk, hk = (k * k).sum(1), (g * k).sum(1), (h * k).sum(1)
        par, hz = kk == 0, (h == 0).all(1)
        unique = ~par & (gk == 0)
        skew = gk != 0
        pdist, coinc = par & ~hz, par & hz
        with np.errstate(all="ignore"):
            M = P0 - (hk / np.where(kk == 0, 1, kk))[:, None] * e          # P0 - (h.k / k.k) e
        # M == X  <=>  k.k (P0 - X) == h.k e   (integers)
        def m_is(X):
            return unique & (kk[:, None] * (P0 - X) == hk[:, None] * e).all(1)
        off_line0 = np.abs(np.cross(np.nan_to_num(R) - P0, e)).max(1) > 1e-9     # used for coincident lines only
    else:
        d0, d1, w = Q0 - P0, Q1 - P1, P1 - P0
        det = d0[:, 0] * d1[:, 1] - d0[:, 1] * d1[:, 0]
        par = det == 0
        unique, skew = ~par, np.zeros(len(I), dtype=bool)
        wz = (w[:, 0] * d0[:, 1] - w[:, 1] * d0[:, 0]) == 0
        pdist, coinc = par & ~wz, par & wz
        tnum = w[:, 0] * d1[:, 1] - w[:, 1] * d1[:, 0]
        with np.errstate(all="ignore"):
            M = P0 + (tnum / np.where(det == 0, 1, det))[:, None] * d0
        def m_is(X):
            return unique & (det[:, None] * (X - P0) == tnum[:, None] * d0).all(1)
        Rz = np.nan_to_num(R) - P0
        off_line0 = np.abs(Rz[:, 0] * d0[:, 1] - Rz[:, 1] * d0[:, 0]) > 1e-9
    wrong_point = unique & returned & ~(finite & (np.abs(np.nan_to_num(R) - M).max(1) <= 1e-9 * (1 + np.abs(M).max(1))))
    bad = {
        "unique common point not returned (None)": unique & ~returned,
        "returned point is not the common point": wrong_point,
        "a point returned for skew lines": skew & returned,
        "a point returned for parallel distinct lines": pdist & returned,
        "a point off the line returned for coincident lines": coinc & returned & (~finite | off_line0),
    }
    failures, nfail = [], 0
    for what, mask in bad.items():
        nfail += int(mask.sum())
        for n_ in np.flatnonzero(mask)[:3]:
            failures.append({"what": what, "p0": P0[n_].tolist(), "q0": Q0[n_].tolist(), "p1": P1[n_].tolist(),
                             "q1": Q1[n_].tolist(), "returned": None if not returned[n_] else R[n_].tolist(),
                             "expected": M[n_].tolist() if unique[n_] else None})
    for i, j, name in excs[:3]:
        nfail += 1
        failures.append({"what": "exception " + name, "p0": pts[idx[i, 0]].tolist(), "q0": pts[idx[i, 1]].tolist(),
                         "p1": pts[idx[j, 0]].tolist(), "q1": pts[idx[j, 1]].tolist(), "returned": None, "expected": None})
    # incidence patterns between the four defining points and the common point
    eq = lambda A, B: (A == B).all(1)  # noqa
    bits = [eq(P0, P1), eq(P0, Q1), eq(Q0, P1), eq(Q0, Q1), m_is(P0), m_is(Q0), m_is(P1), m_is(Q1)]
    cls = unique * 1 + skew * 2 + pdist * 3 + coinc * 4
    code = cls.astype(np.int64)
    for b in bits:
        code = code * 2 + b
    lo, hi = box
    return {"box": "[%d,%d]^%d" % (lo, hi, dim), "points": int(len(pts)), "lines_ordered_point_pairs": int(nl),
            "pairs": int(len(I)), "all_pairs": int(nl * nl), "exhaustive": bool(stride == 1), "stride": stride,
            "by_class": {"unique_common_point": int(unique.sum()), "skew": int(skew.sum()),
                         "parallel_distinct": int(pdist.sum()), "coincident": int(coinc.sum())},
            "returned_a_point": int(returned.sum()), "incidence_patterns": int(len(np.unique(code))),
            "failing_pairs": nfail, "failures": failures, "seconds": round(time.time() - t0, 1)}


def _far_case(rng):
    """far_offset_exact: a unit-size scene on a dyadic grid translated 2^24..2^31 away from the origin; every coordinate
    exactly representable, differences of points exact, products of a coordinate with a direction component not"""
    off = [float(rng.choice([-1, 1]) * 2 ** rng.randint(24, 31)) for _ in range(3)]

    def pos(den=8):
        return [o + rng.randint(-4 * den, 4 * den) / den for o in off]

    def direction():
        w = rng.random()
        g = [0.0, 0.0, 0.0]
        while not any(g):
            g = [rng.randint(-196608, 196608) / 65536 for _ in range(3)] if w < 0.6 else grid_vec(rng, -3, 3, 4)
        return [x * 2.0 ** rng.choice([0, 0, -3, 5]) for x in g]

    u = rng.random()
    if u < 0.2:
        return {"kind": "proj_single_far_offset", "far": True, "p": pos(), "ref": pos(), "a": direction()}
    if u < 0.4:
        return {"kind": "proj_stack_far_offset", "far": True, "ps": [pos() for _ in range(rng.choice([1, 2, 4]))],
                "ref": pos(), "a": direction()}
    if u < 0.55:
        k = rng.choice([1, 2, 3])
        return {"kind": "proj_pairs_far_offset", "far": True, "ps": [pos() for _ in range(k)],
                "refs": [pos() for _ in range(k)], "alongs": [direction() for _ in range(k)]}
    if u < 0.85:
        while True:
            m = pos(4)
            d0, d1 = [float(rng.randint(-3, 3)) for _ in range(3)], [float(rng.randint(-3, 3)) for _ in range(3)]
            s0, t0 = rng.sample([-2, -1, 0, 1, 2, 3], 2)
            s1, t1 = rng.sample([-2, -1, 0, 1, 2, 3], 2)
            sh = [float(rng.randint(-1, 1)) for _ in range(3)] if rng.random() < 0.25 else [0.0, 0.0, 0.0]
            p0, q0 = [a + s0 * x for a, x in zip(m, d0)], [a + t0 * x for a, x in zip(m, d0)]
            p1, q1 = [a + s1 * x + z for a, x, z in zip(m, d1, sh)], [a + t1 * x + z for a, x, z in zip(m, d1, sh)]
            if p0 != q0 and p1 != q1:
                return {"kind": "isect3_far_offset", "far": True, "p0": p0, "q0": q0, "p1": p1, "q1": q1}
    # 2-D: intersect_2d_lines forms p_y dx - dy p_x, which cancels far from the origin by construction of the routine:
    # judged with the tolerance relative to the coordinates (not wrapped in CFar)
    while True:
        o2 = off[:2]
        pts = [[o + float(rng.randint(-4, 4)) for o in o2] for _ in range(4)]
        if pts[0] != pts[1] and pts[2] != pts[3]:
            return {"kind": "isect2_far_offset", "p0": pts[0], "q0": pts[1], "p1": pts[2], "q1": pts[3]}


def gen_cases(rng, n, tier):
    cases = []
    for _ in range(n):
        if rng.random() < 0.04:
            cases.append(_far_case(rng))
            continue
        u = rng.random()
        scale = 2.0 ** rng.randint(-10, 10) if tier != "thorough" else 2.0 ** rng.randint(-30, 30)
        if tier != "thorough" and rng.random() < 0.15:
            scale = 2.0 ** rng.choice([-30, -26, -22, 20, 25, 30])
        if u < 0.08:
            # direction vectors of ANY non-zero length, and the zero vector; one case in four has extreme lengths
            # (2^-1060..2^-480, 2^480..2^1020: squaring a component overflows / underflows), positions of unit size
            extreme = rng.random() < 0.25
            if extreme:
                scale = 2.0 ** rng.randint(-10, 10)
            def direction():
                w = rng.random()
                if w < 0.08:
                    return [0.0, 0.0, 0.0]
                g = [0.0, 0.0, 0.0]
                while not any(g):
                    g = grid_vec(rng, -3, 3, 2)
                if extreme:
                    e = rng.choice([rng.randint(-1060, -480), rng.randint(480, 1020)]) if w < 0.85 else rng.randint(-40, 20)
                else:
                    e = rng.randint(-45, 20)    # straddles Line's 1e-8 threshold: the comparison is exact on both sides
                return [x * 2.0 ** e for x in g]

            kind = rng.choice(["proj_single", "proj_stack", "proj_pairs"])
            ext = "_extreme" if extreme else ""
            if kind == "proj_single":
                cases.append({"kind": kind + ext, "p": [x * scale for x in grid_vec(rng)], "ref": [x * scale for x in grid_vec(rng)],
                              "a": direction()})
            elif kind == "proj_stack":
                k = rng.choice([0, 1, 2, 4])
                cases.append({"kind": kind + ext, "ps": [[x * scale for x in grid_vec(rng)] for _ in range(k)],
                              "ref": [x * scale for x in grid_vec(rng)], "a": direction()})
            else:
                k = rng.choice([0, 1, 2, 2, 4])
                cases.append({"kind": kind + ext, "ps": [[x * scale for x in grid_vec(rng)] for _ in range(k)],
                              "refs": [[x * scale for x in grid_vec(rng)] for _ in range(k)],
                              "alongs": [direction() for _ in range(k)]})
        elif u < 0.11:
            w = rng.random()
            thr = False
            if w < 0.25:
                along = [0.0, 0.0, 0.0]
            elif w < 0.5:
                # exactly at, one ulp below and one ulp above Line's threshold (the binary64 constant 1e-8)
                t = [1e-8, float(np.nextafter(1e-8, 0.0)), float(np.nextafter(1e-8, 1.0))]
                along = [rng.choice([-1, 1]) * rng.choice(t + [0.0, 2.0 ** -30]) for _ in range(3)]
                thr = True
            elif w < 0.65:
                along = [x * 2.0 ** rng.randint(-45, -20) for x in grid_vec(rng)]
            else:
                along = [x * scale for x in grid_vec(rng)]
            point = [x * scale for x in grid_vec(rng)]
            if thr or rng.random() < 0.5:
                cases.append({"kind": "line_ctor", "point": [0.0, 0.0, 0.0] if thr else point, "along": along})
            else:
                cases.append({"kind": "line_from_points", "p1": point, "p2": [a + b for a, b in zip(point, along)]})
        elif u < 0.55:
            p0, q0, p1, q1 = _lattice_pair(rng)
            cases.append({"kind": "isect3_lattice", "p0": p0, "q0": q0, "p1": p1, "q1": q1, "int": rng.random() < 0.15})
        elif u < 0.60:
            # both lines in one axis-aligned plane: the cross products h, k have zero components of either sign bit
            ax, cst = rng.randrange(3), float(rng.randint(-2, 2))

            def inplane():
                v = _lat(rng)
                v[ax] = cst
                return v

            p0, q0, p1, q1 = inplane(), inplane(), inplane(), inplane()
            if p0 != q0 and p1 != q1:
                cases.append({"kind": "isect3_axis_plane", "p0": p0, "q0": q0, "p1": p1, "q1": q1, "int": rng.random() < 0.15})
        elif u < 0.63:
            # float lines at the small end of the property's range (coordinates about 1e-3), generic position: mostly
            # clearly skew, with a triple product far below any absolute tolerance
            # (coordinates up to 1.2e-3: the triple product of a skew pair is then of order 1e-9 or less)
            sc = 2.0 ** rng.choice([-12, -12, -12, -11])
            p0, q0, p1, q1 = ([x * sc for x in grid_vec(rng, -5, 5, 4)] for _ in range(4))
            if p0 != q0 and p1 != q1:
                cases.append({"kind": "isect3_float_small", "p0": p0, "q0": q0, "p1": p1, "q1": q1})
        elif u < 0.69:
            # float (dyadic) lines of moderate magnitude that meet by construction (or miss by a shift)
            sc = 2.0 ** rng.randint(-10, 9)
            m = [x * sc for x in grid_vec(rng, -4, 4, 4)]
            d0, d1 = [x * sc for x in grid_vec(rng, -4, 4, 4)], [x * sc for x in grid_vec(rng, -4, 4, 4)]
            s0, t0 = rng.sample([-2.0, -1.0, -0.5, 0.5, 1.0, 2.0, 0.0], 2)
            s1, t1 = rng.sample([-2.0, -1.0, -0.5, 0.5, 1.0, 2.0, 0.0], 2)
            p0, q0 = [a + s0 * x for a, x in zip(m, d0)], [a + t0 * x for a, x in zip(m, d0)]
            p1, q1 = [a + s1 * x for a, x in zip(m, d1)], [a + t1 * x for a, x in zip(m, d1)]
            if rng.random() < 0.2:
                sh = [x * sc for x in grid_vec(rng, -1, 1, 2)]
                p1, q1 = [a + b for a, b in zip(p1, sh)], [a + b for a, b in zip(q1, sh)]
            if p0 != q0 and p1 != q1:
                cases.append({"kind": "isect3_float", "p0": p0, "q0": q0, "p1": p1, "q1": q1})
        elif u < 0.73:
            # arbitrary (non-dyadic) double lines of magnitude 1e-3..1e3 that meet up to rounding; half of them inside an
            # axis-aligned plane, where the float triple product is exactly 0 and a point is returned. Judged by the
            # oracle only (lies-on-both-lines clause): the exact model would decide coplanarity differently.
            def coord():
                return rng.choice([-1, 1]) * 10.0 ** rng.uniform(-3, 3)

            m, d0, d1 = [coord() for _ in range(3)], [coord() for _ in range(3)], [coord() for _ in range(3)]
            if rng.random() < 0.5:
                ax = rng.randrange(3)
                d0[ax] = d1[ax] = 0.0
            mx = max(abs(x) for x in m)
            d0 = [x * mx / max(abs(y) for y in d0) for x in d0]
            d1 = [x * mx / max(abs(y) for y in d1) for x in d1]
            s0, t0, s1, t1 = (rng.uniform(-1, 1) for _ in range(4))
            p0, q0 = [a + s0 * x for a, x in zip(m, d0)], [a + t0 * x for a, x in zip(m, d0)]
            p1, q1 = [a + s1 * x for a, x in zip(m, d1)], [a + t1 * x for a, x in zip(m, d1)]
            if p0 != q0 and p1 != q1:
                cases.append({"kind": "isect3_generic_float", "p0": p0, "q0": q0, "p1": p1, "q1": q1})
        else:
            p0, q0, p1, q1 = _lattice_pair_2d(rng)
            cases.append({"kind": "isect2_lattice", "p0": p0, "q0": q0, "p1": p1, "q1": q1, "int": rng.random() < 0.15})
    if tier in ("quick", "thorough"):
        # exhaustive sweeps over small lattice boxes (oracle only), in both tiers
        # 2-D additionally a larger box, sampled: [-3,3]^2 is the smallest box in which np.linalg.solve's inexact LU
        # pivot showed on parallel lines (800 of its 5 531 904 pairs)
        # quick: the two small boxes are swept completely as well (about 15 s); only the large 2-D box is strided
        s3, s2, s2b = (1, 1, 3) if tier == "thorough" else (1, 1, 131)
        cases.append({"kind": "sweep3_lattice_box", "dim": 3, "box": [-1, 1], "stride": s3, "offset": rng.randrange(s3)})
        cases.append({"kind": "sweep2_lattice_box", "dim": 2, "box": [-2, 2], "stride": s2, "offset": rng.randrange(s2)})
        cases.append({"kind": "sweep2_lattice_box3", "dim": 2, "box": [-3, 3], "stride": s2b, "offset": rng.randrange(s2b)})
    return cases


def _arr(pts):
    return np.array(pts, dtype=np.float64).reshape(-1, 3)


def _row(x):
    return None if x is None else [float(e) for e in x]


def run_impl(c):
    from polliwog import Line
    from polliwog.line import intersect_2d_lines, intersect_lines, project_point_to_line

    def go():
        with warnings.catch_warnings(), np.errstate(all="ignore"):
            warnings.simplefilter("ignore")
            k = c["kind"]
            if k.startswith("sweep"):
                o = _run_sweep(c["dim"], c["box"], c["stride"], c["offset"])
                EXTRA_COVERAGE["lattice_sweep_%dd_box%d" % (c["dim"], c["box"][1])] = {kk_: v for kk_, v in o.items() if kk_ != "failures"}
                return o
            def line_form(r, a, pts):
                # Line refuses almost-zero directions (ValueError): recorded, the model goes through the constructor too
                return call_impl(lambda: Line(r, a).project(pts).tolist())

            if k.startswith("proj_single"):
                p, r, a = np.array(c["p"]), np.array(c["ref"]), np.array(c["a"])
                keep = [x.copy() for x in (p, r, a)]
                o = {"fn": project_point_to_line(p, r, a).tolist(), "meth": line_form(r, a, p)}
                o["args_unchanged"] = all(np.array_equal(x, y) for x, y in zip(keep, (p, r, a)))
                return o
            if k.startswith("proj_stack"):
                ps, r, a = _arr(c["ps"]), np.array(c["ref"]), np.array(c["a"])
                keep = [x.copy() for x in (ps, r, a)]
                o = {"fn": project_point_to_line(ps, r, a).tolist(), "meth": line_form(r, a, ps)}
                o["args_unchanged"] = all(np.array_equal(x, y) for x, y in zip(keep, (ps, r, a)))
                return o
            if k.startswith("proj_pairs"):
                ps, rs, al = _arr(c["ps"]), _arr(c["refs"]), _arr(c["alongs"])
                keep = [x.copy() for x in (ps, rs, al)]
                o = {"rows": project_point_to_line(ps, rs, al).tolist(),
                     "single": [project_point_to_line(ps[i], rs[i], al[i]).tolist() for i in range(len(ps))]}
                o["args_unchanged"] = all(np.array_equal(x, y) for x, y in zip(keep, (ps, rs, al)))
                return o
            if k == "line_ctor":
                # the model's line_ctor has no assume_normalized parameter (the constructor ignores the flag):
                # observe the flagged call form too, so that a constructor that starts to depend on it is seen
                def flagged():
                    l2 = Line(np.array(c["point"]), np.array(c["along"]), assume_normalized=True)
                    return {"refs": [x.tolist() for x in l2.reference_points]}
                ft = call_impl(flagged)
                ft.pop("msg", None)

                def plain():
                    ln = Line(np.array(c["point"]), np.array(c["along"]))
                    return {"refs": [x.tolist() for x in ln.reference_points]}
                o = call_impl(plain)
                o["flag_true"] = ft
                return o
            if k == "line_from_points":
                ln = Line.from_points(np.array(c["p1"]), np.array(c["p2"]))
                return {"refs": [x.tolist() for x in ln.reference_points]}
            dt = np.int64 if c.get("int") else np.float64
            pts = [np.array(c[n], dtype=dt) for n in ("p0", "q0", "p1", "q1")]
            keep = [x.copy() for x in pts]
            if k.startswith("isect3"):
                o = {"fn": _row(intersect_lines(*pts)),
                     "meth": _row(Line.from_points(pts[0], pts[1]).intersect_line(Line.from_points(pts[2], pts[3])))}
            else:
                o = {"fn": _row(intersect_2d_lines(*pts))}
            o["args_unchanged"] = all(np.array_equal(x, y) for x, y in zip(keep, pts))
            return o

    return call_impl(go)


def _rows(rs):
    return coq_list("[]" if r is None else flv(r) for r in rs)


def _r(r):
    return "[]" if r is None else flv(r)


NANROW = [float("nan")] * 3


def coq_case(c, o):
    t = _coq_case(c, o)
    if c.get("far") and not c["kind"].startswith("isect2") and not (isinstance(o, dict) and "raise" in o):
        return "CFar %s (%s)" % (q(_ptol(c)), t)     # positions compared with the absolute far-offset tolerance
    return t


def _coq_case(c, o):
    k = c["kind"]
    if k in ("line_ctor", "line_from_points"):
        obs = "(Raise %s)" % o["raise"] if "raise" in o else "(Ok %s)" % _rows(o["refs"])
        if k == "line_ctor":
            return "CLineCtor %s %s %s" % (qv(c["point"]), qv(c["along"]), obs)
        return "CFromPoints %s %s %s" % (qv(c["p1"]), qv(c["p2"]), obs)
    if isinstance(o, dict) and "raise" in o:
        return "CIsect2 (0, 0) (0, 0) (0, 0) (0, 0) [FNan]"      # unexpected exception: make the case fail in Coq
    if k == "isect3_generic_float" or k.startswith("sweep"):
        return "CSkip"
    if k.startswith("proj_single"):
        m = o["meth"]
        meth = "(Raise %s)" % m["raise"] if isinstance(m, dict) else "(Ok %s)" % flv(m)
        return "CProj %s %s %s %s %s" % (qv(c["p"]), qv(c["ref"]), qv(c["a"]), flv(o["fn"]), meth)
    if k.startswith("proj_stack"):
        m = o["meth"]
        meth = "(Raise %s)" % m["raise"] if isinstance(m, dict) else "(Ok %s)" % _rows(m)
        return "CProjStack %s %s %s %s %s" % (coq_list(qv(p) for p in c["ps"]), qv(c["ref"]), qv(c["a"]), _rows(o["fn"]), meth)
    if k.startswith("proj_pairs"):
        return "CProjPairs %s %s %s %s" % (coq_list(qv(p) for p in c["ps"]), coq_list(qv(p) for p in c["refs"]),
                                           coq_list(qv(p) for p in c["alongs"]), _rows(o["rows"]))
    if k.startswith("isect3"):
        return "CIsect %s %s %s %s %s %s" % (qv(c["p0"]), qv(c["q0"]), qv(c["p1"]), qv(c["q1"]), _r(o["fn"]), _r(o["meth"]))
    return "CIsect2 (%s, %s) (%s, %s) (%s, %s) (%s, %s) %s" % (
        q(c["p0"][0]), q(c["p0"][1]), q(c["q0"][0]), q(c["q0"][1]), q(c["p1"][0]), q(c["p1"][1]),
        q(c["q1"][0]), q(c["q1"][1]), _r(o["fn"]))


# ---------------------------------------------------------------------------------------------------------
def _F(v):
    return [Fr(float(x)) for x in v]


def _dot(a, b):
    return sum(x * y for x, y in zip(a, b))


def _sub(a, b):
    return [x - y for x, y in zip(a, b)]


def _cross(a, b):
    return [a[1] * b[2] - a[2] * b[1], a[2] * b[0] - a[0] * b[2], a[0] * b[1] - a[1] * b[0]]


def _finite(row):
    return row is not None and all(e == e and abs(e) != float("inf") for e in row)


def _near(row, x, mag):
    if not _finite(row) or len(row) != len(x):
        return False
    if isinstance(mag, tuple):      # ("abs", tolerance): far-offset cases are judged feature-relative, see _ptol
        return all(abs(Fr(float(e)) - y) <= mag[1] + Fr(3, 4) * max(abs(Fr(float(e))), abs(y)) / 2 ** 51 for e, y in zip(row, x))
    return all(abs(Fr(float(e)) - y) <= Fr(1, 10 ** 8) * max(mag, abs(y)) for e, y in zip(row, x))


def _off_line(x, p, d, mag):
    """squared distance of x from the line p + s d exceeds (1e-7 * magnitude)^2 ? (exact arithmetic)"""
    w = _sub(x, p)
    dd = _dot(d, d)
    wd = _dot(w, d)
    dist2 = _dot(w, w) - wd * wd / dd
    tol = (2 * mag[1] + 3 * max(abs(e) for e in x) / 2 ** 51) if isinstance(mag, tuple) else Fr(1, 10 ** 7) * max([mag] + [abs(e) for e in x])
    return dist2 > tol * tol


def _ptol(c):
    """feature-relative part of the position tolerance of a far-offset case: 1e-9 of the scene size (8). Each coordinate
    additionally gets 3/4 * 2^-51 of its own magnitude, i.e. 0.75..1.5 ulp (a correctly computed position carries half
    an ulp from its last addition); see close_abs in the K file"""
    return Fr(8, 10 ** 9)


def _project_oracle(p, r, a, row, what, far=None):
    p, r, a = _F(p), _F(r), _F(a)
    if all(e == 0 for e in a):
        return None        # zero direction: the property demands nothing of the function (Line refuses it)
    mag = max(abs(e) for e in p + r) or Fr(1)     # relative to the positions (no floor: tiny scales count too)
    if far is not None:
        mag = ("abs", far)
    s = _dot(_sub(p, r), a) / _dot(a, a)
    x = [ri + s * ai for ri, ai in zip(r, a)]
    if not _near(row, x, mag):
        return "%s returned %r; the closest point of the line is %r" % (what, row, [float(e) for e in x])
    return None


ATOL = 1e-8   # vg.almost_zero


def _extreme(a):
    """|direction| outside [1e-150, 1e150]: squaring a component overflows / underflows in binary64"""
    m = max(abs(e) for e in a)
    return m != 0 and not (1e-150 <= m <= 1e150)


def _line_raise(a, m):
    """judge a ValueError / acceptance of Line for direction a; m = observed (dict with "raise" or anything else)"""
    raised = isinstance(m, dict) and "raise" in m
    zero = all(e == 0 for e in a)
    if raised and m["raise"] != "ValueError":
        return ("other", "Line raised %s" % m["raise"])
    if zero and not raised:
        return ("other", "Line accepted a zero direction")
    if raised and not zero:
        # "direction vectors of any non-zero length": the refusal of a non-zero direction is a failure of the text;
        # it is the listed finding when every component is <= 1e-8
        tag = "tiny_line" if max(abs(e) for e in a) <= ATOL else "other"
        return (tag, "Line rejected the non-zero direction %r" % (a,))
    return None


def _failures(c, o):
    """every way the property text fails on this case: list of (class tag, message)"""
    k = c["kind"]
    out = []
    far = _ptol(c) if c.get("far") else None
    if k in ("line_ctor", "line_from_points"):
        along = c["along"] if k == "line_ctor" else [b - a for a, b in zip(c["p1"], c["p2"])]
        f = _line_raise(along, o)
        if f:
            return [f]
        if "flag_true" in o and o["flag_true"] != {kk: vv for kk, vv in o.items() if kk in ("raise", "refs")}:
            return [("other", "Line(point, along, assume_normalized=True) is accepted/rejected or built differently "
                     "from the default call form: %r" % (o["flag_true"],))]
        if "raise" in o:
            return []
        point = c["point"] if k == "line_ctor" else c["p1"]
        mg = max([abs(x) for x in point + along]) or 1
        if o["refs"][0] != point or not _near(o["refs"][1], [Fr(a) + Fr(b) for a, b in zip(point, along)], Fr(mg)):
            out.append(("other", "reference_points are not (point, point + along)"))
        return out
    if isinstance(o, dict) and "raise" in o:
        return [("other", "unexpected exception %s: %s" % (o["raise"], o.get("msg")))]
    if k.startswith("sweep"):
        if o["pairs"] == 0 or (o["exhaustive"] and o["pairs"] != o["all_pairs"]):
            return [("other", "lattice sweep %s visited %d of %d pairs" % (o["box"], o["pairs"], o["all_pairs"]))]
        if not o["failing_pairs"]:
            return []
        f = o["failures"][0]
        name = "intersect_lines" if c["dim"] == 3 else "intersect_2d_lines"
        return [("other", "lattice sweep %s: %d of %d pairs fail; first: %s(%r, %r, %r, %r) -> %r: %s%s" % (
            o["box"], o["failing_pairs"], o["pairs"], name, f["p0"], f["q0"], f["p1"], f["q1"], f["returned"], f["what"],
            "" if f["expected"] is None else " (common point %r)" % (f["expected"],)))]
    if not o["args_unchanged"]:
        return [("other", "an argument array was modified")]
    if k.startswith("proj_single") or k.startswith("proj_stack"):
        a = c["a"]
        m = o["meth"]
        raised = isinstance(m, dict)
        f = _line_raise(a, m)
        if f:
            out.append(f)
        single = k.startswith("proj_single")
        pts = [c["p"]] if single else c["ps"]
        fn = [o["fn"]] if single else o["fn"]
        me = None if raised else ([m] if single else m)
        if len(fn) != len(pts) or (me is not None and len(me) != len(pts)):
            return [("other", "wrong number of rows")]
        tag = "overflow" if _extreme(a) else "other"
        for i, p in enumerate(pts):
            f = _project_oracle(p, c["ref"], a, fn[i], "project_point_to_line row %d" % i, far)
            if f:
                out.insert(0, (tag, f))
            if me is not None:
                f = _project_oracle(p, c["ref"], a, me[i], "Line.project row %d" % i, far)
                if f:
                    out.insert(0, (tag, f))
        return out
    if k.startswith("proj_pairs"):
        if len(o["rows"]) != len(c["ps"]):
            return [("other", "wrong number of rows")]
        for i, p in enumerate(c["ps"]):
            tag = "overflow" if _extreme(c["alongs"][i]) else "other"
            for rows, what in ((o["rows"], "paired"), (o["single"], "single")):
                f = _project_oracle(p, c["refs"][i], c["alongs"][i], rows[i], "project_point_to_line (%s) row %d" % (what, i), far)
                if f:
                    out.append((tag, f))
        return out
    f = _isect_oracle(c, o)
    return [("other", f)] if f else []


def oracle(c, o):
    """The property text evaluated on the implementation's outputs with exact rational arithmetic."""
    fs = _failures(c, o)
    return fs[0][1] if fs else None


# the overflow class (|direction| outside [1e-150, 1e150]) was repaired in /repo commit 36e7d06: no longer a listed finding,
# a failure there is a violation
KNOWN = {"tiny_line": "line_rejects_tiny_nonzero_direction"}


def classify(c, o, failure, disagrees):
    """a listed finding only when EVERY failure of the case belongs to a listed class (site + input class):
    Line(...) raising ValueError for a non-zero direction with all components <= 1e-8"""
    if disagrees:
        return None      # a model / implementation disagreement is never a known finding (the model mirrors listed ones)
    fs = _failures(c, o)
    if not fs or any(t not in KNOWN for t, _ in fs):
        return None
    return KNOWN[fs[0][0]]


def _isect_oracle(c, o):
    k = c["kind"]
    p0, q0, p1, q1 = (_F(c[n]) for n in ("p0", "q0", "p1", "q1"))
    mag = max(abs(e) for e in p0 + q0 + p1 + q1)   # non-zero: p0 != q0
    if c.get("far") and k.startswith("isect3"):
        mag = ("abs", _ptol(c))
    if k.startswith("isect3"):
        e, f, g = _sub(p0, q0), _sub(p1, q1), _sub(p0, p1)
        kk, h = _cross(f, e), _cross(f, g)
        for name in ("fn", "meth"):
            res = o[name]
            what = "intersect_lines" if name == "fn" else "Line.intersect_line"
            if res is not None:
                if not _finite(res):
                    return "%s returned %r" % (what, res)
                x = _F(res)
                if _off_line(x, p0, e, mag) or _off_line(x, p1, f, mag):
                    return "%s returned %r, which is not on both lines" % (what, res)
            if k == "isect3_generic_float":
                continue     # arbitrary doubles: only the lies-on-both-lines clause applies
            if any(kk):
                if _dot(g, kk) == 0:
                    lam = _dot(h, kk) / _dot(kk, kk)
                    m = [a - lam * b for a, b in zip(p0, e)]
                    if res is None:
                        return "%s returned None; the lines meet in exactly one point %r" % (what, [float(y) for y in m])
                    if not _near(res, m, mag):
                        return "%s returned %r; the common point is %r" % (what, res, [float(y) for y in m])
                elif res is not None:
                    return "%s returned %r for skew lines" % (what, res)
            elif any(h) and res is not None:
                return "%s returned %r for parallel distinct lines" % (what, res)
        return None
    # 2-D
    d0, d1 = _sub(q0, p0), _sub(q1, p1)
    det = d0[0] * d1[1] - d0[1] * d1[0]
    res = o["fn"]
    if res is not None:
        if not _finite(res):
            return "intersect_2d_lines returned %r" % (res,)
        x = _F(res)
        for p, d in ((p0, d0), (p1, d1)):
            w = _sub(x, p)
            crossv = w[0] * d[1] - w[1] * d[0]
            tol = Fr(1, 10 ** 7) * max([mag] + [abs(e) for e in x])
            if crossv * crossv > tol * tol * _dot(d, d):
                return "intersect_2d_lines returned %r, which is not on both lines" % (res,)
    if det != 0:
        t = ((p1[0] - p0[0]) * d1[1] - (p1[1] - p0[1]) * d1[0]) / det
        m = [p0[0] + t * d0[0], p0[1] + t * d0[1]]
        if res is None:
            return "intersect_2d_lines returned None; the lines meet in %r" % ([float(y) for y in m],)
        if not _near(res, m, mag):
            return "intersect_2d_lines returned %r; the common point is %r" % (res, [float(y) for y in m])
    else:
        w = _sub(p1, p0)
        distinct = w[0] * d0[1] - w[1] * d0[0] != 0
        if distinct and res is not None:
            return "intersect_2d_lines returned %r for parallel distinct lines" % (res,)
    return None

# added with seeded rounds 6-7 (DESIGN 8.6)
RULE = RULE + '; every Line constructor case is also observed with assume_normalized=True and must behave as the default form'
