"""C01 — mesh slicing returns exactly the part of the surface in front of the plane."""
import itertools

import numpy as np

from common import Kernel
from props import slicing_shared as S
from props.slicing_shared import ASSUMPTIONS, CASE_IMPORTS, TRUSTED  # noqa: F401

ID = "C01"
N_CASES = {"quick": 260, "thorough": 6000, "search": 3000}
SHARD = 60
EXTRA_TARGETS = ["proofs/P_slicing_tie.vo"]  # imported by the generated tie lemmas only
RULE = ("54 single-face sweeps (all 27 front/on/behind corner patterns x selected/unselected, random rotation of the "
        "corner order, dyadic oblique planes) + seeded random meshes: 0-12 vertices on a half-integer grid times a "
        "power of two, 0-12 faces incl. degenerate and repeated ones, axis / dyadic / rounded-unit normals, ~30% of "
        "vertices exactly on the plane, vertices inside and outside the 1e-8 band (never within 1e-12 of it), masks, "
        "both ret_face_mapping, int32 faces, empty inputs, out-of-range indices; non-trivial = the call returned; "
        "distinct by hash of inputs")


# ---- traced kernels ---------------------------------------------------------------------------------------------
from props.slicing_kernels import kernels  # noqa: E402,F401


# ---- cases --------------------------------------------------------------------------------------------------------
def pattern_cases(rng):
    out = []
    for pat in itertools.product([-1, 0, 1], repeat=3):
        for sel in (True, False):
            ref, n, tang, _ = S.gen_plane(rng, "dyadic")
            vs = []
            for s in pat:
                a, b = rng.randint(-4, 4) / 2, rng.randint(-4, 4) / 2
                k = -s * rng.choice([0.5, 1.0, 2.0])  # code convention: -1 = in front
                vs.append([ref[j] + a * tang[0][j] + b * tang[1][j] + k * n[j] for j in range(3)])
            extra = [[S._grid(rng) for _ in range(3)]]  # an unreferenced vertex
            order = rng.choice([[0, 1, 2], [1, 2, 0], [2, 0, 1]])
            out.append({"kind": "pattern", "vertices": vs + extra, "faces": [order], "ref": ref, "normal": n,
                        "mask": [sel] if (not sel or rng.random() < 0.5) else None, "ret_face_mapping": rng.random() < 0.5,
                        "int32": False, "has_near": False, "inexact": False})
    return out


NEAR_BAND = {"kind": "near_band", "vertices": [[0.0, 0.0, 1.1e-8], [1.0, 0.0, 0.9e-8], [0.0, 1.0, -1.0]],
             "faces": [[0, 1, 2]], "ref": [0.0, 0.0, 0.0], "normal": [0.0, 0.0, 1.0], "mask": None,
             "ret_face_mapping": True, "int32": False, "has_near": True, "inexact": False}


def gen_cases(rng, n, tier):
    cases = pattern_cases(rng) + [dict(NEAR_BAND)]  # the near-band example (fixed by fixes/C01-snap-on-plane-distances.diff), always exercised
    while len(cases) < n:
        c = S.gen_mesh_case(rng, tier, "geom")
        if not c["vertices"]:
            c["int32"] = False  # zero vertices with an int32 face array is C02's dtype clause (fixes/C02-empty-int32-faces.diff)
        cases.append(c)
    for c in cases:
        c["kind"] = S.histogram_kind(c)
    return cases


def run_impl(c):
    return S.run_slice(c)


def coq_case(c, o):
    return S.coq_slice_case(c, o)


in_domain = S.in_domain


def oracle(c, o):
    """The property text on the implementation's own output, exact rational arithmetic."""
    if not in_domain(c):
        return None
    main, full = o["main"], o["full"]
    for r in (main, full):
        if "malformed" in r:
            return r["malformed"]
        if "raise" in r:
            return "unexpected exception %s: %s" % (r["raise"], r.get("msg"))
    if not o["args_unchanged"]:
        return "an argument array was modified"
    if main["v"] != full["v"] or main["f"] != full["f"]:
        return "result depends on ret_face_mapping"
    return S.geometry_failure(c, full)


def classify(c, o, failure, disagrees):
    if c.get("kind") == "unique_bincount":
        return None
    return S.negative_index_class(c, o, failure, disagrees)
