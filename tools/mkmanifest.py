#!/usr/bin/env python3
"""Regenerate MANIFEST.json: claimed = properties that have props/<ID>.v, corr/K_<ID>.v and tools/props/<ID>.py and are
listed in CLAIMED below (kept explicit so that work in progress is never claimed by accident)."""
import json, os, sys
V = os.path.dirname(os.path.dirname(os.path.abspath(__file__)))
CLAIMED = sys.argv[1:]
props = [json.loads(l) for l in open(os.path.join(V, "properties.jsonl"))]
NOTE = {
 "C20": "PARTIAL: proof covers the shape-strictness clause (generic shape-check model theorems; contracts re-extracted from the source on every run; 'accepted iff a documented form' proved for ALL shapes for 58 of the 88 array-taking callables, for 20 delegating ones for all shapes in contract terms only, over a finite shape universe for 8, 2 exempt); the stacked=row-by-row clause is proved per function in the other properties and validated here over the whole API; purity/determinism are validated only (a Gallina function cannot mutate its argument).",
 "C10": "Properness, axis, perpendicular turn, round trips (generic + half-turn), norm bound, Jacobian = derivative (all 27 entries, Coquelicot), Jacobian composition and dispatch are proved; the zero-zone snapping bound and the derivative at r = 0 are proved; PARTIAL: the 2.5e-5 bound in the half-turn zone (paper bound 4e-5 for the repaired code, not mechanised) and the derivative for 0 < |r| < eps are sampled by the oracle only; SVD/acos/cos/sin are trusted through stated contracts.",
 "C09": "Refinement of every listed operation (incl. the sort-based insertion and both index maps, for all sizes) and of every finite history to the list-of-points spec is proved; PARTIAL only in that immutability/aliasing (not a Gallina notion) is validated by the harness, not proved.",
 "C07": "Nearest/closest-point clauses proved for all inputs; the sub-path clauses (sliced_at_points open, closed, wrap-around incl. the closing edge; aligned_along_subsegment post-conditions, open and closed) are proved about the ORIGINAL polyline under an explicit uniqueness hypothesis that formalises 'does not touch itself', each with a non-vacuity example; PARTIAL only for `every requested output is returned`: known finding (ret_t_values alone drops t) pinned by the test-suite.",
 "C11": "All clauses proved; the compose clause is proved for lists in which all matrices but the last are affine and REFUTED (known finding) for non-affine ones, where the code drops w without dividing.",
 "C04": "All conversion clauses proved over all histories; known finding: tag names that collide with class attributes bypass the attribute protocol.",
 "C01": "Per-face soundness, cover, orientation, area fraction, case rules and the mesh-level per-face decomposition are proved for the repaired kernel (distances snapped to the plane within the tolerance); known finding: negative (wrap-around) face indices.",
 "C02": "Index validity, no orphans, provenance, idempotence (incl. masks), per-face complement, order/numbering invariance and empties are proved; dtypes are validated by correspondence only.",
 "C08": "Arc-length (walk spec incl. f=0, f=1, Lipschitz continuity), subdivision (minimal parts, even spacing, indices, length preserved, closedness), bisection and segment partition clauses are all proved; one known finding (subdivide_segments on a zero-length segment gives NaN rows).",
 "C19": "Round trips, rounding error, success of rounded/serialize for every unit normal and every precision, and validator soundness are proved; the json text round trip and the jsonschema library are trusted.",
 "C17": "Tightness, accessors, planes, contains, extent and percentile (linear interpolation for every q) proved for all inputs; PARTIAL only in that the 'few units of rounding at the maximum faces' clause is an IEEE-754 clause sampled by the oracle.",
}
checks = []
for p in props:
    pid = p["id"]
    if pid not in CLAIMED:
        continue
    for f in ("coq/props/%s.v", "coq/corr/K_%s.v", "tools/props/%s.py"):
        assert os.path.exists(os.path.join(V, f % pid)), f % pid
    text = ("Coq theorems (coq/props/%s.v, each closed by `exact`) over the exact-real instance of a Gallina model of the anchored code, "
            "for all inputs / lists / histories the property quantifies over. The model is tied to /repo on every run: (T) the real "
            "functions are re-traced symbolically and `traced = model` lemmas are re-proved by coqc, (C) the same model is evaluated on "
            "exact rationals inside Coq (vm_compute) against the implementation's outputs on generated cases, and the property text is "
            "re-evaluated on the implementation as a search oracle. " % pid) + NOTE.get(pid, "")
    checks.append({
        "property_id": pid, "quick_cmd": "./check.sh %s quick" % pid, "thorough_cmd": "./check.sh %s thorough" % pid,
        "evidence_file": "evidence/%s.json" % pid, "replay_cmd_template": "./check.sh %s --replay {path}" % pid,
        "engine": "coq-proof",
        "level_claimed": {"category": "proof", "text": text, "design_ref": "DESIGN.md section 4 (%s) and section 8 (as built)" % pid},
        "level_note": ("Trusted: Coq 8.16.1 kernel + vm_compute (no native_compute); stdlib axioms reported by Print Assumptions: "
                       "ClassicalDedekindReals.sig_forall_dec, sig_not_dec, FunctionalExtensionality.functional_extensionality_dep, "
                       "Classical_Prop.classic (all from Coq's Reals); tools/symtrace.py tracing translator + numpy shim; the "
                       "agreement relation of coq/Agree.v (relative tolerance 1e-9 w.r.t. input magnitude); NumPy/vg/LAPACK/libm. "
                       "Theorems are about exact real arithmetic, not IEEE-754 rounding; the code is modelled, not verified directly."),
        "technique": "machine-checked Coq proof over a Gallina model; tie = re-proved traced-kernel lemmas + Q-evaluated correspondence"})
m = {"version": 1, "setup_cmd": "./setup.sh",
     "hooks": {"guard": "POLLIWOG_VERIF", "enable": "no source hooks are needed: the tracer patches module globals at run time only",
               "baseline_off_cmd": "cd /repo && /venv/bin/python -m pytest -ra -q -p no:cacheprovider --timeout=900 --continue-on-collection-errors",
               "source_commits": [], "add_only": True},
     "engines": [{"name": "coq-proof", "path": "coq/", "serves_properties": sorted(CLAIMED),
                  "kind_free_text": "Coq 8.16.1 development (models, proofs, property statements) + Python driver (tracing translator, correspondence, oracles)"}],
     "checks": checks,
     "notes": "See DESIGN.md. Properties listed under not_applicable with reason 'not built yet' are in progress, not outside the technique.",
     "not_applicable": [{"property_id": p["id"], "reason": "not built yet (planned: see DESIGN.md section 4)"} for p in props if p["id"] not in CLAIMED]}
json.dump(m, open(os.path.join(V, "MANIFEST.json"), "w"), indent=1)
print("claimed:", " ".join(c["property_id"] for c in checks))
