#!/venv/bin/python
"""Run our check against a BEHAVIOUR-PRESERVING rewrite (false-alarm test), in a scratch copy (never in /repo).
usage: tools/benigntest.py <PROP_ID> <src_dir with patch.diff meta.json [equiv.py]> <name> [check ids...]
Copies the rewrite to /verif/benign/<name>/, then in a scratch clone of /repo: apply -> pytest pass count ->
./check.sh <id> quick with POLLIWOG_REPO pointing at the patched clone.  The expected outcome is exit 0 and no VIOLATION
line; anything else is recorded as a false alarm (or, if the rewrite turns out not to be harmless, as such)."""
import json, os, re, shutil, subprocess, sys, tempfile

pid, src, name = sys.argv[1:4]
checks = sys.argv[4:] or [pid]
V = os.path.dirname(os.path.dirname(os.path.abspath(__file__)))
dst = os.path.join(V, "benign", name)
os.makedirs(dst, exist_ok=True)
for fn in ("patch.diff", "equiv.py", "meta.json"):
    if os.path.exists(os.path.join(src, fn)) and os.path.abspath(src) != os.path.abspath(dst):
        shutil.copy(os.path.join(src, fn), os.path.join(dst, fn))
meta = json.load(open(os.path.join(dst, "meta.json")))
tmp = tempfile.mkdtemp(prefix="benigntest-")
repo = os.path.join(tmp, "repo")
try:
    subprocess.run(["git", "clone", "-q", "/repo", repo], check=True)
    env = dict(os.environ, PYTHONPATH=repo, PYTHONDONTWRITEBYTECODE="1")
    subprocess.run(["git", "-C", repo, "apply", os.path.join(dst, "patch.diff")], check=True)
    t = subprocess.run(["/venv/bin/python", "-m", "pytest", "-q", "-p", "no:cacheprovider", "--timeout=900"], cwd=repo,
                       capture_output=True, text=True, env=env)
    tail = t.stdout.strip().split("\n")[-1]
    res, saved = {}, {}
    for c in checks:
        ev = os.path.join(V, "evidence", c + ".json")
        saved[c] = open(ev).read() if os.path.exists(ev) else None
    for c in checks:
        p = subprocess.run(["./check.sh", c, "quick"], cwd=V, env=dict(os.environ, POLLIWOG_REPO=repo), capture_output=True, text=True)
        vio = [l for l in p.stdout.split("\n") if l.startswith("VIOLATION")]
        fails = [l[:400] for l in p.stdout.split("\n") if l.startswith("FAILS") or l.startswith("BROKEN")][:4]
        res[c] = {"exit": p.returncode, "violation_line": vio[0] if vio else None, "detail": fails,
                  "last_line": p.stdout.strip().split("\n")[-1][:300]}
    for c, txt in saved.items():
        if txt is not None:
            open(os.path.join(V, "evidence", c + ".json"), "w").write(txt)
    meta["confirmed"] = {"pytest_tail": tail, "scratch": "git clone of /repo under $TMPDIR, removed afterwards"}
    meta["our_checks"] = res
    json.dump(meta, open(os.path.join(dst, "meta.json"), "w"), indent=1)
    print(name, "|", tail)
    for c, r in res.items():
        print("  check", c, "exit", r["exit"], r["violation_line"] or r["last_line"])
        for d in r["detail"]:
            print("     ", d[:300])
finally:
    shutil.rmtree(tmp, ignore_errors=True)
