#!/venv/bin/python
"""check driver: ./check.sh <ID> quick|thorough   |   ./check.sh <ID> --replay <file>

Steps (DESIGN.md 2.5): regenerate traced kernels from /repo's working tree, compile their tie lemmas,
re-check the property theorems, run the correspondence shards (model on Q inside Coq vs implementation),
run the property oracles on the implementation, decide, write evidence.
"""
import concurrent.futures as cf
import hashlib
import importlib
import json
import os
import random
import re
import shutil
import subprocess
import sys
import time
import traceback

VERIF = os.path.dirname(os.path.dirname(os.path.abspath(__file__)))
REPO = os.environ.get("POLLIWOG_REPO", "/repo")
sys.path.insert(0, os.path.join(VERIF, "tools"))
sys.path.insert(0, REPO)
os.environ.setdefault("PYTHONHASHSEED", "0")

import numpy as np  # noqa: E402

import symtrace  # noqa: E402
from common import Kernel, fhex, known_findings, to_jsonable  # noqa: E402

COQ = os.path.join(VERIF, "coq")
FORBIDDEN = re.compile(
    r"\b(Admitted|admit|Axiom|Axioms|Parameter|Parameters|Conjecture|Conjectures|Hypothesis|Hypotheses|Variable|Variables)\b"
    r"|Unset\s+Guard|bypass_check|type-in-type|impredicative-set|Admit\s+Obligations|Unset\s+Universe\s+Checking|Unset\s+Positivity"
    r"|\bDeclare\s+(?:Instance|Module)\b|^\s*Load\s|\bPrimitive\b|\bRegister\b"
)
ALLOWED_AXIOMS = {
    "ClassicalDedekindReals.sig_forall_dec",
    "ClassicalDedekindReals.sig_not_dec",
    "FunctionalExtensionality.functional_extensionality_dep",
    "Classical_Prop.classic",
}
# further axioms declared by Coq's own standard library; a property module may opt in to some of them by naming
# them in EXTRA_AXIOMS (they must then also be named in its TRUSTED list); nothing outside this set is ever accepted
STDLIB_AXIOMS = {
    "ClassicalEpsilon.constructive_indefinite_description",
    "ClassicalUniqueChoice.dependent_unique_choice",
    "ProofIrrelevance.proof_irrelevance",
    "PropExtensionality.propositional_extensionality",
    "Eqdep.Eq_rect_eq.eq_rect_eq",
    "JMeq.JMeq_eq",
    "FunctionalExtensionality.functional_extensionality_dep",
    "ChoiceFacts.FunctionalRelReification_on",
}
NJOBS = int(os.environ.get("VERIF_JOBS", "12"))


def sh(cmd, timeout, cwd=VERIF):
    t0 = time.time()
    try:
        p = subprocess.run(cmd, cwd=cwd, stdout=subprocess.PIPE, stderr=subprocess.STDOUT, timeout=timeout, text=True)
        return p.returncode, p.stdout, time.time() - t0
    except subprocess.TimeoutExpired as e:
        out = e.stdout if isinstance(e.stdout, str) else (e.stdout or b"").decode("utf8", "replace")
        return 124, (out or "") + "\n[timeout after %ss]" % timeout, time.time() - t0


def coqc(path, bdir, timeout=300):
    return sh(["timeout", str(timeout + 5), "coqc", "-w", "-all", "-Q", COQ, "PW", "-Q", bdir, "Gen", path], timeout + 10)


def ensure_library(targets):
    """Rebuild whatever is stale among the library files this property needs (they do not depend on /repo)."""
    rc, out, _ = sh(["flock", os.path.join(COQ, ".lock"), "bash", os.path.join(VERIF, "setup.sh"), "--targets",
                     " ".join(targets)], 3000)
    return rc, out


def dep_closure(roots):
    """.v files of coq/ reachable from the given files through `From PW... Require Import` lines."""
    seen, stack = set(), list(roots)
    while stack:
        p = stack.pop()
        if p in seen or not os.path.exists(p):
            continue
        seen.add(p)
        txt = open(p, errors="replace").read()
        for m in re.finditer(r"From\s+(PW[\w.]*)\s+Require\s+(?:Import|Export)\s+([^.]*)\.", txt):
            base = m.group(1).split(".")[1:]
            for name in m.group(2).split():
                parts = base + name.split(".")
                stack.append(os.path.join(COQ, *parts) + ".v")
    return seen


# ------------------------------------------------------------------------------------------------
def trace_kernel(k):
    """Run the real code on symbolic arrays; returns (coq_text, info). Raises on any tracer failure."""
    t = symtrace.Tracer()
    arrays = {n: symtrace.sym_array(t, n, v) for n, v in k.inputs.items()}
    with symtrace.patched_numpy(t):
        res = k.call(**arrays)
    structure, exprs = symtrace.flatten_result(t, res)
    if k.expect_structure is not None:
        got = strip_exprs(structure)
        if got != k.expect_structure:
            raise symtrace.TraceError("structure of %s changed: %r (expected %r)" % (k.name, got, k.expect_structure))
    # validate the object-dtype run against a float64 run on perturbed concrete inputs; when no perturbed input stays on
    # the traced path (scenarios with exact zeros, unit normals ...) validate once at the scenario point itself
    validated, skipped = 0, {"off_path": 0, "float_run_raised": 0}
    rng = random.Random(12345)
    attempts = [k.perturb] * k.validate_n
    for att, perturb in enumerate(attempts + [0.0]):
        if att == len(attempts) and (validated > 0 or k.validate_n == 0):
            break
        env, farrays = {}, {}
        for n, v in k.inputs.items():
            a = np.array(v, dtype=np.float64)
            pert = a + np.array([rng.uniform(-1, 1) * perturb for _ in range(a.size)]).reshape(a.shape) * (1 + np.abs(a))
            farrays[n] = pert
            for j, x in enumerate(pert.reshape(-1)):
                env["%s%d" % (n, j)] = float(x)
        if not symtrace.path_holds_float(t, env):
            skipped["off_path"] += 1
            continue
        try:
            fres = k.call(**farrays)
        except Exception:
            skipped["float_run_raised"] += 1
            continue
        fstruct, fvals = flatten_floats(fres)
        mine = symtrace.eval_float(t, [e.i for e in exprs], env)
        # compare the two results as trees of numbers: same nesting and shapes, every number equal up to rounding
        # (the symbolic run may hold a concrete integer where the float64 run holds a float: np.sign, literal tables)
        a_num, b_num = numeric_tree(structure, mine), numeric_tree(fstruct, fvals)
        why = tree_mismatch(a_num, b_num)
        if why:
            raise symtrace.TraceError("trace of %s: float64 run on the traced path differs from the object-dtype run: %s"
                                      % (k.name, why))
        validated += 1
    text = symtrace.emit_definition(t, k.tname, exprs)
    return text, {"vars": list(t.vars), "structure": structure, "validated": validated, "n_out": len(exprs),
                  "n_preds": len(set(t.preds)), "skipped": skipped}


def numeric_tree(struct, values):
    """replace {"e": k} / "e" leaves by numbers (values consumed in order for "e"), drop dtype tags"""
    it = iter(values)

    def go(x):
        if isinstance(x, dict):
            if "e" in x:
                return float(values[x["e"]])
            if "nan" in x:
                return "nan"
            return {k: go(v) for k, v in x.items() if k != "dtype"}
        if isinstance(x, list):
            return [go(v) for v in x]
        if x == "e":
            return float(next(it))
        if isinstance(x, bool):
            return float(x)
        if isinstance(x, (int, float)):
            return float(x)
        return x

    return go(struct)


def tree_mismatch(a, b, where="result"):
    if isinstance(a, dict) and isinstance(b, dict):
        if set(a) != set(b):
            return "%s: keys %s vs %s" % (where, sorted(a), sorted(b))
        for k in a:
            w = tree_mismatch(a[k], b[k], where + "." + k)
            if w:
                return w
        return None
    if isinstance(a, list) and isinstance(b, list):
        if len(a) != len(b):
            return "%s: length %d vs %d" % (where, len(a), len(b))
        for i, (x, y) in enumerate(zip(a, b)):
            w = tree_mismatch(x, y, "%s[%d]" % (where, i))
            if w:
                return w
        return None
    if isinstance(a, float) and isinstance(b, float):
        if abs(a - b) <= 1e-9 * (1 + abs(a) + abs(b)):
            return None
        return "%s: %r vs %r" % (where, a, b)
    if a == b:
        return None
    return "%s: %r vs %r" % (where, a, b)


def strip_exprs(s):
    if isinstance(s, dict):
        if "e" in s:
            return "e"
        return {k: strip_exprs(v) for k, v in s.items()}
    if isinstance(s, list):
        return [strip_exprs(x) for x in s]
    return s


def flatten_floats(res):
    vals = []

    def go(x):
        if x is None:
            return None
        if isinstance(x, (bool, np.bool_)):
            return bool(x)
        if isinstance(x, (int, np.integer)):
            return int(x)
        if isinstance(x, (float, np.floating)):
            if np.isnan(x):
                return {"nan": True}
            vals.append(float(x))
            return "e"
        if isinstance(x, np.ndarray):
            if x.dtype.kind == "f":
                return {"shape": list(x.shape), "data": [go(float(e)) for e in x.reshape(-1)]}
            return {"shape": list(x.shape), "dtype": str(x.dtype), "data": [go(e.item()) for e in x.reshape(-1)]}
        if isinstance(x, (tuple, list)):
            return {"tuple": [go(e) for e in x]}
        raise symtrace.TraceError("cannot flatten float result of type %s" % type(x))

    return go(res), vals


HEADER = """From Coq Require Import ZArith Reals List Bool Lra Psatz.
From PW Require Import Num NumR Vec Mat NpList Result TraceTac.
%s
Import ListNotations.
Local Open Scope R_scope.

"""


def write_traced(k, bdir):
    text, info = trace_kernel(k)
    vars_ = " ".join(info["vars"])
    lemma = k.lemma.replace("{T}", k.tname).replace("{vars}", vars_)
    imports = "\n".join("From %s Require Import %s." % (a, b) for a, b in k.imports)
    path = os.path.join(bdir, "Traced_%s.v" % k.name)
    with open(path, "w") as f:
        f.write(HEADER % imports)
        f.write(text)
        f.write("\n")
        f.write(lemma)
        f.write("\n")
    info["n_lemmas"] = len(re.findall(r"^\s*(Lemma|Theorem)\s", lemma, re.M))
    return path, info


# ------------------------------------------------------------------------------------------------
def parse_failing(out):
    m = re.search(r"=\s*\[(.*?)\]", out, re.S)
    if not m:
        return None
    body = m.group(1).strip()
    if not body:
        return []
    return [int(x) for x in re.findall(r"\d+", body)]


def case_hash(case):
    return hashlib.sha1(json.dumps(to_jsonable(case), sort_keys=True).encode()).hexdigest()[:12]


class Run:
    def __init__(self, pid, tier, seed):
        self.pid, self.tier, self.seed = pid, tier, seed
        self.mod = importlib.import_module("props." + pid)
        # one private build directory per run: concurrent runs of the same check must not wipe each other's files
        self.bdir = os.path.join(VERIF, "build", "%s.%d" % (pid, os.getpid()))
        self.broken = []  # (what, detail)  broken ties / proofs
        self.violations = []  # (case, failure, contradicts)
        self.known_hits = {}
        self.obligations = 0
        self.discharged = 0
        self.cov = {}
        self.t0 = time.time()

    # -- steps ---------------------------------------------------------------------------------
    def prepare(self):
        shutil.rmtree(self.bdir, ignore_errors=True)
        os.makedirs(self.bdir)
        targets = ["props/%s.vo" % self.pid, "corr/K_%s.vo" % self.pid] + list(getattr(self.mod, "EXTRA_TARGETS", []))
        rc, out = ensure_library(targets)
        if rc != 0:
            self.broken.append(("library", "hand-written Coq library does not build:\n" + out[-3000:]))

    def hygiene(self):
        bad = []
        files = dep_closure([os.path.join(COQ, "props", self.pid + ".v"), os.path.join(COQ, "corr", "K_%s.v" % self.pid)])
        files |= {os.path.join(self.bdir, fn) for fn in os.listdir(self.bdir) if fn.endswith(".v") and not fn.startswith("cases")}
        files |= dep_closure(list(files))
        for p in sorted(files):
            for ln_no, ln in enumerate(open(p, errors="replace"), 1):
                if FORBIDDEN.search(ln):
                    bad.append("%s:%d: %s" % (os.path.relpath(p, VERIF), ln_no, ln.strip()))
        self.obligations += 1
        if bad:
            self.broken.append(("hygiene", "forbidden declarations:\n" + "\n".join(bad[:20])))
        else:
            self.discharged += 1
        self.cov["hygiene_files_scanned"] = len(files)

    def traced(self):
        if hasattr(self.mod, "pre_build"):
            try:
                self.mod.pre_build(self.bdir)
            except Exception as e:  # extraction failure = broken tie (fail closed)
                self.obligations += 1
                self.broken.append(("extract", "pre_build failed: %s\n%s" % (e, traceback.format_exc()[-1500:])))
        kernels = self.mod.kernels() if hasattr(self.mod, "kernels") else []
        # the libraries the generated files import (tie tactics, models) are build targets too: they are not always
        # reachable from props/<ID>.vo or corr/K_<ID>.vo, and must not be left stale when a shared file changes
        imp = sorted({os.path.join(*(lib.split(".")[1:] + [name])) + ".vo" for k in kernels for lib, name in k.imports if lib.split(".")[0] == "PW"})
        if imp:
            rc, out = ensure_library(imp)
            if rc != 0:
                self.broken.append(("library", "a library imported by the traced kernels does not build:\n" + out[-3000:]))
        jobs, infos = [], {}
        for k in kernels:
            try:
                path, info = write_traced(k, self.bdir)
                infos[k.name] = info
                jobs.append((k, path))
                self.obligations += max(1, info["n_lemmas"])
            except Exception as e:  # tracer failure = broken tie (fail closed)
                self.obligations += 1
                self.broken.append(("trace:" + k.name, "tracing failed: %s\n%s" % (e, traceback.format_exc()[-1500:])))
        with cf.ThreadPoolExecutor(NJOBS) as ex:
            results = list(ex.map(lambda kp: coqc(kp[1], self.bdir, kp[0].timeout), jobs))
        for (k, path), (rc, out, dt) in zip(jobs, results):
            if rc == 0:
                self.discharged += max(1, infos[k.name]["n_lemmas"])
            else:
                self.broken.append(("tie:" + k.name, "Traced_%s.v no longer checks (model <> code):\n%s" % (k.name, out[-2000:])))
        self.cov["traced_kernels"] = len(kernels)
        self.cov["traces_validated_against_impl"] = sum(i["validated"] for i in infos.values())
        self.cov["traced_outputs"] = sum(i["n_out"] for i in infos.values())
        # honest accounting of the numeric re-validation: how many comparisons involved symbolic outputs, and which
        # kernels could not be re-validated at all (their tie rests on the coqc-checked lemma and the correspondence)
        self.cov["traces_validated_with_numeric_outputs"] = sum(i["validated"] for i in infos.values() if i["n_out"] > 0)
        self.cov["kernels_never_validated"] = sorted(n for n, i in infos.items() if i["validated"] == 0)
        self.kernel_infos = infos

    def props(self):
        src = os.path.join(COQ, "props", self.pid + ".v")
        dst = os.path.join(self.bdir, "Props_%s.v" % self.pid)
        shutil.copy(src, dst)
        rc, out, dt = coqc(dst, self.bdir, 900)
        text = open(src).read()
        thms = re.findall(r"^\s*(?:Theorem|Lemma)\s+(\w+)", text, re.M)
        self.obligations += len(thms)
        axioms = set()
        if rc != 0:
            self.broken.append(("props", "props/%s.v does not check:\n%s" % (self.pid, out[-3000:])))
        else:
            self.discharged += len(thms)
            # every entry of every `Print Assumptions` block counts, qualified or not: a name we do not know is an
            # assumption declared somewhere in the development (Axiom, Parameter, Declare Instance, top-level Context ...)
            blocks = 0
            in_block = False
            for ln in out.split("\n"):
                if ln.startswith("Axioms:"):
                    in_block, blocks = True, blocks + 1
                    continue
                if ln.startswith("Closed under the global context"):
                    in_block, blocks = False, blocks + 1
                    continue
                if in_block:
                    m = re.match(r"^([A-Za-z_][\w.']*)\s*(?::|$)", ln)
                    if m:
                        axioms.add(m.group(1))
                    elif ln and not ln[0].isspace():
                        in_block = False
            opt_in = set(getattr(self.mod, "EXTRA_AXIOMS", [])) & STDLIB_AXIOMS
            extra = axioms - ALLOWED_AXIOMS - opt_in
            self.obligations += 1
            all_def = re.search(r"Definition\s+%s_all\s*:=\s*\((.*?)\)\s*\." % self.pid, text, re.S)
            printed = re.search(r"Print\s+Assumptions\s+%s_all\s*\." % self.pid, text)
            missing = []
            if all_def:
                listed = set(re.findall(r"[A-Za-z_][\w']*", all_def.group(1)))
                missing = [t for t in thms if t not in listed]
            if extra:
                self.broken.append(("axioms", "unexpected assumptions: %s" % sorted(extra)))
            elif blocks == 0 or not printed or not all_def:
                self.broken.append(("axioms", "props/%s.v must define %s_all := (all theorems) and `Print Assumptions %s_all.`" % (self.pid, self.pid, self.pid)))
            elif missing:
                self.broken.append(("axioms", "theorems not covered by Print Assumptions %s_all: %s" % (self.pid, missing)))
            else:
                self.discharged += 1
        definitional = set(getattr(self.mod, "DEFINITIONAL", []))
        self.cov["theorems_checked"] = (rc == 0)
        self.cov["theorems"] = {
            "proved": [t for t in thms if not t.endswith("_refuted") and not t.endswith("_partial") and t not in definitional],
            "definitional": [t for t in thms if t in definitional],
            "partial": [t for t in thms if t.endswith("_partial")],
            "refuted": [t for t in thms if t.endswith("_refuted")],
        }
        self.cov["axioms_print_assumptions"] = sorted(axioms)

    def correspondence(self):
        n = self.mod.N_CASES[self.tier]
        rng = random.Random(self.seed * 7919 + 17)
        cases = []
        cdir = os.path.join(VERIF, "corpus", self.pid)
        if os.path.isdir(cdir):
            for fn in sorted(os.listdir(cdir)):
                if fn.endswith(".json"):
                    cases.append(json.load(open(os.path.join(cdir, fn))))
        n_corpus = len(cases)
        cases.extend(self.mod.gen_cases(rng, n, self.tier))
        self.run_cases(cases)
        self.cov["corpus_cases"] = n_corpus

    def run_cases(self, cases, label="cases"):
        mod = self.mod
        observed, hist, nontrivial = [], {}, set()
        for c in cases:
            obs = mod.run_impl(c)
            observed.append(obs)
            kind = c.get("kind", "?")
            hist[kind] = hist.get(kind, 0) + 1
            if not (isinstance(obs, dict) and "raise" in obs):
                nontrivial.add(case_hash(c))
        # oracle on every case
        oracle_fail = {}
        for i, (c, o) in enumerate(zip(cases, observed)):
            try:
                f = mod.oracle(c, o)
            except Exception as e:
                f = "oracle crashed: %r" % (e,)
            if f:
                oracle_fail[i] = f
        # model vs implementation inside Coq
        shard = getattr(mod, "SHARD", 100)
        files = []
        for s in range(0, len(cases), shard):
            terms = []
            for c, o in zip(cases[s:s + shard], observed[s:s + shard]):
                terms.append(mod.coq_case(c, o))
            path = os.path.join(self.bdir, "%s_%d.v" % (label, s // shard))
            with open(path, "w") as f:
                f.write("From Coq Require Import ZArith QArith List Bool String.\n")
                f.write("From PW Require Import Num NumQ Vec Mat Result Agree.\n")
                for a, b in getattr(mod, "CASE_IMPORTS", []):
                    f.write("From %s Require Import %s.\n" % (a, b))
                f.write("From PW.corr Require Import K_%s.\nImport ListNotations.\nLocal Open Scope Q_scope.\n" % self.pid)
                f.write("Definition cases : list case := [\n  " + ";\n  ".join(terms) + "\n].\n")
                f.write("Eval vm_compute in (failing check_case cases).\n")
            files.append((s, path))
        with cf.ThreadPoolExecutor(NJOBS) as ex:
            results = list(ex.map(lambda sp: coqc(sp[1], self.bdir, 1200), files))
        disagreements = []
        for (s, path), (rc, out, dt) in zip(files, results):
            self.obligations += 1
            fails = parse_failing(out) if rc == 0 else None
            if fails is None:
                self.broken.append(("corr-shard", "%s did not evaluate:\n%s" % (os.path.basename(path), out[-2000:])))
                continue
            self.discharged += 1
            disagreements.extend(s + i for i in fails)
        # decide per case
        for i in sorted(set(disagreements) | set(oracle_fail)):
            c, o = cases[i], observed[i]
            fail = oracle_fail.get(i)
            key = mod.classify(c, o, fail, i in disagreements) if hasattr(mod, "classify") else None
            if i in disagreements or not fail or str(fail).startswith("oracle crashed"):
                key = None  # only a property failure the model mirrors can be a listed finding
            if key and (self.pid, key) in known_findings():
                self.known_hits.setdefault(key, (c, o, fail))
                continue
            if fail:
                self.violations.append((c, o, fail, "oracle" + ("+model" if i in disagreements else "")))
            else:
                self.broken.append(("corr:%d" % i, {"case": to_jsonable(c), "observed": to_jsonable(o),
                                                     "note": "model and implementation disagree, oracle finds no property failure"}))
        self.cov["evaluations"] = self.cov.get("evaluations", 0) + len(cases)
        self.cov["distinct_nontrivial"] = self.cov.get("distinct_nontrivial", 0) + len(nontrivial)
        h = self.cov.setdefault("input_histogram", {})
        for k, v in hist.items():
            h[k] = h.get(k, 0) + v
        self.cov["model_impl_disagreements"] = self.cov.get("model_impl_disagreements", 0) + len(disagreements)
        if "samples" not in self.cov and cases:
            self.cov["samples"] = [{"case": to_jsonable(c), "observed": to_jsonable(o)} for c, o in list(zip(cases, observed))[:3]]

    def search(self):
        """A tie or proof broke without a concrete failing input yet: look for one (10x budget)."""
        if not hasattr(self.mod, "gen_cases"):
            return
        n = self.mod.N_CASES[self.tier] * 10
        rng = random.Random(self.seed * 104729 + 5)
        cases = self.mod.gen_cases(rng, n, "search")
        found = 0
        for c in cases:
            o = self.mod.run_impl(c)
            try:
                f = self.mod.oracle(c, o)
            except Exception as e:
                f = "oracle crashed: %r" % (e,)
            if f:
                key = self.mod.classify(c, o, f, False) if hasattr(self.mod, "classify") else None
                if key and (self.pid, key) in known_findings():
                    continue
                self.violations.append((c, o, f, "search"))
                found += 1
                if found >= 3:
                    break
        self.cov["search_cases"] = len(cases)

    # -- verdict ---------------------------------------------------------------------------------
    def finish(self):
        rdir = os.path.join(VERIF, "evidence", "replays")
        os.makedirs(rdir, exist_ok=True)
        lines = []
        head = subprocess.run(["git", "-C", REPO, "rev-parse", "HEAD"], stdout=subprocess.PIPE, text=True).stdout.strip()
        dirty = subprocess.run(["git", "-C", REPO, "status", "--porcelain"], stdout=subprocess.PIPE, text=True).stdout.split("\n")
        dirty = [d for d in dirty if d.strip()]
        for key, (c, o, f) in sorted(self.known_hits.items()):
            kf = known_findings()[(self.pid, key)]
            print("KNOWN-FINDING: property=%s %s: %s" % (self.pid, kf["site"], kf["what"]))
        if self.broken and not self.violations:
            try:
                self.search()
            except Exception as e:  # a crashing search must not hide the broken obligations
                self.broken.append(("search", "search for a failing input crashed: %r\n%s" % (e, traceback.format_exc()[-1200:])))
        exit_code = 0
        if self.violations:
            exit_code = 1
            c, o, f, how = self.violations[0]
            rp = os.path.join(rdir, "%s-%s.json" % (self.pid, case_hash(c)))
            json.dump({"property": self.pid, "kind": "counterexample", "case": to_jsonable(c), "observed": to_jsonable(o),
                       "failure": f, "found_by": how,
                       "broken_ties": [b[0] for b in self.broken], "seed": self.seed, "repo_head": head, "dirty_files": dirty},
                      open(rp, "w"), indent=1)
            lines.append("VIOLATION property=%s replay=%s" % (self.pid, os.path.relpath(rp, VERIF)))
        elif self.broken:
            exit_code = 1
            hsh = hashlib.sha1(json.dumps([str(b) for b in self.broken]).encode()).hexdigest()[:12]
            rp = os.path.join(rdir, "%s-unproved-%s.json" % (self.pid, hsh))
            json.dump({"property": self.pid, "kind": "unproved",
                       "broken": [{"what": b[0], "detail": b[1]} for b in self.broken],
                       "seed": self.seed, "repo_head": head, "dirty_files": dirty}, open(rp, "w"), indent=1)
            lines.append("VIOLATION property=%s replay=%s no-failing-input-found" % (self.pid, os.path.relpath(rp, VERIF)))
        for b in self.broken[:8]:
            print("BROKEN %s: %s" % (b[0], (b[1] if isinstance(b[1], str) else json.dumps(b[1]))[:1500]))
        for v in self.violations[:3]:
            print("FAILS: %s :: %s" % (json.dumps(to_jsonable(v[0]))[:600], v[2]))
        cov = self.cov
        cov["obligations"] = self.obligations
        cov["discharged"] = self.discharged
        cov["checker_cmd"] = ("coqc -Q coq PW -Q build/%s Gen build/%s/{Props_%s,Traced_*,cases_*}.v after make in coq/"
                              % (self.pid, self.pid, self.pid)) + ("; coqchk -o" if self.tier == "thorough" else "")
        cov["trusted_base"] = self.mod.TRUSTED if hasattr(self.mod, "TRUSTED") else []
        cov.setdefault("evaluations", 0)
        cov.setdefault("distinct_nontrivial", 0)
        cov["rule"] = getattr(self.mod, "RULE", "")
        cov["known_findings_hit"] = sorted(self.known_hits)
        extra = getattr(self.mod, "EXTRA_COVERAGE", None)
        if isinstance(extra, dict):  # measured numbers a property module wants in its evidence (e.g. exhaustive sweeps)
            for k, v in extra.items():
                cov.setdefault(k, v)
        cov["broken"] = [b[0] for b in self.broken]
        cov["repo"] = {"path": REPO, "head": head, "dirty_files": dirty}
        ev = {"property_id": self.pid, "tier": self.tier, "seed": self.seed, "level": "proof", "coverage": cov,
              "assumptions": getattr(self.mod, "ASSUMPTIONS", []), "wall_s": round(time.time() - self.t0, 2),
              "violations": len(self.violations) + (1 if (self.broken and not self.violations) else 0)}
        os.makedirs(os.path.join(VERIF, "evidence"), exist_ok=True)
        json.dump(ev, open(os.path.join(VERIF, "evidence", self.pid + ".json"), "w"), indent=1)
        for ln in lines:
            print(ln)
        if exit_code == 0 and not os.environ.get("VERIF_KEEP_BUILD"):
            shutil.rmtree(self.bdir, ignore_errors=True)  # generated files are kept only for diagnosing a failure
        else:
            latest = os.path.join(VERIF, "build", self.pid)
            shutil.rmtree(latest, ignore_errors=True)
            try:
                os.rename(self.bdir, latest)
            except OSError:
                pass
        print("%s %s: obligations %d/%d, cases %d, disagreements %d, known findings %d, %.1fs -> %s" % (
            self.pid, self.tier, self.discharged, self.obligations, cov["evaluations"],
            cov.get("model_impl_disagreements", 0), len(self.known_hits), time.time() - self.t0,
            "OK" if exit_code == 0 else "VIOLATION"))
        return exit_code

    def coqchk(self):
        self.obligations += 1
        rc, out, dt = sh(["flock", os.path.join(COQ, ".chk.lock"), "timeout", "1500", "coqchk", "-silent", "-o", "-Q", COQ, "PW",
                          "PW.props." + self.pid], 1600)
        if rc == 0:
            self.discharged += 1
            self.cov["coqchk_axioms"] = sorted(set(re.findall(r"^\s+([A-Z][\w.]+)\s*$", out, re.M)))[:40]
        else:
            self.broken.append(("coqchk", out[-2000:]))


def replay(pid, path):
    mod = importlib.import_module("props." + pid)
    r = json.load(open(path))
    if r.get("kind") != "counterexample":
        print("replay file names broken obligations only: %s" % [b["what"] for b in r.get("broken", [])])
        print("re-running the quick check to see whether they still fail")
        return main_check(pid, "quick")
    c = r["case"]
    o = mod.run_impl(c)
    f = mod.oracle(c, o)
    print("replayed case: %s" % json.dumps(c)[:800])
    print("observed: %s" % json.dumps(to_jsonable(o))[:800])
    if f:
        key = mod.classify(c, o, f, False) if hasattr(mod, "classify") else None
        if key and (pid, key) in known_findings():
            kf = known_findings()[(pid, key)]
            print("KNOWN-FINDING: property=%s %s: %s" % (pid, kf["site"], kf["what"]))
            return 0
        print("property fails: %s" % f)
        print("VIOLATION property=%s replay=%s" % (pid, path))
        return 1
    print("property holds on the replayed input")
    return 0


def main_check(pid, tier):
    seed = int(os.environ.get("VERIF_SEED", "0"))
    run = Run(pid, tier, seed)
    tm = run.cov.setdefault("timings_s", {})

    def step(name, f):
        t = time.time()
        f()
        tm[name] = round(time.time() - t, 1)

    step("library", run.prepare)
    if not run.broken:
        step("traced", run.traced)
        step("props", run.props)
    step("hygiene", run.hygiene)
    try:
        step("correspondence", run.correspondence)
    except Exception as e:
        run.broken.append(("harness", "correspondence harness crashed: %r\n%s" % (e, traceback.format_exc()[-2000:])))
    if tier == "thorough" and not run.broken:
        step("coqchk", run.coqchk)
    return run.finish()


def crashed(pid, tier, exc):
    """the check itself crashed (import error, generator crash ...): never exit without a VIOLATION line and evidence"""
    rdir = os.path.join(VERIF, "evidence", "replays")
    os.makedirs(rdir, exist_ok=True)
    tb = traceback.format_exc()[-3000:]
    rp = os.path.join(rdir, "%s-unproved-crash.json" % pid)
    json.dump({"property": pid, "kind": "unproved", "broken": [{"what": "harness", "detail": "check crashed: %r\n%s" % (exc, tb)}]},
              open(rp, "w"), indent=1)
    ev = {"property_id": pid, "tier": tier if tier in ("quick", "thorough") else "quick", "seed": int(os.environ.get("VERIF_SEED", "0")),
          "level": "proof", "coverage": {"obligations": 1, "discharged": 0, "checker_cmd": "coqc (check crashed before completion)",
                                          "trusted_base": [], "broken": ["harness"], "explanation": "check crashed: %r" % (exc,)},
          "wall_s": 0.0, "violations": 1}
    json.dump(ev, open(os.path.join(VERIF, "evidence", pid + ".json"), "w"), indent=1)
    print(tb)
    print("VIOLATION property=%s replay=%s no-failing-input-found" % (pid, os.path.relpath(rp, VERIF)))
    return 1


if __name__ == "__main__":
    pid = sys.argv[1]
    if len(sys.argv) >= 4 and sys.argv[2] == "--replay":
        sys.exit(replay(pid, sys.argv[3]))
    tier = sys.argv[2] if len(sys.argv) > 2 else os.environ.get("VERIF_TIER", "quick")
    try:
        code = main_check(pid, tier)
    except Exception as e:  # noqa
        code = crashed(pid, tier, e)
    sys.exit(code)
