#!/usr/bin/env python3
"""Emit the 'as built' tables of DESIGN.md section 8 from the development itself (props files, evidence, seeded/, known_findings/)."""
import glob, json, os, re
V = os.path.dirname(os.path.dirname(os.path.abspath(__file__)))
out = []
out.append("| prop | theorems in props/ (proved / partial / refuted) | traced kernels | quick cases | input kinds | known findings hit | quick wall s |")
out.append("|---|---|---|---|---|---|---|")
for i in range(1, 21):
    pid = "C%02d" % i
    txt = open(os.path.join(V, "coq", "props", pid + ".v")).read()
    thms = re.findall(r"^\s*(?:Theorem|Lemma)\s+(\w+)", txt, re.M)
    part = [t for t in thms if t.endswith("_partial")]
    ref = [t for t in thms if t.endswith("_refuted")]
    ev = json.load(open(os.path.join(V, "evidence", pid + ".json")))
    c = ev["coverage"]
    kinds = ", ".join("%s %d" % kv for kv in sorted(c.get("input_histogram", {}).items(), key=lambda kv: -kv[1])[:6])
    out.append("| %s | %d / %d / %d | %s | %s | %s | %s | %s |" % (
        pid, len(thms) - len(part) - len(ref), len(part), len(ref), c.get("traced_kernels", 0), c.get("evaluations"),
        kinds, ", ".join(c.get("known_findings_hit", [])) or "-", ev["wall_s"]))
out.append("")
out.append("Partial / refuted theorems by name:")
out.append("")
for i in range(1, 21):
    pid = "C%02d" % i
    txt = open(os.path.join(V, "coq", "props", pid + ".v")).read()
    thms = re.findall(r"^\s*(?:Theorem|Lemma)\s+(\w+)", txt, re.M)
    pr = [t for t in thms if t.endswith("_partial") or t.endswith("_refuted")]
    if pr:
        out.append("* %s: %s" % (pid, ", ".join("`%s`" % t for t in pr)))
out.append("")
out.append("| seeded change | what it alters | needs | caught | how |")
out.append("|---|---|---|---|---|")
for d in sorted(glob.glob(os.path.join(V, "seeded", "*"))):
    mp = os.path.join(d, "meta.json")
    if not os.path.exists(mp):
        continue
    m = json.load(open(mp))
    oc = m.get("our_checks", {})
    res = []
    for c, r in oc.items():
        v = r.get("violation_line") or ""
        if r.get("exit") == 1 and "no-failing-input-found" in v:
            res.append("%s: reported (no-failing-input-found)" % c)
        elif r.get("exit") == 1:
            res.append("%s: VIOLATION with replay" % c)
        else:
            res.append("%s: missed" % c)
    det = "; ".join((x[:90] for r in oc.values() for x in r.get("detail", [])[:1]))
    out.append("| %s | %s | %s | %s | %s |" % (os.path.basename(d), str(m.get("breaks") or m.get("summary") or "")[:110].replace("|", "/"),
                                             str(m.get("needs") or m.get("trigger") or "")[:110].replace("|", "/"), ("; ".join(res) or "n/a") + ((" — " + m["note"][:160]) if m.get("note") else ""), det.replace("|", "/")))
out.append("")
out.append("Behaviour-preserving rewrites (`benign/`, DESIGN 8.9) against the current checks:")
out.append("")
out.append("| rewrite | what it restructures | outcome of the check now | first contact |")
out.append("|---|---|---|---|")
fc = json.load(open(os.path.join(V, "benign", "first_contact.json")))
first_alarm = dict(fc.get("false_alarms_on_first_contact", {}))
first_alarm.update(fc.get("round2", {}).get("false_alarms_on_first_contact", {}))
n_silent = n_alarm = 0
for d in sorted(glob.glob(os.path.join(V, "benign", "*"))):
    mp = os.path.join(d, "meta.json")
    if not os.path.exists(mp):
        continue
    m = json.load(open(mp))
    name = os.path.basename(d)
    res = []
    for c, r in m.get("our_checks", {}).items():
        v = r.get("violation_line") or ""
        if r.get("exit") == 0:
            res.append("%s: silent" % c)
        elif "no-failing-input-found" in v:
            res.append("%s: alarm (no-failing-input-found): %s" % (c, "; ".join(x[:80] for x in r.get("detail", [])[:1])))
        else:
            res.append("%s: ALARM WITH REPLAY" % c)
    ok = all(r.get("exit") == 0 for r in m.get("our_checks", {}).values())
    n_silent += ok
    n_alarm += (not ok)
    out.append("| %s | %s | %s | %s |" % (name, str(m.get("summary", ""))[:140].replace("|", "/").replace("\n", " "), "; ".join(res).replace("|", "/"),
                                      ("alarm: " + first_alarm[name][:120].replace("|", "/")) if name in first_alarm else "silent"))
out.append("")
out.append("%d rewrites: %d silent now, %d still raise an alarm; on first contact %d raised one." % (n_silent + n_alarm, n_silent, n_alarm, len(first_alarm)))
print("\n".join(out))
