#!/bin/bash
# regenerate the generated tables inside DESIGN.md section 8.6
cd "$(dirname "$0")/.."
python3 tools/mkdesign_tables.py > /tmp/.tables.$$ && python3 - "$$" <<'PY'
import sys
p='DESIGN.md'; s=open(p).read(); t=open('/tmp/.tables.%s' % sys.argv[1]).read()
a='<!-- BEGIN GENERATED TABLES -->'; b='<!-- END GENERATED TABLES -->'
i=s.index(a)+len(a); j=s.index(b)
open(p,'w').write(s[:i]+"\n"+t+"\n"+s[j:])
PY
rm -f /tmp/.tables.$$
