"""AST extraction of the shape contracts of polliwog (property C20, tie (A) of DESIGN.md 2.3).

Walks every non-test module of $POLLIWOG_REPO/polliwog and collects, for every function / method, the shape
checks it performs *directly*, in program order, as terms of `check` (coq/model/M_shape.v):

    vg.shape.check(locals(), "name", SHAPE)          -> Check "name" SHAPE bind
    vg.shape.check_value(name, SHAPE[, name=...])    -> Check "name" SHAPE bind
    check_shape_any(name, SHAPE..., name=...)        -> CheckAny "name" [SHAPE...] bind
    columnize(name, SHAPE, name=...)                 -> Columnize "name" SHAPE
    vg.shape.check(locals(), "b", a.shape)           -> CheckSame "b" "a"      (also through `s = a.shape`)
    for x in xs: vg.shape.check(locals(), "x", S)    -> CheckEach "xs" S
    x = x.flatten(); vg.shape.check_value(x, S)      -> CheckFlat "x" S
    (transparent, shape-preserving: x = np.asarray(x[, dtype=...]); x = x.astype(T); and a plain `if` without else whose
     test mentions only x and whose body consists of such assignments of x)
    if a is not None: <check>  /  if a is None: ... else: <check>   -> IfPresent "a" <check>
    if a.shape == T: ... else: vg.shape.check(locals(), "a", S)     -> NeedsShape "a"; CheckAny "a" [T; S]

The checked name must be a parameter of the function that has not been reassigned before the check
(except by the two forms above and `if not hasattr(x, "__iter__"): x = [x]`).
SHAPE is a tuple of int literals, -1, names bound by an earlier check of the same function, `self.<attr>`,
and `-1 if k is None else k`.

Module-private helpers (`_f`, `Class._m`) are not entries of their own: the checks they perform on arguments that are
parameters of the calling function are spliced into the caller's contract at the call (program order; the caller's
normalisation state of the argument applies), checks on values the caller computed itself are internal and dropped.

FAIL CLOSED: anything else that involves one of the check functions (a check inside some other kind of
conditional / loop / try / with / comprehension / lambda, a check used as an expression, an unknown
`vg.shape.*` helper, a shape expression outside the grammar, a `return` that can skip a later check, a
`.shape` of a name that columnize has rebound, ...) raises ExtractError naming file:line.  The caller
treats that as a broken tie.
"""
import ast
import os
import re

CHECK_ATTRS = {"check", "check_value"}
LOCAL_HELPERS = {"check_shape_any", "columnize"}
# modules that are the hand-modelled helpers themselves (M_shape.v models them; validated by direct probes)
MODELLED_BY_HAND = {"polliwog._common.shape"}


class ExtractError(Exception):
    pass


def _err(path, node, msg):
    raise ExtractError("%s:%d: %s" % (path, getattr(node, "lineno", 0), msg))


def is_test_module(fn):
    return fn.startswith("test_") or fn == "conftest.py"


def module_files(repo):
    root = os.path.join(repo, "polliwog")
    out = []
    for d, dirs, files in os.walk(root):
        dirs[:] = sorted(x for x in dirs if x != "__pycache__")
        for fn in sorted(files):
            if fn.endswith(".py") and not is_test_module(fn):
                p = os.path.join(d, fn)
                rel = os.path.relpath(p, repo)[:-3].replace(os.sep, ".")
                if rel.endswith(".__init__"):
                    rel = rel[: -len(".__init__")]
                out.append((rel, p))
    return out


# ---- recognising the check functions -------------------------------------------------------------------
def _attr_chain(e):
    parts = []
    while isinstance(e, ast.Attribute):
        parts.append(e.attr)
        e = e.value
    if isinstance(e, ast.Name):
        parts.append(e.id)
        return list(reversed(parts))
    return None


def check_kind(call, helpers):
    """'check' | 'check_value' | 'check_shape_any' | 'columnize' | None; raises on unknown vg.shape.*"""
    f = call.func
    ch = _attr_chain(f)
    if ch and len(ch) >= 2 and ch[0] == "vg" and ch[1] == "shape":
        if len(ch) == 3 and ch[2] in CHECK_ATTRS:
            return ch[2]
        return "unknown:" + ".".join(ch)
    if isinstance(f, ast.Name) and f.id in helpers:
        return f.id
    return None


class FunctionExtractor:
    def __init__(self, path, helpers, fn, private=None, cls=None):
        self.path, self.helpers, self.fn = path, helpers, fn
        # private helpers of the module: {"_f": qualified name} and, for methods of this class, {"self._m": qualified name}
        self.private = private or {}
        self.cls = cls
        self.checks = []          # Coq terms, in order
        self.bound = set()        # names bound by an earlier check
        self.shape_alias = {}     # name -> arg whose .shape it holds
        self.rebound = set()      # names reassigned by columnize (their .shape is no longer the argument's)
        self.handled = set()      # id() of Call nodes consumed by the grammar
        self.stored = {}          # name -> how it was (re)assigned so far: asarray | flatten | other
        self.used_targets = set()
        self.pending_targets = set()  # names assigned from a local helper call: usable as lengths if the helper returns bindings
        self.dim_alias = {}       # local name -> the dimension term it stands for (n = -1 if k is None else k)
        self.return_names = None  # names returned by a top-level `return a` / `return a, b` (helpers that return lengths)
        self.last_check_line = 0
        self.returns = []         # line numbers of return statements
        a = fn.args
        self.params = [x.arg for x in a.posonlyargs + a.args + a.kwonlyargs]
        if a.vararg:
            self.params.append(a.vararg.arg)
        if a.kwarg:
            self.params.append(a.kwarg.arg)

    # -- shape expressions ------------------------------------------------------------------------------
    def dim(self, e):
        if isinstance(e, ast.Constant) and isinstance(e.value, int) and not isinstance(e.value, bool) and e.value >= 0:
            return "DInt %d" % e.value
        if (isinstance(e, ast.UnaryOp) and isinstance(e.op, ast.USub) and isinstance(e.operand, ast.Constant)
                and e.operand.value == 1):
            return "DAny"
        if isinstance(e, ast.Name):
            if e.id in self.dim_alias:
                return self.dim_alias[e.id]
            if e.id in self.pending_targets:
                self.used_targets.add(e.id)
                return 'DVar "%s"' % e.id
            if e.id not in self.bound:
                _err(self.path, e, "shape dimension `%s` is not bound by an earlier check of this function" % e.id)
            return 'DVar "%s"' % e.id
        if isinstance(e, ast.Attribute) and isinstance(e.value, ast.Name) and e.value.id == "self":
            return 'DVar "self.%s"' % e.attr
        if isinstance(e, ast.IfExp):
            t = e.test
            if (isinstance(t, ast.Compare) and isinstance(t.left, ast.Name) and len(t.ops) == 1
                    and isinstance(t.ops[0], ast.Is) and isinstance(t.comparators[0], ast.Constant)
                    and t.comparators[0].value is None and self.dim(e.body) == "DAny"
                    and isinstance(e.orelse, ast.Name) and e.orelse.id == t.left.id):
                if t.left.id not in self.bound:
                    _err(self.path, e, "`%s` is not bound by an earlier check" % t.left.id)
                return 'DVarOrAny "%s"' % t.left.id
        _err(self.path, e, "shape dimension outside the grammar: %s" % ast.dump(e)[:120])

    def pattern(self, e):
        if not isinstance(e, ast.Tuple):
            _err(self.path, e, "shape is not a tuple literal: %s" % ast.dump(e)[:120])
        return "[%s]" % "; ".join(self.dim(x) for x in e.elts)

    def shape_source(self, e):
        """`a.shape` or an alias of it -> the argument name, else None"""
        if isinstance(e, ast.Attribute) and e.attr == "shape" and isinstance(e.value, ast.Name):
            if e.value.id in self.rebound:
                _err(self.path, e, "`%s.shape` after columnize rebound `%s`" % (e.value.id, e.value.id))
            return e.value.id
        if isinstance(e, ast.Name) and e.id in self.shape_alias:
            return self.shape_alias[e.id]
        return None

    def n_wild(self, pat):
        return pat.count("DAny") + pat.count("DVarOrAny")

    # -- what happened to a checked name before its check ------------------------------------------------------
    def record_stores(self, node):
        for x in walk_no_defs(node):
            if isinstance(x, ast.Name) and isinstance(x.ctx, ast.Store):
                self.stored[x.id] = "other"

    def subject(self, call, name, loop_var=None):
        """the checked name must be a parameter whose value still is the argument (np.asarray(x) and
        x.flatten() are the only recognised re-assignments); returns 'plain' or 'flat'"""
        if name == loop_var:
            return "plain"
        if name not in self.params:
            _err(self.path, call, "shape check on `%s`, which is not a parameter of the function" % name)
        how = self.stored.get(name)
        if how in (None, "asarray"):
            return "plain"
        if how == "flatten":
            return "flat"
        _err(self.path, call, "`%s` is reassigned before its shape check (the check is not about the argument)" % name)

    @staticmethod
    def normalisation(st):
        """`x = E` where E is x, np.asarray(x[, dtype=..]) or np.array(x[, dtype=..]) followed by any number of
        .astype(T) / .ravel() / .flatten() / .reshape(-1): returns (x, 'asarray' | 'flatten'), else None"""
        if not (isinstance(st, ast.Assign) and len(st.targets) == 1 and isinstance(st.targets[0], ast.Name)):
            return None
        x, e, flat, steps = st.targets[0].id, st.value, False, 0
        while isinstance(e, ast.Call) and isinstance(e.func, ast.Attribute) and _attr_chain(e.func) is None:
            # a method call on a call result, e.g. np.asarray(x).ravel()
            m = e.func.attr
            if m == "astype" and len(e.args) == 1 and not e.keywords:
                pass
            elif m in ("ravel", "flatten") and not e.args and not e.keywords:
                flat = True
            elif (m == "reshape" and len(e.args) == 1 and not e.keywords and isinstance(e.args[0], ast.UnaryOp)
                  and isinstance(e.args[0].op, ast.USub) and isinstance(e.args[0].operand, ast.Constant)
                  and e.args[0].operand.value == 1):
                flat = True
            else:
                return None
            e, steps = e.func.value, steps + 1
        if isinstance(e, ast.Call) and isinstance(e.func, ast.Attribute) and isinstance(e.func.value, ast.Name) \
                and e.func.value.id == x:
            # a method call directly on x, e.g. x.astype(T), x.flatten()
            m = e.func.attr
            if m == "astype" and len(e.args) == 1 and not e.keywords:
                pass
            elif m in ("ravel", "flatten") and not e.args and not e.keywords:
                flat = True
            elif (m == "reshape" and len(e.args) == 1 and not e.keywords and isinstance(e.args[0], ast.UnaryOp)
                  and isinstance(e.args[0].op, ast.USub) and isinstance(e.args[0].operand, ast.Constant)
                  and e.args[0].operand.value == 1):
                flat = True
            else:
                return None
            return x, ("flatten" if flat else "asarray")
        if (isinstance(e, ast.Call) and _attr_chain(e.func) in (["np", "asarray"], ["np", "array"]) and len(e.args) == 1
                and isinstance(e.args[0], ast.Name) and e.args[0].id == x and set(k.arg for k in e.keywords) <= {"dtype"}):
            return x, ("flatten" if flat else "asarray")
        return None

    # -- one check call -----------------------------------------------------------------------------------
    def one_check(self, call, target, loop_var=None):
        """returns the Coq term for this call; `target` is the assignment target (ast node) or None"""
        kind = check_kind(call, self.helpers)
        self.handled.add(id(call))
        self.last_check_line = max(self.last_check_line, call.lineno)
        kw = {k.arg: k.value for k in call.keywords}
        if any(k.arg is None for k in call.keywords) or any(isinstance(a, ast.Starred) for a in call.args):
            _err(self.path, call, "star-arguments in a shape check")
        bind = None
        if target is not None and kind != "columnize":
            if not isinstance(target, ast.Name):
                _err(self.path, call, "result of a shape check assigned to a non-name")
            bind = target.id

        def bd():
            return 'None' if bind is None else '(Some "%s")' % bind

        if kind == "check":
            if (len(call.args) != 3 or kw or not isinstance(call.args[0], ast.Call)
                    or not isinstance(call.args[0].func, ast.Name) or call.args[0].func.id != "locals"
                    or not isinstance(call.args[1], ast.Constant) or not isinstance(call.args[1].value, str)):
                _err(self.path, call, "vg.shape.check not of the form check(locals(), \"name\", shape)")
            name = call.args[1].value
            mode = self.subject(call, name, loop_var)
            src = self.shape_source(call.args[2])
            if src is not None:
                if bind is not None or mode != "plain":
                    _err(self.path, call, "binding the result of a same-shape check / same-shape check of a flattened array")
                return 'CheckSame "%s" "%s"' % (name, src)
            pat = self.pattern(call.args[2])
            if mode == "flat":
                if bind is not None:
                    _err(self.path, call, "binding the result of a check on a flattened array")
                return 'CheckFlat "%s" %s' % (name, pat)
            if bind is not None:
                if self.n_wild(pat) > 1:
                    _err(self.path, call, "binding a check with more than one wildcard")
                self.bound.add(bind)
            return 'Check "%s" %s %s' % (name, pat, bd())
        if kind == "check_value":
            if len(call.args) != 2 or set(kw) - {"name"} or not isinstance(call.args[0], ast.Name):
                _err(self.path, call, "vg.shape.check_value not of the form check_value(name, shape[, name=...])")
            name = call.args[0].id
            mode = self.subject(call, name)
            pat = self.pattern(call.args[1])
            if mode == "flat":
                if bind is not None:
                    _err(self.path, call, "binding the result of a check on a flattened array")
                return 'CheckFlat "%s" %s' % (name, pat)
            if bind is not None:
                if self.n_wild(pat) > 1:
                    _err(self.path, call, "binding a check with more than one wildcard")
                self.bound.add(bind)
            return 'Check "%s" %s %s' % (name, pat, bd())
        if kind == "check_shape_any":
            if len(call.args) < 2 or set(kw) - {"name"} or not isinstance(call.args[0], ast.Name):
                _err(self.path, call, "check_shape_any not of the form check_shape_any(name, shape, ..., name=...)")
            name = call.args[0].id
            if self.subject(call, name) != "plain":
                _err(self.path, call, "check_shape_any on a flattened array")
            pats = [self.pattern(a) for a in call.args[1:]]
            if bind is not None:
                if any(self.n_wild(p) > 1 for p in pats):
                    _err(self.path, call, "binding a check with more than one wildcard")
                self.bound.add(bind)
            return 'CheckAny "%s" [%s] %s' % (name, "; ".join(pats), bd())
        if kind == "columnize":
            if len(call.args) not in (1, 2) or set(kw) - {"name", "shape"} or not isinstance(call.args[0], ast.Name):
                _err(self.path, call, "columnize not of the form columnize(name[, shape], name=...)")
            name = call.args[0].id
            if self.subject(call, name) != "plain":
                _err(self.path, call, "columnize on a flattened array")
            if len(call.args) == 2 and "shape" in kw:
                _err(self.path, call, "columnize with two shapes")
            she = call.args[1] if len(call.args) == 2 else kw.get("shape")
            pat = "[DAny; DInt 3]" if she is None else self.pattern(she)
            if target is None or not isinstance(target, ast.Tuple) or len(target.elts) != 3:
                _err(self.path, call, "columnize result not unpacked into three names")
            for t in target.elts:
                if isinstance(t, ast.Name):
                    self.rebound.add(t.id)
                    self.shape_alias.pop(t.id, None)
                else:
                    _err(self.path, call, "columnize result unpacked into a non-name")
            return 'Columnize "%s" %s' % (name, pat)
        _err(self.path, call, "unsupported shape helper %s" % kind)

    # -- statements -----------------------------------------------------------------------------------------
    def has_check(self, nodes):
        for n in nodes:
            for x in walk_no_defs(n):
                if isinstance(x, ast.Call) and check_kind(x, self.helpers):
                    return True
        return False

    def stmt_check(self, st):
        """if `st` is a statement-level check call return (call, target) else None"""
        if isinstance(st, ast.Expr) and isinstance(st.value, ast.Call) and check_kind(st.value, self.helpers):
            return st.value, None
        if (isinstance(st, ast.Assign) and isinstance(st.value, ast.Call) and check_kind(st.value, self.helpers)):
            if len(st.targets) != 1:
                _err(self.path, st, "chained assignment of a shape check")
            return st.value, st.targets[0]
        return None

    def none_test(self, t):
        """`x is None` -> (x, True); `x is not None` -> (x, False); else None"""
        if (isinstance(t, ast.Compare) and isinstance(t.left, ast.Name) and len(t.ops) == 1
                and isinstance(t.comparators[0], ast.Constant) and t.comparators[0].value is None):
            if isinstance(t.ops[0], ast.Is):
                return t.left.id, True
            if isinstance(t.ops[0], ast.IsNot):
                return t.left.id, False
        return None

    def private_calls(self, st, wrap):
        """calls of module-private helpers (`_f(...)`, `self._m(...)`): their checks on arguments that are parameters of
        this function belong to this function's contract (resolved by extract_module); recorded in program order"""
        if not self.private:
            return
        simple = isinstance(st, (ast.Assign, ast.AugAssign, ast.AnnAssign, ast.Expr, ast.Return)) and wrap is None
        calls = []
        for x in walk_no_defs(st):
            if not isinstance(x, ast.Call):
                continue
            key = None
            if isinstance(x.func, ast.Name) and x.func.id in self.private:
                key = x.func.id
            elif (isinstance(x.func, ast.Attribute) and isinstance(x.func.value, ast.Name)
                  and x.func.value.id in ("self", "cls") and ("self." + x.func.attr) in self.private):
                key = "self." + x.func.attr
            if key is not None:
                calls.append((x.lineno, x.col_offset, key, x))
        for _, _, key, x in sorted(calls, key=lambda t: t[:2]):
            def state(e):
                if isinstance(e, ast.Name) and e.id in self.params:
                    how = self.stored.get(e.id)
                    return (e.id, "plain" if how in (None, "asarray") else ("flat" if how == "flatten" else None))
                return (None, None)
            star = any(isinstance(a, ast.Starred) for a in x.args) or any(k.arg is None for k in x.keywords)
            targets = []
            if isinstance(st, ast.Assign) and st.value is x and len(st.targets) == 1 and wrap is None:
                t = st.targets[0]
                if isinstance(t, ast.Name):
                    targets = [t.id]
                elif isinstance(t, ast.Tuple) and all(isinstance(e, ast.Name) for e in t.elts):
                    targets = [e.id for e in t.elts]
            self.checks.append(("CALL", self.private[key], [state(a) for a in x.args],
                                {k.arg: state(k.value) for k in x.keywords if k.arg}, not simple, star, x.lineno, targets))
            self.pending_targets.update(targets)

    def block(self, stmts, wrap=None):
        for st in stmts:
            self.stmt(st, wrap)

    def emit(self, term, wrap):
        if wrap is not None:
            term = 'IfPresent "%s" (%s)' % (wrap, term)
        self.checks.append(term)

    def stmt(self, st, wrap):
        if isinstance(st, (ast.FunctionDef, ast.AsyncFunctionDef, ast.ClassDef)):
            return  # nested definitions are separate entries
        for x in walk_no_defs(st):
            if isinstance(x, ast.Return):
                self.returns.append(x.lineno)
        self.private_calls(st, wrap)
        if isinstance(st, ast.Return) and wrap is None and st.value is not None:
            v = st.value
            if isinstance(v, ast.Name):
                self.return_names = [v.id]
            elif isinstance(v, ast.Tuple) and all(isinstance(e, ast.Name) for e in v.elts):
                self.return_names = [e.id for e in v.elts]
        # n = -1 if k is None else k   (a name for the "wildcard unless k is known" dimension)
        if (isinstance(st, ast.Assign) and len(st.targets) == 1 and isinstance(st.targets[0], ast.Name)
                and isinstance(st.value, ast.IfExp) and wrap is None):
            try:
                term = self.dim(st.value)
            except ExtractError:
                term = None
            if term is not None and term.startswith("DVarOrAny"):
                self.dim_alias[st.targets[0].id] = term
                return
        sc = self.stmt_check(st)
        if sc:
            call, target = sc
            self.emit(self.one_check(call, target), wrap)
            if target is not None:
                self.record_stores(target)
            return
        # x = <normalisation chain of x>: np.asarray / np.array (dtype only), .astype(T) keep the shape;
        # .ravel() / .flatten() / .reshape(-1) flatten it (later checks of x are about the flattened array)
        nk = self.normalisation(st)
        if nk is not None:
            name, kind = nk
            if kind == "asarray" and self.stored.get(name) in (None, "asarray"):
                self.stored[name] = "asarray"
                return
            if kind == "flatten" and self.stored.get(name) in (None, "asarray", "flatten"):
                self.stored[name] = "flatten"
                return
        # if <test about x only>: x = <shape-preserving normalisation of x>   (plain `if`, no else)
        if (isinstance(st, ast.If) and not st.orelse and st.body
                and all((self.normalisation(b) or (None, None))[1] == "asarray" for b in st.body)):
            names = {b.targets[0].id for b in st.body}
            used = {x.id for x in ast.walk(st.test) if isinstance(x, ast.Name)}
            if used <= names | {"np"} and all(self.stored.get(n) in (None, "asarray") for n in names):
                for n in names:
                    self.stored[n] = "asarray"
                return
        # if not hasattr(x, "__iter__"): x = [x]   -- promotes a Python scalar; never taken for an ndarray
        if (isinstance(st, ast.If) and not st.orelse and len(st.body) == 1 and isinstance(st.test, ast.UnaryOp)
                and isinstance(st.test.op, ast.Not) and isinstance(st.test.operand, ast.Call)
                and isinstance(st.test.operand.func, ast.Name) and st.test.operand.func.id == "hasattr"
                and len(st.test.operand.args) == 2 and isinstance(st.test.operand.args[0], ast.Name)
                and isinstance(st.test.operand.args[1], ast.Constant) and st.test.operand.args[1].value == "__iter__"):
            x = st.test.operand.args[0].id
            b = st.body[0]
            if (isinstance(b, ast.Assign) and len(b.targets) == 1 and isinstance(b.targets[0], ast.Name) and b.targets[0].id == x
                    and isinstance(b.value, ast.List) and len(b.value.elts) == 1 and isinstance(b.value.elts[0], ast.Name)
                    and b.value.elts[0].id == x):
                return
        # s = a.shape
        if (isinstance(st, ast.Assign) and len(st.targets) == 1 and isinstance(st.targets[0], ast.Name)
                and isinstance(st.value, ast.Attribute) and st.value.attr == "shape"
                and isinstance(st.value.value, ast.Name) and st.value.value.id in self.params):
            src = self.shape_source(st.value)
            self.shape_alias[st.targets[0].id] = src
            self.emit('NeedsShape "%s"' % src, wrap)
            return
        if isinstance(st, ast.Assign) or isinstance(st, ast.AugAssign) or isinstance(st, ast.AnnAssign):
            # an assignment to an alias / bound name invalidates it
            tg = st.targets if isinstance(st, ast.Assign) else [st.target]
            for t in tg:
                for x in ast.walk(t):
                    if isinstance(x, ast.Name):
                        if x.id in self.shape_alias or x.id in self.bound:
                            _err(self.path, st, "`%s` (used in shape checks) is reassigned" % x.id)
        if not self.has_check([st]):
            self.record_stores(st)
            return
        if isinstance(st, ast.If):
            nt = self.none_test(st.test)
            if nt and wrap is None:
                name, is_none = nt
                then_, else_ = (st.body, st.orelse) if is_none else (st.orelse, st.body)
                # then_: executed when name is None -> must not check anything
                if self.has_check(then_):
                    _err(self.path, st, "shape check in the `%s is None` branch" % name)
                for s2 in else_:
                    if self.has_check([s2]) and not self.stmt_check(s2):
                        _err(self.path, s2, "nested construct with a shape check inside an `is None` conditional")
                self.block(else_, wrap=name)
                for s2 in then_:
                    self.record_stores(s2)
                return
            t = st.test
            if (wrap is None and isinstance(t, ast.Compare) and len(t.ops) == 1 and isinstance(t.ops[0], ast.Eq)
                    and isinstance(t.comparators[0], ast.Tuple) and not self.has_check(st.body)
                    and len([s for s in st.orelse if self.has_check([s])]) == 1):
                src = self.shape_source(t.left) if isinstance(t.left, ast.Attribute) else None
                inner = [s for s in st.orelse if self.has_check([s])][0]
                sc2 = self.stmt_check(inner)
                if src is not None and sc2 and check_kind(sc2[0], self.helpers) == "check" and sc2[1] is None:
                    term = self.one_check(sc2[0], None)
                    pat_if = self.pattern(t.comparators[0])
                    prefix = 'Check "%s" ' % src
                    if term.startswith(prefix) and term.endswith(" None"):
                        pat_else = term[len(prefix):-len(" None")]
                        self.emit('NeedsShape "%s"' % src, None)
                        self.emit('CheckAny "%s" [%s; %s] None' % (src, pat_if, pat_else), None)
                        self.record_stores(st)
                        return
            _err(self.path, st, "shape check under a conditional outside the grammar")
        if isinstance(st, ast.For):
            body_checks = [s for s in st.body if self.has_check([s])]
            if (wrap is None and isinstance(st.target, ast.Name) and isinstance(st.iter, ast.Name) and not st.orelse
                    and len(body_checks) == 1 and self.stmt_check(body_checks[0])):
                call, target = self.stmt_check(body_checks[0])
                if check_kind(call, self.helpers) == "check" and target is None:
                    if self.subject(call, st.iter.id) != "plain":
                        _err(self.path, st, "loop over a reassigned name")
                    term = self.one_check(call, None, loop_var=st.target.id)
                    prefix = 'Check "%s" ' % st.target.id
                    if term.startswith(prefix) and term.endswith(" None") and "DVar" not in term:
                        self.emit('CheckEach "%s" %s' % (st.iter.id, term[len(prefix):-len(" None")]), None)
                        self.record_stores(st)
                        return
            _err(self.path, st, "shape check inside a loop outside the grammar")
        _err(self.path, st, "shape check inside a %s statement / expression (outside the grammar)" % type(st).__name__)

    def run(self):
        body = self.fn.body
        self.block(body)
        # every call of a check function must have been consumed by the grammar
        for x in walk_no_defs_body(self.fn):
            if isinstance(x, ast.Call):
                k = check_kind(x, self.helpers)
                if k and k.startswith("unknown:"):
                    _err(self.path, x, "unknown shape helper %s" % k[8:])
                if k and id(x) not in self.handled:
                    _err(self.path, x, "shape check used outside the statement grammar")
            if isinstance(x, ast.Attribute) and _attr_chain(x) and _attr_chain(x)[:2] == ["vg", "shape"]:
                ch = _attr_chain(x)
                if len(ch) == 3 and ch[2] not in CHECK_ATTRS:
                    _err(self.path, x, "unknown shape helper %s" % ".".join(ch))
        # a return that can skip a later check makes the contract conditional
        for ln in self.returns:
            if ln < self.last_check_line:
                _err(self.path, self.fn, "`return` at line %d precedes a shape check at line %d" % (ln, self.last_check_line))
        return self.checks


def walk_no_defs(node):
    """ast.walk that does not descend into nested function / class definitions or lambdas"""
    stack = [node]
    while stack:
        n = stack.pop()
        yield n
        for c in ast.iter_child_nodes(n):
            if isinstance(c, (ast.FunctionDef, ast.AsyncFunctionDef, ast.ClassDef)):
                continue
            stack.append(c)


def walk_no_defs_body(fn):
    for st in fn.body:
        if isinstance(st, (ast.FunctionDef, ast.AsyncFunctionDef, ast.ClassDef)):
            continue
        yield from walk_no_defs(st)


def local_helpers(path, tree):
    """names of check_shape_any / columnize as imported from polliwog._common.shape in this module"""
    helpers = set()
    for n in ast.walk(tree):
        if isinstance(n, ast.ImportFrom) and n.module and n.module.endswith("_common.shape"):
            for a in n.names:
                if a.asname and a.asname != a.name:
                    _err(path, n, "shape helper imported under another name")
                if a.name in LOCAL_HELPERS:
                    helpers.add(a.name)
                else:
                    _err(path, n, "unknown import from _common.shape: %s" % a.name)
        if isinstance(n, ast.ImportFrom) and n.module and n.module.startswith("vg") and n.module != "vg.compat":
            _err(path, n, "import from %s (shape helpers may be hidden behind other names)" % n.module)
        if isinstance(n, ast.ImportFrom) and n.module == "vg.compat":
            for a in n.names:
                if (a.name, a.asname) != ("v2", "vg"):
                    _err(path, n, "vg imported in an unexpected way")
        if isinstance(n, ast.Import):
            for a in n.names:
                if a.name.split(".")[0] == "vg" and (a.asname or a.name) != "vg":
                    _err(path, n, "vg imported under another name")
        # rebinding of the helper names at module level / anywhere
        if isinstance(n, (ast.FunctionDef, ast.ClassDef)) and n.name in LOCAL_HELPERS | {"vg"}:
            _err(path, n, "module redefines %s" % n.name)
        if isinstance(n, ast.Name) and isinstance(n.ctx, ast.Store) and n.id in LOCAL_HELPERS | {"vg"}:
            _err(path, n, "module rebinds %s" % n.id)
    return helpers


def extract_module(modname, path):
    src = open(path).read()
    tree = ast.parse(src, filename=path)
    helpers = local_helpers(path, tree)
    out = {}
    params_of = {}

    def is_private(name):
        return name.startswith("_") and not (name.startswith("__") and name.endswith("__"))

    # module-private helpers: module-level `_f` and methods `_m` of a class (called as self._m / cls._m)
    private_fns = {st.name: modname + "." + st.name for st in tree.body
                   if isinstance(st, (ast.FunctionDef, ast.AsyncFunctionDef)) and is_private(st.name)}
    # every module-level function can be a delegate: an argument passed on unchanged inherits the callee's checks
    local_fns = {st.name: modname + "." + st.name for st in tree.body
                 if isinstance(st, (ast.FunctionDef, ast.AsyncFunctionDef))}
    returns_of = {}
    private_methods = {}
    for c in tree.body:
        if isinstance(c, ast.ClassDef):
            private_methods[c.name] = {"self." + st.name: modname + "." + c.name + "." + st.name for st in c.body
                                       if isinstance(st, (ast.FunctionDef, ast.AsyncFunctionDef)) and is_private(st.name)}

    def visit(body, prefix, cls=None):
        for st in body:
            if isinstance(st, (ast.FunctionDef, ast.AsyncFunctionDef)):
                q = prefix + st.name
                for d in st.decorator_list:
                    # property setters etc. share a name: make the entry unique
                    ch = _attr_chain(d) if isinstance(d, ast.Attribute) else None
                    if ch and ch[-1] in ("setter", "deleter"):
                        q = q + "." + ch[-1]
                if q in out:
                    _err(path, st, "duplicate definition of %s" % q)
                table = dict(local_fns)
                table.pop(st.name if cls is None else None, None)     # not itself
                if cls is not None:
                    table.update(private_methods.get(cls, {}))
                fx = FunctionExtractor(path, helpers, st, private=table, cls=cls)
                out[q] = fx.run()
                returns_of[q] = fx.return_names
                ps = [a.arg for a in st.args.posonlyargs + st.args.args]
                if cls is not None and ps and ps[0] in ("self", "cls"):
                    ps = ps[1:]
                params_of[q] = (ps, [a.arg for a in st.args.kwonlyargs])
                visit(st.body, q + ".<locals>.", cls)
            elif isinstance(st, ast.ClassDef):
                visit(st.body, prefix + st.name + ".", st.name if prefix == modname + "." else cls)
            elif isinstance(st, (ast.If, ast.Try, ast.With, ast.For, ast.While)):
                for x in ast.walk(st):
                    if isinstance(x, (ast.FunctionDef, ast.AsyncFunctionDef, ast.ClassDef)):
                        _err(path, x, "definition nested in a module-level compound statement")
        # module-level code must not call the check functions
    visit(tree.body, modname + ".")
    for st in tree.body:
        if not isinstance(st, (ast.FunctionDef, ast.AsyncFunctionDef, ast.ClassDef)):
            for x in ast.walk(st):
                if isinstance(x, ast.Call) and check_kind(x, helpers):
                    _err(path, x, "shape check at module level")
                if isinstance(x, ast.Lambda):
                    for y in ast.walk(x):
                        if isinstance(y, ast.Call) and check_kind(y, helpers):
                            _err(path, y, "shape check inside a lambda")
    return resolve_private(path, out, params_of, set(private_fns.values()) |
                           {q for m in private_methods.values() for q in m.values()}, returns_of)


_TERM = re.compile(r'^(?P<pre>(?:IfPresent "(?P<opt>\w+)" \()?)(?P<kind>Check|CheckAny|Columnize|CheckFlat|CheckEach|NeedsShape) '
                   r'"(?P<arg>\w+)"(?P<rest>.*)$')


def _patterns(term):
    """(kind, arg, [patterns as lists of dim strings], binds?) of a Check / CheckAny term, else None"""
    m = re.match(r'^(Check|CheckAny) "(\w+)" (.*) (None|\(Some "\w+"\))$', term)
    if not m:
        return None
    body = m.group(3)
    pats = re.findall(r'\[((?:D\w+(?: "[\w.]+"| \d+)?(?:; )?)*)\]', body if m.group(1) == "Check" else body[1:-1])
    return m.group(1), m.group(2), [[d for d in p.split("; ") if d] for p in pats], m.group(4) != "None"


def _implied(term, earlier):
    """a later check of the same unchanged argument that binds nothing and accepts everything an earlier check accepts
    (every earlier pattern is an instance of one of its patterns) can never fail: it adds nothing to the contract"""
    t = _patterns(term)
    if t is None or t[3]:
        return False
    for e in earlier:
        pe = _patterns(e)
        if pe is None or pe[1] != t[1]:
            continue
        if all(any(len(q) == len(p) and all(dq == "DAny" or dq == dp for dq, dp in zip(q, p)) for q in t[2]) for p in pe[2]):
            return True
    return False


def resolve_private(path, out, params_of, private, returns_of):
    """splice the checks that a same-module function (a module-private helper, or a public function the caller delegates
    to) performs on arguments which are PARAMETERS of its caller, passed on unchanged, into the caller's contract at the
    call (program order); a check that repeats an earlier one of the caller verbatim adds nothing and is not repeated.
    Length names bound by the callee are bound in the caller's contract (renamed when the callee returns them and the
    caller assigns them).  Private helpers are then dropped as entries: contracts are about the API."""
    done = {}
    binder = re.compile(r'\(Some "(\w+)"\)')
    user = re.compile(r'DVar(?:OrAny)? "([\w.]+)"')

    def resolve(q, stack=()):
        if q in done:
            return done[q]
        if q in stack:
            raise ExtractError("%s: recursive local calls through %s" % (path, q))
        res = []
        for item in out[q]:
            if isinstance(item, str):
                res.append(item)
                continue
            _, callee, pos, kws, conditional, star, line, targets = item
            if callee not in out:
                raise ExtractError("%s:%d: local function %s not found" % (path, line, callee))
            inner = resolve(callee, stack + (q,))
            ret = returns_of.get(callee)
            if targets and any(t in (user.findall(" ".join(x for x in out[q] if isinstance(x, str)))) for t in targets):
                # the caller uses the assigned names as lengths: the callee must return exactly its bound names
                if not ret or len(ret) != len(targets):
                    raise ExtractError("%s:%d: lengths taken from %s, which does not return bound names" % (path, line, callee))
            if not inner:
                continue
            if star:
                raise ExtractError("%s:%d: star-arguments to the checking local function %s" % (path, line, callee))
            ps, kwonly = params_of[callee]
            amap = {}
            for p, st_ in zip(ps, pos):
                amap[p] = st_
            for k, st_ in kws.items():
                amap[k] = st_
            rename = dict(zip(ret, targets)) if (ret and targets and len(ret) == len(targets)) else {}
            kept, bound_here = [], set()
            for term in inner:
                if term.startswith("CheckSame"):
                    m2 = re.match(r'^CheckSame "(\w+)" "(\w+)"$', term)
                    a, o = (amap.get(m2.group(1), (None, None)), amap.get(m2.group(2), (None, None)))
                    if a[0] is None and o[0] is None:
                        continue
                    if a[0] is None or o[0] is None or a[1] != "plain" or o[1] != "plain":
                        raise ExtractError("%s:%d: same-shape check of %s on a value that is not an unchanged argument" % (path, line, callee))
                    kept.append('CheckSame "%s" "%s"' % (a[0], o[0]))
                    continue
                m = _TERM.match(term)
                if not m:
                    raise ExtractError("%s:%d: cannot re-target %r of %s" % (path, line, term, callee))
                name, mode = amap.get(m.group("arg"), (None, None))
                if name is None:
                    continue          # the callee checks a value computed by the caller, not one of its arguments
                if m.group("opt") and m.group("opt") != m.group("arg"):
                    raise ExtractError("%s:%d: optional check on another name in %s" % (path, line, callee))
                rest = m.group("rest")
                for u in user.findall(rest):
                    if u.startswith("self."):
                        continue
                    if u not in bound_here:
                        raise ExtractError("%s:%d: %s uses the length `%s` bound by a check that is not about an argument of the caller"
                                           % (path, line, callee, u))
                for b in binder.findall(rest):
                    bound_here.add(b)
                for old, new in rename.items():
                    rest = rest.replace('"%s"' % old, '"%s"' % new)
                if mode == "flat":
                    if m.group("kind") != "Check" or m.group("pre") or not rest.endswith(" None"):
                        raise ExtractError("%s:%d: %s of a flattened argument in %s" % (path, line, m.group("kind"), callee))
                    kept.append('CheckFlat "%s"%s' % (name, rest[:-len(" None")]))
                else:
                    pre = m.group("pre").replace('"%s"' % m.group("arg"), '"%s"' % name)
                    kept.append('%s%s "%s"%s' % (pre, m.group("kind"), name, rest))
            if targets and rename == {} and any(t in user.findall(" ".join(x for x in out[q] if isinstance(x, str))) for t in targets):
                raise ExtractError("%s:%d: lengths taken from %s cannot be matched with its bound names" % (path, line, callee))
            if kept and conditional and callee not in private:
                continue   # a public function called under a condition keeps its own entry; nothing is inherited
            if kept and conditional:
                raise ExtractError("%s:%d: %s, which checks argument shapes, is called under a conditional / inside a compound "
                                   "statement" % (path, line, callee))
            # names bound by the callee must not silently capture a different binding of the caller
            mine = set(binder.findall(" ".join(res)))
            for term in kept:
                if term in res or _implied(term, res):
                    continue          # repetition (or weakening) of an earlier check of the same argument
                clash = set(binder.findall(term)) & mine
                if clash:
                    raise ExtractError("%s:%d: %s re-binds the length name(s) %s of its caller" % (path, line, callee, sorted(clash)))
                res.append(term)
        # a name assigned from a helper call and used as a length must have been bound by the spliced checks
        done[q] = res
        return res

    for q in list(out):
        resolve(q)
    for q, terms in done.items():
        bound = set(binder.findall(" ".join(terms)))
        for u in user.findall(" ".join(terms)):
            if not u.startswith("self.") and u not in bound:
                raise ExtractError("%s: %s uses the length `%s`, which no check of its contract binds" % (path, q, u))
    return {q: done[q] for q in out if q not in private}


def extract(repo):
    """{qualified name: [coq check terms]} for every function / method of every non-test module"""
    allc = {}
    for modname, path in module_files(repo):
        if modname in MODELLED_BY_HAND:
            continue
        for k, v in extract_module(modname, path).items():
            allc[k] = v
    return allc


def coq_contracts(contracts, defname):
    lines = ["(* generated by tools/astextract.py -- do not edit *)",
             "From Coq Require Import List String.", "From PW.model Require Import M_shape.",
             "Import ListNotations.", "Local Open Scope string_scope.", "",
             "Definition %s : contracts := [" % defname]
    items = []
    for name in sorted(contracts):
        cs = contracts[name]
        if cs:
            items.append('  ("%s", [\n     %s])' % (name, ";\n     ".join(cs)))
        else:
            items.append('  ("%s", [])' % name)
    lines.append(";\n".join(items))
    lines.append("].")
    return "\n".join(lines) + "\n"


def write_contracts(repo, path, defname="extracted"):
    c = extract(repo)
    with open(path, "w") as f:
        f.write(coq_contracts(c, defname))
    return c


if __name__ == "__main__":
    import sys
    repo = os.environ.get("POLLIWOG_REPO", "/repo")
    c = extract(repo)
    sys.stdout.write(coq_contracts(c, sys.argv[1] if len(sys.argv) > 1 else "extracted"))
    sys.stderr.write("%d functions, %d with direct shape checks\n" % (len(c), sum(1 for v in c.values() if v)))
