"""Registry of the public API of polliwog for property C20 (clauses 2 and 3).

For every public callable: which parameters are arrays and of what kind (so that valid float64 values can be
built on dyadic grids), the DOCUMENTED single / stacked shape forms (hand-written from the docstrings), how it
is called, which callee performs the shape checks when the callable does none itself (`deleg`, validated by
probing on every run), and whether / how it is elementwise over stacks.

`enumerate_public()` introspects polliwog; `missing()` lists public callables that have no entry (the check
fails closed on any).
"""
import importlib
import inspect

import numpy as np

SUBMODULES = ["plane", "line", "segment", "tri", "transform", "shapes", "pointcloud", "polyline"]
CLASSES = ["Polyline", "Plane", "Box", "Line", "CompositeTransform", "CoordinateManager"]
SPECIAL = ("__init__", "__call__", "__len__", "__getattr__", "__setattr__")

P = "polliwog."


class E:
    def __init__(self, public, qual, params=None, forms=None, recv=None, call=None, deleg=(), stack=None,
                 mutator=False, kwargs=None, b0=None, result_rel=None, note=""):
        self.public = public            # e.g. "plane.signed_distance_to_plane" / "Plane.signed_distance"
        self.qual = P + qual            # name of the definition = key of the extracted contract
        self.params = params or {}      # ordered: array parameter -> kind
        self.forms = forms or [{}]      # documented forms: list of {param: shape tuple (ints / "k" symbols) | None}
        self.recv = recv                # receiver kind or None
        self.call = call                # callable(recv_obj, args_dict) -> result ; default: fn(**args)
        self.deleg = list(deleg)        # [(callee qual, {callee param: caller param | ("const", argv-term)})]
        self.stack = stack              # dict(args=[...], single=bool, empty=bool) or None
        self.mutator = mutator          # documented state-changing builder method (CompositeTransform / CoordinateManager)
        self.kwargs = kwargs or {}
        self.b0 = b0                    # callable(recv_obj) -> {"self.num_e": n}
        self.note = note
        self.unmodelled = set()         # array parameters that are rejected by something else than a shape check
        self.variants = []              # flag combinations (kwargs dicts); documented forms / stacks run under each
        self.model = True               # False: acceptance is not a sequence of shape checks; judged by the oracle only


K3, S3, EQ4, SEQ4 = ("k", 3), (3,), ("k", 4), (4,)

R = []


def add(*a, **k):
    R.append(E(*a, **k))


# ---- polliwog.plane --------------------------------------------------------------------------------------
PF = "plane._plane_functions."
add("plane.plane_normal_from_points", PF + "plane_normal_from_points", {"points": "tri"},
    [{"points": (3, 3)}, {"points": ("k", 3, 3)}],
    deleg=[("tri.functions.surface_normals", {"points": "points"})],
    stack=dict(args=["points"], single=True, empty=True))
add("plane.plane_equation_from_points", PF + "plane_equation_from_points", {"points": "tri"},
    [{"points": (3, 3)}, {"points": ("k", 3, 3)}], stack=dict(args=["points"], single=True, empty=True))
add("plane.normal_and_offset_from_plane_equations", PF + "normal_and_offset_from_plane_equations",
    {"plane_equations": "eq"}, [{"plane_equations": (4,)}, {"plane_equations": ("k", 4)}],
    stack=dict(args=["plane_equations"], single=True, empty=True))
for fn in ("signed_distance_to_plane", "project_point_to_plane", "mirror_point_across_plane"):
    add("plane." + fn, PF + fn, {"points": "pt", "plane_equations": "eq"},
        # the third form (one point against a stack of planes) is not in the docstring; the code admits it
        # explicitly (`-1 if k is None else k`) and computes it row by row, so it is listed as documented
        [{"points": S3, "plane_equations": SEQ4}, {"points": K3, "plane_equations": SEQ4},
         {"points": S3, "plane_equations": ("m", 4)}, {"points": K3, "plane_equations": EQ4}],
        stack=dict(args=["points", "plane_equations"], single=True, empty=True))
add("plane.intersect_segment_with_plane", "plane._plane_intersect.intersect_segment_with_plane",
    {"start_points": "pt", "segment_vectors": "vec", "points_on_plane": "pt", "plane_normals": "vec"},
    [{a: S3 for a in ("start_points", "segment_vectors", "points_on_plane", "plane_normals")},
     {a: K3 for a in ("start_points", "segment_vectors", "points_on_plane", "plane_normals")}],
    stack=dict(args=["start_points", "segment_vectors", "points_on_plane", "plane_normals"], single=True, empty=True))
add("plane.slice_triangles_by_plane", "plane._slicing.slice_triangles_by_plane",
    {"vertices": "pt", "faces": "faces", "plane_reference_point": "pt", "plane_normal": "axis",
     "faces_to_slice": "facemask"},
    [{"vertices": ("n>=4", 3), "faces": ("f", 3), "plane_reference_point": S3, "plane_normal": S3, "faces_to_slice": None},
     {"vertices": ("n>=4", 3), "faces": ("f", 3), "plane_reference_point": S3, "plane_normal": S3, "faces_to_slice": ("f",)}])

# ---- polliwog.line ------------------------------------------------------------------------------------------
add("line.intersect_lines", "line._line_intersect.intersect_lines",
    {"p0": "pt", "q0": "pt", "p1": "pt", "q1": "pt"}, [{a: S3 for a in ("p0", "q0", "p1", "q1")}])
add("line.intersect_2d_lines", "line._line_intersect.intersect_2d_lines",
    {"p0": "pt", "q0": "pt", "p1": "pt", "q1": "pt"}, [{a: (2,) for a in ("p0", "q0", "p1", "q1")}])
add("line.project_point_to_line", "line._line_functions.project_point_to_line",
    {"points": "pt", "reference_points_of_lines": "pt", "vectors_along_lines": "vec"},
    [{"points": S3, "reference_points_of_lines": S3, "vectors_along_lines": S3},
     {"points": K3, "reference_points_of_lines": S3, "vectors_along_lines": S3},
     {"points": S3, "reference_points_of_lines": ("m", 3), "vectors_along_lines": ("m", 3)},  # see signed_distance_to_plane
     {"points": K3, "reference_points_of_lines": K3, "vectors_along_lines": K3}],
    stack=dict(args=["points", "reference_points_of_lines", "vectors_along_lines"], single=True, empty=True, rtol=True))
add("line.coplanar_points_are_on_same_side_of_line", "line._line_functions.coplanar_points_are_on_same_side_of_line",
    {"a": "pt", "b": "pt", "p1": "pt", "p2": "pt"},
    [{a: S3 for a in ("a", "b", "p1", "p2")}, {a: K3 for a in ("a", "b", "p1", "p2")}],
    stack=dict(args=["a", "b", "p1", "p2"], single=True, empty=True))

# ---- polliwog.segment ----------------------------------------------------------------------------------------
SF = "segment._segment_functions."
add("segment.closest_point_of_line_segment", SF + "closest_point_of_line_segment",
    {"points": "pt", "start_points": "pt", "segment_vectors": "vec"},
    [{"points": K3, "start_points": K3, "segment_vectors": K3}],
    stack=dict(args=["points", "start_points", "segment_vectors"], single=False, empty=True))
add("segment.is_point_on_line_segment", SF + "is_point_on_line_segment",
    {"query_points": "pt", "start_points": "pt", "segment_vectors": "vec"},
    [{"query_points": K3, "start_points": K3, "segment_vectors": K3}], kwargs={"epsilon": 0.25},
    stack=dict(args=["query_points", "start_points", "segment_vectors"], single=False, empty=True))
add("segment.path_centroid", SF + "path_centroid", {"segments": "seg"}, [{"segments": ("k>=1", 2, 3)}])
add("segment.subdivide_segment", SF + "subdivide_segment", {"p1": "pt", "p2": "pt"},
    [{"p1": ("n",), "p2": ("n",)}], kwargs={"num_points": 4})
add("segment.subdivide_segments", SF + "subdivide_segments", {"v": "distinct"}, [{"v": ("k>=2", "n>=1")}])

# ---- polliwog.tri ---------------------------------------------------------------------------------------------
TF = "tri.functions."
add("tri.edges_of_faces", TF + "edges_of_faces", {"faces": "faces8"}, [{"faces": ("f", 3)}])
add("tri.surface_normals", TF + "surface_normals", {"points": "tri"}, [{"points": (3, 3)}, {"points": ("k", 3, 3)}],
    stack=dict(args=["points"], single=True, empty=True))
add("tri.surface_area", TF + "surface_area", {"vertices_of_tris": "tri"},
    [{"vertices_of_tris": (3, 3)}, {"vertices_of_tris": ("k", 3, 3)}],
    stack=dict(args=["vertices_of_tris"], single=True, empty=True))
add("tri.tri_contains_coplanar_point", TF + "tri_contains_coplanar_point",
    {"a": "pt", "b": "pt", "c": "pt", "point": "pt"},
    [{a: S3 for a in ("a", "b", "c", "point")}, {a: K3 for a in ("a", "b", "c", "point")}],
    stack=dict(args=["a", "b", "c", "point"], single=True, empty=True))
add("tri.barycentric_coordinates_of_points", TF + "barycentric_coordinates_of_points",
    {"vertices_of_tris": "tri", "points": "pt"}, [{"vertices_of_tris": ("k", 3, 3), "points": K3}],
    stack=dict(args=["vertices_of_tris", "points"], single=False, empty=True))
add("tri.sample", TF + "sample", {"vertices_of_tris": "tri", "weights": "pos"},
    [{"vertices_of_tris": ("k>=1", 3, 3), "weights": None}, {"vertices_of_tris": ("k>=1", 3, 3), "weights": ("k>=1",)}],
    kwargs={"num_samples": 5})
add("tri.quads_to_tris", "tri.quad_faces.quads_to_tris", {"quads": "faces8"}, [{"quads": ("f", 4)}])

# ---- polliwog.transform -----------------------------------------------------------------------------------------
add("transform.apply_transform", "transform._apply.apply_transform", {"transform": "mat4"}, [{"transform": (4, 4)}])
add("transform.apply_transform()", "transform._apply.apply_transform.<locals>.apply", {"points": "pt"},
    [{"points": S3}, {"points": K3}], recv="applied",
    call=lambda r, a: r(**a), stack=dict(args=["points"], single=True, empty=True, rtol=True))
# the docstring does not say how many angles; they are paired with the axes of `order` (zip): any 1-D array
add("transform.euler", "transform._rotation.euler", {"xyz": "angles"}, [{"xyz": ("n",)}])
RO = "transform._rodrigues."
add("transform.rodrigues_vector_to_rotation_matrix", RO + "rodrigues_vector_to_rotation_matrix", {"r": "rodrigues"},
    [{"r": S3}, {"r": (3, 1)}, {"r": (1, 3)}])   # "a 3x1 or 1x3 Rodrigues vector"
add("transform.rotation_matrix_to_rodrigues_vector", RO + "rotation_matrix_to_rodrigues_vector", {"r": "rot3"},
    [{"r": (3, 3)}])
add("transform.cv2_rodrigues", RO + "cv2_rodrigues", {"r": "rodrigues"}, [{"r": S3}, {"r": (3, 1)}, {"r": (1, 3)}, {"r": (3, 3)}],
    deleg=[(RO + "__cv2__", {})])
add("transform.rotation_from_up_and_look", "transform._rotation.rotation_from_up_and_look", {"up": "up", "look": "look"},
    [{"up": S3, "look": S3}])
VW = "transform._viewing."
# `up` is not checked by a shape check: a wrong `up` is rejected (ValueError) by vg.cross / by the ragged np.array of
# the rotation rows; the callable is modelled with `up` ignored (see `unmodelled` below)
add("transform.world_to_view", VW + "world_to_view", {"position": "campos", "target": "pt0", "up": "up"},
    [{"position": S3, "target": S3, "up": None}, {"position": S3, "target": S3, "up": S3}])
add("transform.view_to_orthographic_projection", VW + "view_to_orthographic_projection", {}, [{}],
    kwargs={"width": 4.0, "height": 2.0})
add("transform.viewport_transform", VW + "viewport_transform", {}, [{}], kwargs={"x_right": 8.0, "y_bottom": 4.0})
add("transform.world_to_canvas_orthographic_projection", VW + "world_to_canvas_orthographic_projection",
    {"position": "campos", "target": "pt0"}, [{"position": S3, "target": S3}], kwargs={"width": 8.0, "height": 4.0},
    deleg=[(VW + "world_to_view", {"position": "position", "target": "target"})])
AF = "transform._affine_transform."
add("transform.transform_matrix_for_non_uniform_scale", AF + "transform_matrix_for_non_uniform_scale", {}, [{}],
    kwargs={"x_factor": 2.0, "y_factor": 0.5, "z_factor": 4.0})
add("transform.transform_matrix_for_rotation", AF + "transform_matrix_for_rotation", {"rotation": "rot3"},
    [{"rotation": (3, 3)}, {"rotation": S3}])
add("transform.transform_matrix_for_translation", AF + "transform_matrix_for_translation", {"translation": "pt"},
    [{"translation": S3}])
add("transform.transform_matrix_for_uniform_scale", AF + "transform_matrix_for_uniform_scale", {}, [{}],
    kwargs={"scale_factor": 2.0})

# ---- polliwog.shapes / pointcloud / polyline ------------------------------------------------------------------------
SH = "shapes._shapes."
add("shapes.rectangular_prism", SH + "rectangular_prism", {"origin": "pt", "size": "pos"}, [{"origin": S3, "size": S3}])
add("shapes.cube", SH + "cube", {"origin": "pt"}, [{"origin": S3}], kwargs={"size": 2.0})
add("shapes.triangular_prism", SH + "triangular_prism", {"p1": "tri0", "p2": "tri1", "p3": "tri2"},
    [{"p1": S3, "p2": S3, "p3": S3}], kwargs={"height": 2.0})
PC = "pointcloud._pointcloud_functions."
add("pointcloud.extent", PC + "extent", {"points": "distinct"}, [{"points": ("k>=2", 3)}])
add("pointcloud.percentile", PC + "percentile", {"points": "pt", "axis": "axis"}, [{"points": ("k>=1", 3), "axis": S3}],
    kwargs={"percentile": 50})
add("polyline.edges_for", "polyline._edges.edges_for", {}, [{}], kwargs={"num_v": 4, "is_closed": True})
IP = "polyline._inflection_points."
add("polyline.inflection_points", IP + "inflection_points", {"points": "curve", "rise_axis": "axis_y", "run_axis": "axis_x"},
    [{"points": ("k>=4", 3), "rise_axis": S3, "run_axis": S3}])
add("polyline.point_of_max_acceleration", IP + "point_of_max_acceleration",
    {"points": "curve", "rise_axis": "axis_y", "run_axis": "axis_x"},
    [{"points": ("k>=4", 3), "rise_axis": S3, "run_axis": S3}])

# ---- Plane -----------------------------------------------------------------------------------------------------------
PO = "plane._plane_object.Plane."


def ctor(cls_name, method=None):
    def f(r, a):
        import polliwog
        c = getattr(polliwog, cls_name)
        return (c if method is None else getattr(c, method))(**a)
    return f


def meth(name):
    return lambda r, a: getattr(r, name)(**a)


def prop(name):
    return lambda r, a: getattr(r, name)


add("Plane.__init__", PO + "__init__", {"reference_point": "pt", "normal": "axis"}, [{"reference_point": S3, "normal": S3}],
    call=ctor("Plane"))
add("Plane.from_point_and_normal", PO + "from_point_and_normal", {"reference_point": "pt", "normal": "vec"},
    [{"reference_point": S3, "normal": S3}], call=ctor("Plane", "from_point_and_normal"),
    deleg=[(PO + "__init__", {"reference_point": "reference_point", "normal": "normal"})])
add("Plane.from_points", PO + "from_points", {"p1": "tri0", "p2": "tri1", "p3": "tri2"}, [{"p1": S3, "p2": S3, "p3": S3}],
    call=ctor("Plane", "from_points"))
add("Plane.from_points_and_vector", PO + "from_points_and_vector", {"p1": "tri0", "p2": "tri1", "vector": "tri2"},
    [{"p1": S3, "p2": S3, "vector": S3}], call=ctor("Plane", "from_points_and_vector"))
add("Plane.fit_from_points", PO + "fit_from_points", {"points": "cloud"}, [{"points": ("k>=4", 3)}],
    call=ctor("Plane", "fit_from_points"))
for nm in ("rounded", "serialize", "flipped"):
    add("Plane." + nm, PO + nm, recv="plane", call=meth(nm))
add("Plane.flipped_if", PO + "flipped_if", recv="plane", call=meth("flipped_if"), kwargs={"condition": True})
add("Plane.validate", PO + "validate", call=lambda r, a: __import__("polliwog").Plane.validate(
    {"referencePoint": [0.0, 1.0, 2.0], "unitNormal": [0.0, 0.0, 1.0]}))
add("Plane.deserialize", PO + "deserialize", call=lambda r, a: __import__("polliwog").Plane.deserialize(
    {"referencePoint": [0.0, 1.0, 2.0], "unitNormal": [0.0, 0.0, 1.0]}))
for nm in ("equation", "canonical_point"):
    add("Plane." + nm, PO + nm, recv="plane", call=prop(nm))
for nm in ("xy", "xz", "yz"):
    add("Plane." + nm, PO + nm, call=lambda r, a, nm=nm: getattr(__import__("polliwog").Plane, nm))
SD = P + PF + "signed_distance_to_plane"
for nm, callee in (("sign", "signed_distance_to_plane"), ("signed_distance", "signed_distance_to_plane"),
                   ("distance", "signed_distance_to_plane"), ("project_point", "project_point_to_plane"),
                   ("mirror_point", "mirror_point_across_plane")):
    add("Plane." + nm, PO + nm, {"points": "pt"}, [{"points": S3}, {"points": K3}], recv="plane", call=meth(nm),
        deleg=[(PF + callee, {"points": "points", "plane_equations": ("const", "AArr [4]")})],
        stack=dict(args=["points"], single=True, empty=True))
for nm in ("points_in_front", "points_on_or_in_front"):
    add("Plane." + nm, PO + nm, {"points": "pt"}, [{"points": K3}], recv="plane", call=meth(nm),
        deleg=[(PF + "signed_distance_to_plane", {"points": "points", "plane_equations": ("const", "AArr [4]")})])
add("Plane.line_xsection", PO + "line_xsection", {"pt": "pt", "ray": "vec"}, [{"pt": S3, "ray": S3}], recv="plane",
    call=meth("line_xsection"))
add("Plane.line_segment_xsection", PO + "line_segment_xsection", {"a": "pt", "b": "pt"}, [{"a": S3, "b": S3}], recv="plane",
    call=meth("line_segment_xsection"))
add("Plane.line_xsections", PO + "line_xsections", {"pts": "pt", "rays": "vec"}, [{"pts": K3, "rays": K3}], recv="plane",
    call=meth("line_xsections"), stack=dict(args=["pts", "rays"], single=False, empty=True))
add("Plane.line_segment_xsections", PO + "line_segment_xsections", {"a": "pt", "b": "pt"}, [{"a": K3, "b": K3}], recv="plane",
    call=meth("line_segment_xsections"), stack=dict(args=["a", "b"], single=False, empty=True),
    deleg=[(PO + "line_xsections", {"pts": "a", "rays": "b"})])
add("Plane.tilted", PO + "tilted", {"new_point": "tiltpt", "coplanar_point": "pt0"},
    [{"new_point": S3, "coplanar_point": S3}], recv="plane0", call=meth("tilted"))

# ---- Box ---------------------------------------------------------------------------------------------------------------
BO = "box._box_object.Box."
add("Box.__init__", BO + "__init__", {"origin": "pt", "size": "pos"}, [{"origin": S3, "size": S3}], call=ctor("Box"))
add("Box.from_points", BO + "from_points", {"points": "pt"}, [{"points": ("k>=1", 3)}], call=ctor("Box", "from_points"))
for nm in ("ranges", "min_x", "min_y", "min_z", "max_x", "max_y", "max_z", "mid_x", "mid_y", "mid_z", "min_x_plane",
           "min_y_plane", "min_z_plane", "max_x_plane", "max_y_plane", "max_z_plane", "width", "height", "depth",
           "center_point", "floor_point", "volume", "surface_area", "v"):
    add("Box." + nm, BO + nm, recv="box", call=prop(nm))
add("Box.contains", BO + "contains", {"point": "pt"}, [{"point": S3}], recv="box", call=meth("contains"))

# ---- Line --------------------------------------------------------------------------------------------------------------
LO = "line._line_object.Line."
add("Line.__init__", LO + "__init__", {"point": "pt", "along": "vec"}, [{"point": S3, "along": S3}], call=ctor("Line"))
add("Line.from_points", LO + "from_points", {"p1": "tri0", "p2": "tri1"}, [{"p1": S3, "p2": S3}], call=ctor("Line", "from_points"))
add("Line.reference_points", LO + "reference_points", recv="line", call=prop("reference_points"))
add("Line.intersect_line", LO + "intersect_line", recv="line", call=lambda r, a: r.intersect_line(
    __import__("polliwog").Line(np.array([0.0, 1.0, 0.0]), np.array([0.0, -1.0, 0.5]))))
add("Line.project", LO + "project", {"points": "pt"}, [{"points": S3}, {"points": K3}], recv="line", call=meth("project"),
    deleg=[("line._line_functions.project_point_to_line",
            {"points": "points", "reference_points_of_lines": ("const", "AArr [3]"),
             "vectors_along_lines": ("const", "AArr [3]")})],
    stack=dict(args=["points"], single=True, empty=True, rtol=True))

# ---- Polyline -----------------------------------------------------------------------------------------------------------
YO = "polyline._polyline_object.Polyline."
add("Polyline.__init__", YO + "__init__", {"v": "pt"}, [{"v": K3}], call=ctor("Polyline"))
add("Polyline.join", YO + "join", recv="polyline_open", call=lambda r, a: type(r).join(r, r.flipped()))
add("Polyline.__len__", YO + "__len__", recv="polyline", call=lambda r, a: len(r))
for nm in ("num_v", "num_e", "segments", "segment_vectors", "segment_lengths", "total_length", "path_centroid",
           "bounding_box"):
    add("Polyline." + nm, YO + nm, recv="polyline", call=prop(nm))
for nm in ("rounded", "serialize", "flipped"):
    add("Polyline." + nm, YO + nm, recv="polyline", call=meth(nm))
add("Polyline.validate", YO + "validate", recv="polyline", call=lambda r, a: type(r).validate(r.serialize()))
add("Polyline.deserialize", YO + "deserialize", recv="polyline", call=lambda r, a: type(r).deserialize(r.serialize()))
add("Polyline.flipped_if", YO + "flipped_if", recv="polyline", call=meth("flipped_if"), kwargs={"condition": True})
add("Polyline.index_of_vertex", YO + "index_of_vertex", {"point": "vertex"}, [{"point": S3}], recv="polyline",
    call=meth("index_of_vertex"))
add("Polyline.with_insertions", YO + "with_insertions", {"points": "pt", "indices": "insidx"},
    [{"points": K3, "indices": ("k",)}], recv="polyline", call=meth("with_insertions"))
add("Polyline.aligned_with", YO + "aligned_with", {"vector": "vec"}, [{"vector": S3}], recv="polyline_open", call=meth("aligned_with"))
add("Polyline.aligned_along_subsegment", YO + "aligned_along_subsegment", {"p1": "pt", "p2": "pt"}, [{"p1": S3, "p2": S3}],
    recv="polyline_open", call=meth("aligned_along_subsegment"),
    deleg=[(YO + "nearest", {"points": "p1"}), (YO + "nearest", {"points": "p2"})])
add("Polyline.rolled", YO + "rolled", recv="polyline_closed", call=meth("rolled"), kwargs={"index": 2})
add("Polyline.subdivided_by_length", YO + "subdivided_by_length", {"edges_to_subdivide": "mask"},
    [{"edges_to_subdivide": None}, {"edges_to_subdivide": ("self.num_e",)}], recv="polyline",
    call=meth("subdivided_by_length"), kwargs={"max_length": 0.75}, b0=lambda r: {"self.num_e": r.num_e})
add("Polyline.with_segments_bisected", YO + "with_segments_bisected", {"segment_indices": "segidx"},
    [{"segment_indices": ("m>=1",)}], recv="polyline", call=meth("with_segments_bisected"))
add("Polyline.apex", YO + "apex", {"axis": "vec"}, [{"axis": S3}], recv="polyline", call=meth("apex"),
    deleg=[("vg.core.apex", {"points": ("const", "AArr [7; 3]"), "along": "axis"})])   # external (vg), hand-written contract
add("Polyline.intersect_plane", YO + "intersect_plane", recv="polyline",
    call=lambda r, a: r.intersect_plane(__import__("polliwog").Plane((r.v[0] + r.v[1]) / 2, np.array([1.0, 0.0, 0.0])), **a))
add("Polyline.sliced_by_plane", YO + "sliced_by_plane", recv="polyline_open",
    call=lambda r, a: r.sliced_by_plane(__import__("polliwog").Plane((r.v[0] + r.v[1]) / 2, np.array([1.0, 0.0, 0.0]))))
add("Polyline.sliced_at_indices", YO + "sliced_at_indices", recv="polyline", call=meth("sliced_at_indices"),
    kwargs={"start": 1, "stop": 3})
add("Polyline.nearest", YO + "nearest", {"points": "nearpoly"}, [{"points": S3}, {"points": K3}], recv="polyline",
    call=meth("nearest"), stack=dict(args=["points"], single=True, empty=False))
add("Polyline.sliced_at_points", YO + "sliced_at_points", {"start_point": "vertex", "end_point": "vertex2"},
    [{"start_point": S3, "end_point": S3}], recv="polyline_open", call=meth("sliced_at_points"))
add("Polyline.sectioned", YO + "sectioned", {"section_breakpoints": "breaks"}, [{"section_breakpoints": ("m",)}],
    recv="polyline_open", call=meth("sectioned"))
add("Polyline.point_along_path", YO + "point_along_path", {"fraction_of_total": "frac"},
    [{"fraction_of_total": "number"}, {"fraction_of_total": ("k",)}], recv="polyline", call=meth("point_along_path"),
    stack=dict(args=["fraction_of_total"], single=True, empty=True, scalar_single=True))

# ---- CompositeTransform / CoordinateManager -------------------------------------------------------------------------------
CT = "transform._composite_transform.CompositeTransform."
APPLY = "transform._apply.apply_transform.<locals>.apply"
add("CompositeTransform.__init__", CT + "__init__", call=ctor("CompositeTransform"))
add("CompositeTransform.__call__", CT + "__call__", {"points": "pt"}, [{"points": S3}, {"points": K3}], recv="ct",
    call=lambda r, a: r(**a), deleg=[(APPLY, {"points": "points"})],
    stack=dict(args=["points"], single=True, empty=True, rtol=True))
add("CompositeTransform.transform_matrix_for", CT + "transform_matrix_for", recv="ct", call=meth("transform_matrix_for"))
for cls, pre, rk in (("CompositeTransform", CT, "ct"), ("CoordinateManager", "transform._coordinate_manager.CoordinateManager.", "cm")):
    ctd = [] if cls == "CompositeTransform" else None

    def dl(name, wiring, cls=cls):
        # CoordinateManager forwards *args/**kwargs to its CompositeTransform
        inner = [(CT + name, {k: k for k in wiring})] if cls == "CoordinateManager" else []
        return inner

    add(cls + ".append_transform", pre + "append_transform", {"forward": "mat4", "reverse": "mat4"},
        [{"forward": (4, 4), "reverse": None}, {"forward": (4, 4), "reverse": (4, 4)}], recv=rk, mutator=True,
        call=meth("append_transform"), deleg=dl("append_transform", ["forward", "reverse"]))
    add(cls + ".uniform_scale", pre + "uniform_scale", recv=rk, mutator=True, call=meth("uniform_scale"), kwargs={"factor": 2.0})
    add(cls + ".non_uniform_scale", pre + "non_uniform_scale", recv=rk, mutator=True, call=meth("non_uniform_scale"),
        kwargs={"x_factor": 2.0, "y_factor": 0.5, "z_factor": 4.0})
    add(cls + ".convert_units", pre + "convert_units", recv=rk, mutator=True, call=meth("convert_units"),
        kwargs={"from_units": "cm", "to_units": "m"})
    add(cls + ".flip", pre + "flip", recv=rk, mutator=True, call=meth("flip"), kwargs={"dim": 1})
    add(cls + ".translate", pre + "translate", {"translation": "pt"}, [{"translation": S3}], recv=rk, mutator=True,
        call=meth("translate"),
        deleg=(dl("translate", ["translation"]) if cls == "CoordinateManager" else
               [(AF + "transform_matrix_for_translation", {"translation": "translation"})]))
    add(cls + ".reorient", pre + "reorient", {"up": "up", "look": "look"}, [{"up": S3, "look": S3}], recv=rk, mutator=True,
        call=meth("reorient"),
        deleg=(dl("reorient", ["up", "look"]) if cls == "CoordinateManager" else
               [("transform._rotation.rotation_from_up_and_look", {"up": "up", "look": "look"})]))
    add(cls + ".rotate", pre + "rotate", {"rotation": "rot3"}, [{"rotation": (3, 3)}, {"rotation": S3}], recv=rk, mutator=True,
        call=meth("rotate"),
        deleg=(dl("rotate", ["rotation"]) if cls == "CoordinateManager" else
               [(AF + "transform_matrix_for_rotation", {"rotation": "rotation"})]))
CM = "transform._coordinate_manager.CoordinateManager."
add("CoordinateManager.__init__", CM + "__init__", call=ctor("CoordinateManager"))
add("CoordinateManager.tag_as", CM + "tag_as", recv="cm", mutator=True, call=meth("tag_as"), kwargs={"name": "zz"})
add("CoordinateManager.do_transform", CM + "do_transform", {"points": "pt"}, [{"points": S3}, {"points": K3}], recv="cm",
    call=meth("do_transform"), kwargs={"from_tag": "a", "to_tag": "c"},
    deleg=[(CT + "__call__", {"points": "points"})], stack=dict(args=["points"], single=True, empty=True, rtol=True))
add("CoordinateManager.__setattr__", CM + "__setattr__", {"points": "pt"}, [{"points": K3}], recv="cm", mutator=True,
    call=lambda r, a: setattr(r, "b", a["points"]))
add("CoordinateManager.__getattr__", CM + "__getattr__", recv="cm", call=lambda r, a: r.c)

# second-level delegation: a delegate whose callee itself delegates (resolved transitively by `effective_delegs`)
SECOND = {
    P + CT + "__call__": [(P + APPLY, {"points": "points"})],
    P + CT + "translate": [(P + AF + "transform_matrix_for_translation", {"translation": "translation"})],
    P + CT + "reorient": [(P + "transform._rotation.rotation_from_up_and_look", {"up": "up", "look": "look"})],
    P + CT + "rotate": [(P + AF + "transform_matrix_for_rotation", {"rotation": "rotation"})],
    P + PO + "line_xsections": [],
}

# fix-ups of placeholder rows
for e in R:
    e.deleg = [(P + c if not (c.startswith(P) or c.startswith("vg.")) else c, w) for c, w in e.deleg
               if not c.endswith("__delegates__") and not c.endswith("__cv2__")]
    if e.public == "transform.cv2_rodrigues":
        e.deleg = []

BY_PUBLIC = {e.public: e for e in R}


# ---- flag combinations ("rarely used argument forms"): every documented form and every stacked-vs-row comparison is
#      run under each of them, and on one object in sequence (state carried between calls) -------------------------
def _prod(**opts):
    import itertools
    keys = list(opts)
    return [dict(zip(keys, vals)) for vals in itertools.product(*[opts[k] for k in keys])]


def variants(public, vs):
    BY_PUBLIC[public].variants = vs


variants("transform.apply_transform()", _prod(discard_z_coord=[False, True], treat_input_as_vector=[False, True]))
variants("CompositeTransform.__call__", _prod(reverse=[False, True], from_range=[None, (1, 3)],
                                              discard_z_coord=[False, True], treat_input_as_vector=[False, True]))
variants("CompositeTransform.transform_matrix_for", _prod(reverse=[False, True], from_range=[None, (0, 2), (1, 3)]))
variants("CoordinateManager.do_transform", [dict(from_tag="a", to_tag="c"), dict(from_tag="c", to_tag="a"),
                                            dict(from_tag="b", to_tag="c"), dict(from_tag="c", to_tag="b")])
variants("segment.closest_point_of_line_segment", _prod(ret_t_values=[False, True]))
variants("Polyline.nearest", _prod(ret_segment_indices=[False, True], ret_distances=[False, True], ret_t_values=[False, True]))
for _n in ("Plane.points_in_front", "Plane.points_on_or_in_front"):
    variants(_n, _prod(inverted=[False, True], ret_indices=[False, True]))
for _n in ("tri.surface_normals", "plane.plane_normal_from_points", "tri.edges_of_faces"):
    variants(_n, _prod(normalize=[True, False]))
variants("pointcloud.extent", _prod(ret_indices=[False, True]))
variants("tri.quads_to_tris", _prod(ret_mapping=[False, True]))
variants("plane.slice_triangles_by_plane", _prod(ret_face_mapping=[False, True]))
for _n in ("shapes.rectangular_prism", "shapes.cube", "shapes.triangular_prism"):
    variants(_n, _prod(ret_unique_vertices_and_faces=[False, True]))
for _n in ("transform.transform_matrix_for_non_uniform_scale", "transform.transform_matrix_for_rotation",
           "transform.transform_matrix_for_translation", "transform.transform_matrix_for_uniform_scale"):
    variants(_n, _prod(ret_inverse_matrix=[False, True]))
for _n in ("transform.world_to_view", "transform.view_to_orthographic_projection", "transform.viewport_transform",
           "transform.world_to_canvas_orthographic_projection"):
    variants(_n, _prod(inverse=[False, True]))
variants("transform.euler", [dict(), dict(units="rad"), dict(order="zyx"), dict(order="yxz", units="rad")])
variants("tri.sample", _prod(ret_face_indices=[False, True]))
variants("Polyline.with_insertions", _prod(ret_new_indices=[False, True]))
variants("Polyline.subdivided_by_length", _prod(ret_indices=[False, True]))
variants("Polyline.rolled", _prod(ret_edge_mapping=[False, True]))
variants("Polyline.intersect_plane", _prod(ret_edge_indices=[False, True]))
variants("Polyline.with_segments_bisected", _prod(ret_new_indices=[False, True]))
variants("Polyline.sectioned", _prod(copy_vs=[False, True]))
variants("Polyline.flipped_if", _prod(condition=[True, False]))
variants("Plane.flipped_if", _prod(condition=[True, False]))
variants("Box.contains", [dict(), dict(atol=0.5)])
variants("Line.__init__", _prod(assume_normalized=[False, True]))
variants("Polyline.__init__", _prod(is_closed=[False, True]))
BY_PUBLIC["transform.cv2_rodrigues"].model = False   # dispatches on r.size == 3 / r.shape == (3, 3), else ValueError
# `up` is rejected by vg.cross / np.array, not by a shape check: the callable is modelled with `up` ignored; a probe that
# passes `up` is judged by the oracle only
BY_PUBLIC["transform.world_to_view"].unmodelled = {"up"}

# contracts of the checks done OUTSIDE polliwog (vg), hand-written from site-packages/vg/core.py (trusted)
EXTERNAL = [("vg.core.apex", ['Check "points" [DAny; DInt 3] None', 'Check "along" [DInt 3] None'])]


def effective_delegs(e):
    """own delegates, with delegates of delegates appended (wiring composed)"""
    out = []
    for callee, w in e.deleg:
        out.append((callee, w))
        for c2, w2 in SECOND.get(callee, []):
            comp = {}
            for k2, src in w2.items():
                if isinstance(src, tuple):
                    comp[k2] = src
                elif src in w:
                    comp[k2] = w[src]
            out.append((c2, comp))
    return out


# ---- enumeration of the real public API (fail closed) --------------------------------------------------------------------
def enumerate_public():
    import polliwog
    names = []
    for sub in SUBMODULES:
        m = importlib.import_module("polliwog." + sub)
        for n in m.__all__:
            if callable(getattr(m, n)) and not inspect.isclass(getattr(m, n)):
                names.append("%s.%s" % (sub, n))
    for cn in polliwog.__all__:
        cls = getattr(polliwog, cn)
        for n, v in cls.__dict__.items():
            if n.startswith("_") and n not in SPECIAL:
                continue
            st = inspect.getattr_static(cls, n)
            if isinstance(st, (property, classmethod, staticmethod)) or inspect.isfunction(st) or isinstance(st, cls):
                names.append("%s.%s" % (cn, n))
    return sorted(set(names))


def missing():
    have = set(BY_PUBLIC)
    return [n for n in enumerate_public() if n not in have]


# parameters that are not arrays (flags, scalars, tags, objects, forwarders); every other parameter of a public
# signature must be an array parameter of its registry entry -- `unregistered_parameters()` fails closed otherwise
NON_ARRAY = {
    "normalize", "ret_face_mapping", "ret_t_values", "epsilon", "num_points", "endpoint", "num_subdivisions", "num_samples",
    "rng", "ret_points", "ret_face_indices", "ret_mapping", "order", "units", "calculate_jacobian", "inverse", "width",
    "height", "near", "far", "x_right", "y_bottom", "x_left", "y_top", "zoom", "x_factor", "y_factor", "z_factor",
    "allow_flipping", "ret_inverse_matrix", "scale_factor", "ret_unique_vertices_and_faces", "size:cube", "ret_indices",
    "percentile", "num_v", "is_closed", "subdivide_by_length", "self", "cls", "direction_decimals", "position_decimals",
    "decimals", "data", "condition", "inverted", "atol", "assume_normalized", "other", "polylines", "index",
    "ret_edge_mapping", "max_length", "ret_new_indices", "plane", "ret_edge_indices", "start", "stop",
    "ret_segment_indices", "ret_distances", "copy_vs", "from_range", "reverse", "discard_z_coord", "treat_input_as_vector",
    "factor", "from_units", "to_units", "dim", "args", "kwargs", "name:tag_as", "from_tag", "to_tag", "name:__getattr__",
    "name:__setattr__", "height:triangular_prism", "ret_indices",
}


def unregistered_parameters():
    import polliwog
    bad = []
    for e in R:
        if e.public.endswith("()"):
            continue
        head, name = e.public.split(".")
        obj = getattr(importlib.import_module("polliwog." + head), name) if head in SUBMODULES else \
            inspect.getattr_static(getattr(polliwog, head), name)
        if isinstance(obj, property) or not callable(getattr(obj, "__func__", obj)):
            continue
        try:
            sig = inspect.signature(getattr(obj, "__func__", obj))
        except (TypeError, ValueError):
            continue
        for pname in sig.parameters:
            if pname in e.params or pname in NON_ARRAY or ("%s:%s" % (pname, name)) in NON_ARRAY:
                continue
            bad.append("%s(%s)" % (e.public, pname))
    return bad


def stale():
    pub = set(enumerate_public())
    return [e.public for e in R if e.public not in pub and not e.public.endswith("()")]
