#!/venv/bin/python
"""Dynamic audit of the call forms the harnesses reach (a reading aid for the tie, not a check).

Every function and method defined in polliwog is wrapped; the quick case streams of all twenty property harnesses
(tools/props/<ID>.py: gen_cases + run_impl, seed 1, plus the corpus) are run against /repo, and for every OPTIONAL
parameter of every public callable the wrapper records which non-default values the harness itself passed (calls made
by polliwog internally, i.e. below another wrapped call, are not counted).  A model that omits a parameter claims the
code ignores it; this table shows where that claim is observed and where it is not (seeded change C18_r7_1 was missed
because `Line(..., assume_normalized=True)` was never called).  Output: docs/PARAM_AUDIT.md.
usage: tools/param_audit.py [ID ...]"""
import importlib, inspect, json, os, pkgutil, random, sys

VERIF = os.path.dirname(os.path.dirname(os.path.abspath(__file__)))
REPO = os.environ.get("POLLIWOG_REPO", "/repo")
sys.path.insert(0, os.path.join(VERIF, "tools"))
sys.path.insert(0, REPO)
os.environ.setdefault("POLLIWOG_VERIF", "1")

import numpy as np  # noqa: E402
import polliwog  # noqa: E402

DEPTH = [0]
CURRENT = ["-"]
PARAMS = {}      # (qualname, param) -> default repr
SEEN = {}        # (qualname, param) -> {value repr: set(property ids)}
CALLS = {}       # qualname -> set(property ids)


def _short(v):
    if isinstance(v, np.ndarray):
        return "ndarray%s:%s" % (list(v.shape), v.dtype)
    r = repr(v)
    return r if len(r) <= 40 else type(v).__name__


def _differs(v, d):
    if v is d:
        return False
    try:
        if isinstance(v, np.ndarray) or isinstance(d, np.ndarray):
            return True
        return not bool(v == d) or type(v) is not type(d)
    except Exception:  # noqa
        return True


def wrap(fn, qual):
    try:
        sig = inspect.signature(fn)
    except (TypeError, ValueError):
        return fn
    opt = [p for p in sig.parameters.values() if p.default is not inspect.Parameter.empty]
    for p in opt:
        PARAMS[(qual, p.name)] = repr(p.default)

    def wrapper(*a, **k):
        top = DEPTH[0] == 0
        if top:
            CALLS.setdefault(qual, set()).add(CURRENT[0])
            try:
                b = sig.bind(*a, **k)
                for p in opt:
                    if p.name in b.arguments and _differs(b.arguments[p.name], p.default):
                        SEEN.setdefault((qual, p.name), {}).setdefault(_short(b.arguments[p.name]), set()).add(CURRENT[0])
            except TypeError:
                pass
        DEPTH[0] += 1
        try:
            return fn(*a, **k)
        finally:
            DEPTH[0] -= 1

    wrapper.__name__ = getattr(fn, "__name__", "f")
    wrapper.__qualname__ = getattr(fn, "__qualname__", "f")
    wrapper.__doc__ = fn.__doc__
    wrapper.__module__ = fn.__module__
    wrapper.__wrapped__ = fn
    return wrapper


def install():
    mods = [polliwog]
    for m in pkgutil.walk_packages(polliwog.__path__, "polliwog."):
        if ".test_" in m.name or m.name.endswith("conftest"):
            continue
        try:
            mods.append(importlib.import_module(m.name))
        except (Exception, SystemExit):  # noqa  (optional dependencies; a script that demands opencv exits)
            pass
    repl = {}
    for mod in mods:
        for name, obj in list(vars(mod).items()):
            if inspect.isfunction(obj) and obj.__module__ == mod.__name__ and id(obj) not in repl:
                short = mod.__name__.replace("polliwog.", "").split("._")[0]
                repl[id(obj)] = (obj, wrap(obj, "%s.%s" % (short, name)))
            elif inspect.isclass(obj) and obj.__module__ == mod.__name__:
                for mn, mv in list(vars(obj).items()):
                    q = "%s.%s" % (obj.__name__, mn)
                    if isinstance(mv, classmethod):
                        setattr(obj, mn, classmethod(wrap(mv.__func__, q)))
                    elif isinstance(mv, staticmethod):
                        setattr(obj, mn, staticmethod(wrap(mv.__func__, q)))
                    elif inspect.isfunction(mv) and (not mn.startswith("_") or mn == "__init__"):
                        setattr(obj, mn, wrap(mv, q))
    for mod in mods:
        for name, obj in list(vars(mod).items()):
            if id(obj) in repl and repl[id(obj)][0] is obj:
                setattr(mod, name, repl[id(obj)][1])


def main():
    ids = sys.argv[1:] or ["C%02d" % i for i in range(1, 21)]
    install()
    counts = {}
    for pid in ids:
        CURRENT[0] = pid
        mod = importlib.import_module("props." + pid)
        rng = random.Random(1 * 7919 + 17)
        cases = []
        cdir = os.path.join(VERIF, "corpus", pid)
        if os.path.isdir(cdir):
            for fn in sorted(os.listdir(cdir)):
                if fn.endswith(".json"):
                    cases.append(json.load(open(os.path.join(cdir, fn))))
        cases.extend(mod.gen_cases(rng, mod.N_CASES["quick"], "quick"))
        for c in cases:
            DEPTH[0] = 0
            try:
                mod.run_impl(c)
            except Exception:  # noqa
                pass
        counts[pid] = len(cases)
        print(pid, len(cases), "cases", file=sys.stderr)
    public = sorted({q for (q, _) in PARAMS if not q.split(".")[-1].startswith("_") or q.endswith("__init__")})
    lines = ["# Optional parameters reached by the harnesses (generated by tools/param_audit.py; a reading aid)", "",
             "Quick case streams (seed 1) + corpus of %s, run against %s with every polliwog function wrapped; only calls made by "
             "the harness itself are counted (not polliwog's internal calls). %d cases in all." % (
                 ", ".join(ids), REPO, sum(counts.values())), "",
             "| callable | optional parameter | default | non-default values passed by a harness (property ids) |", "|---|---|---|---|"]
    never, uncalled = [], []
    for (q, p), d in sorted(PARAMS.items()):
        if q not in public or p == "self":
            continue
        seen = SEEN.get((q, p), {})
        if q not in CALLS:
            uncalled.append(q)
        if not seen:
            never.append((q, p, d))
        vals = "; ".join("%s (%s)" % (v, ",".join(sorted(s))) for v, s in sorted(seen.items())[:5])
        if len(seen) > 5:
            vals += "; ... %d distinct" % len(seen)
        lines.append("| %s | %s | %s | %s |" % (q, p, d, vals or ("**never**" if q in CALLS else "(callable not called directly)")))
    lines += ["", "## Optional parameters never given a non-default value by any harness", ""]
    lines += ["* `%s(%s=%s)`%s" % (q, p, d, "" if q in CALLS else " — callable never called directly by a harness") for q, p, d in never] or ["(none)"]
    open(os.path.join(VERIF, "docs", "PARAM_AUDIT.md"), "w").write("\n".join(lines) + "\n")
    print("parameters: %d, never non-default: %d" % (len([1 for (q, _) in PARAMS if q in public]), len(never)))
    for q, p, d in never:
        print("  never:", q, p, d, "" if q in CALLS else "(not called directly)")


if __name__ == "__main__":
    main()
