"""Concolic tracing translator: runs the REAL polliwog code from /repo on numpy object arrays whose
elements are `Sym` scalars (expression DAG + concrete value), and emits the computed expressions as
let-bound Gallina over the `NumOps` record of coq/Num.v.

A trace is for fixed array sizes and one decided path; every comparison decided on the concrete
values is logged and emitted as the path condition `<name>_path`.
"""
import contextlib
import math
import numbers
import sys
from fractions import Fraction

import numpy as np


class TraceError(Exception):
    pass


class Tracer:
    def __init__(self):
        self.nodes = []  # (op, args...)
        self.memo = {}
        self.preds = []  # (op, a_id, b_id, outcome)
        self.vars = []  # names in order

    def mk(self, op, *args):
        key = (op,) + args
        i = self.memo.get(key)
        if i is None:
            i = len(self.nodes)
            self.nodes.append(key)
            self.memo[key] = i
        return i

    def var(self, name, value):
        if name in self.vars:
            raise TraceError("duplicate variable " + name)
        self.vars.append(name)
        return Sym(self, self.mk("var", name), _frac(value))

    def const(self, value):
        f = _frac(value)
        return Sym(self, self.mk("const", f.numerator, f.denominator), f)

    def lift(self, x):
        if isinstance(x, Sym):
            if x.t is not self:
                raise TraceError("Sym from another tracer")
            return x
        if isinstance(x, (bool, np.bool_)):
            return self.const(1 if x else 0)
        if isinstance(x, (int, float, Fraction, np.integer, np.floating)):
            return self.const(x)
        raise TraceError("cannot lift %r of type %s" % (x, type(x)))


def _frac(v):
    if isinstance(v, Fraction):
        return v
    if isinstance(v, (int, np.integer)):
        return Fraction(int(v))
    v = float(v)
    if math.isnan(v) or math.isinf(v):
        raise TraceError("non-finite constant in trace")
    return Fraction(v)


def _fsqrt(f):
    # concrete value only steers comparisons: 1e-30 relative accuracy
    if f < 0:
        raise TraceError("sqrt of negative concrete value")
    n, d = f.numerator, f.denominator
    s = 10 ** 30
    return Fraction(math.isqrt(n * d * s * s), d * s)


class Sym:
    __slots__ = ("t", "i", "v")

    def __init__(self, t, i, v):
        self.t, self.i, self.v = t, i, v

    # -- arithmetic -------------------------------------------------------------------------
    def _bin(self, other, op, swap=False):
        if isinstance(other, np.ndarray):
            return NotImplemented
        try:
            o = self.t.lift(other)
        except TraceError:
            return NotImplemented
        a, b = (o, self) if swap else (self, o)
        if op == "add":
            v = a.v + b.v
        elif op == "sub":
            v = a.v - b.v
        elif op == "mul":
            v = a.v * b.v
        elif op == "div":
            if b.v == 0:
                raise ZeroDivisionError("symbolic division by concrete zero")
            v = a.v / b.v
        return Sym(self.t, self.t.mk(op, a.i, b.i), v)

    def __add__(self, o): return self._bin(o, "add")
    def __radd__(self, o): return self._bin(o, "add", True)
    def __sub__(self, o): return self._bin(o, "sub")
    def __rsub__(self, o): return self._bin(o, "sub", True)
    def __mul__(self, o): return self._bin(o, "mul")
    def __rmul__(self, o): return self._bin(o, "mul", True)
    def __truediv__(self, o): return self._bin(o, "div")
    def __rtruediv__(self, o): return self._bin(o, "div", True)

    def __neg__(self): return Sym(self.t, self.t.mk("neg", self.i), -self.v)
    def __pos__(self): return self
    def __abs__(self): return Sym(self.t, self.t.mk("abs", self.i), abs(self.v))

    def __pow__(self, e):
        if isinstance(e, Sym):
            raise TraceError("symbolic exponent")
        if e == 2:
            return self * self
        if e == 3:
            return self * self * self
        if e == 0.5:
            return self.sqrt()
        if e == -1:
            return 1 / self
        raise TraceError("unsupported power %r" % (e,))

    def sqrt(self): return Sym(self.t, self.t.mk("sqrt", self.i), _fsqrt(self.v))
    def cos(self): return Sym(self.t, self.t.mk("cos", self.i), Fraction(math.cos(float(self.v))))
    def sin(self): return Sym(self.t, self.t.mk("sin", self.i), Fraction(math.sin(float(self.v))))
    def arccos(self): return Sym(self.t, self.t.mk("acos", self.i), Fraction(math.acos(float(self.v))))
    def radians(self): return self * self.t.const(math.pi) / 180
    def deg2rad(self): return self.radians()
    def conjugate(self): return self
    def square(self): return self * self
    def fabs(self): return abs(self)

    # -- comparisons: decided on the concrete value, logged -----------------------------------
    def _cmp(self, other, op):
        if isinstance(other, np.ndarray):
            return NotImplemented
        if isinstance(other, (float, np.floating)) and math.isinf(other):
            # comparison with +-inf (e.g. np.clip(x, 0, np.inf)): same outcome for every finite real, nothing to log
            b = float(other)
            return {"lt": b > 0, "le": b > 0, "gt": b < 0, "ge": b < 0, "eq": False, "ne": True}[op]
        o = self.t.lift(other)
        a, b = self.v, o.v
        r = {"lt": a < b, "le": a <= b, "gt": a > b, "ge": a >= b, "eq": a == b, "ne": a != b}[op]
        self.t.preds.append((op, self.i, o.i, bool(r)))
        return bool(r)

    def __lt__(self, o): return self._cmp(o, "lt")
    def __le__(self, o): return self._cmp(o, "le")
    def __gt__(self, o): return self._cmp(o, "gt")
    def __ge__(self, o): return self._cmp(o, "ge")
    def __eq__(self, o):
        if o is None:
            return False
        return self._cmp(o, "eq")
    def __ne__(self, o):
        if o is None:
            return True
        return self._cmp(o, "ne")
    def __bool__(self):
        return self._cmp(0, "ne")
    def __hash__(self): return hash((id(self.t), self.i))

    def sign(self):
        raise TraceError("np.sign ufunc loop on Sym")

    # -- conversions: fail closed ------------------------------------------------------------
    def __float__(self):
        raise TraceError("float() of a symbolic value (symbol would be lost)")
    def __int__(self):
        raise TraceError("int() of a symbolic value")
    def __index__(self):
        raise TraceError("index() of a symbolic value")
    def __repr__(self): return "Sym#%d(%s)" % (self.i, float(self.v))

    # numpy asks these of object elements
    def isnan(self): return False
    def isfinite(self): return True


numbers.Real.register(Sym)


# ---------------------------------------------------------------------------------------------
# numpy shim: constructors that would create float64 arrays create object arrays of Sym constants
# ---------------------------------------------------------------------------------------------
_FLOAT_DTYPES = (float, np.float64, np.double, "float", "float64", "double", "d", "f8")


class _ShimFloat64Meta(type):
    dtype = property(lambda cls: np.dtype(object))

    def __call__(cls, x=0.0):
        if isinstance(x, Sym):
            return x
        return np.float64(x)

    def __instancecheck__(cls, inst):
        return isinstance(inst, (np.float64, Sym))


class _ShimFloat64(metaclass=_ShimFloat64Meta):
    pass


class NpShim:
    def __init__(self, tracer):
        object.__setattr__(self, "_t", tracer)

    def __getattr__(self, name):
        return getattr(np, name)

    def _wrap(self, arr):
        t = self._t
        out = np.empty(arr.shape, dtype=object)
        flat_in = arr.reshape(-1)
        flat_out = out.reshape(-1)
        for k in range(flat_in.shape[0]):
            flat_out[k] = t.lift(flat_in[k].item() if hasattr(flat_in[k], "item") else flat_in[k])
        return out

    def _is_float_dtype(self, dtype):
        if dtype is None:
            return False
        if dtype is _ShimFloat64:
            return True  # `np.float64` read through this shim by the traced module (dtype=np.float64)
        try:
            return np.dtype(dtype).kind == "f"
        except TypeError:
            return False

    def _has_sym(self, x):
        a = np.asarray(x, dtype=object) if not isinstance(x, np.ndarray) else x
        if a.dtype != object:
            return False
        return any(isinstance(e, Sym) for e in a.reshape(-1))

    def array(self, x, dtype=None, **kw):
        kw.pop("copy", None)
        if isinstance(x, np.ndarray) and x.dtype == object:
            return np.array(x, dtype=object)
        if self._has_sym(x):
            return self._wrap(np.array(x, dtype=object))
        if self._is_float_dtype(dtype):
            return self._wrap(np.array(x, dtype=np.float64))
        return np.array(x, dtype=dtype, **kw)

    def asarray(self, x, dtype=None, **kw):
        if isinstance(x, np.ndarray) and x.dtype == object:
            return x
        return self.array(x, dtype=dtype, **kw)

    def ascontiguousarray(self, x, dtype=None):
        return self.asarray(x, dtype=dtype)

    def zeros(self, shape, dtype=float, **kw):
        if self._is_float_dtype(dtype):
            return self._wrap(np.zeros(shape))
        return np.zeros(shape, dtype=dtype, **kw)

    def ones(self, shape, dtype=float, **kw):
        if self._is_float_dtype(dtype):
            return self._wrap(np.ones(shape))
        return np.ones(shape, dtype=dtype, **kw)

    def empty(self, shape, dtype=float, **kw):
        if self._is_float_dtype(dtype):
            return self._wrap(np.zeros(shape))
        return np.empty(shape, dtype=dtype, **kw)

    def eye(self, n, *a, dtype=float, **kw):
        if self._is_float_dtype(dtype):
            return self._wrap(np.eye(n, *a, **kw))
        return np.eye(n, *a, dtype=dtype, **kw)

    def identity(self, n, dtype=float):
        return self.eye(n, dtype=dtype)

    def zeros_like(self, a, dtype=None, **kw):
        a = np.asarray(a)
        if a.dtype == object or self._is_float_dtype(dtype or a.dtype):
            return self._wrap(np.zeros(a.shape))
        return np.zeros_like(a, dtype=dtype, **kw)

    def full(self, shape, fill_value, dtype=None, **kw):
        if isinstance(fill_value, float) and fill_value != fill_value:
            # a NaN-filled output buffer: plain float NaN elements (flatten_result reports them as {"nan": True};
            # arithmetic of a NaN element with a symbol still raises `non-finite constant`)
            out = np.empty(shape, dtype=object)
            out[...] = float("nan")
            return out
        if isinstance(fill_value, Sym) or self._is_float_dtype(dtype) or isinstance(fill_value, float):
            out = np.empty(shape, dtype=object)
            out[...] = self._t.lift(fill_value)
            return out
        return np.full(shape, fill_value, dtype=dtype, **kw)

    full._nan_aware = True

    def divide(self, a, b, out=None, where=True, **kw):
        """np.divide with out= / where= on symbolic arrays: a / b where the (concrete) mask is true, `out` elsewhere."""
        aa, bb = np.asarray(a), np.asarray(b)
        if aa.dtype != object and bb.dtype != object and not isinstance(a, Sym) and not isinstance(b, Sym) \
                and (out is None or np.asarray(out).dtype != object):
            return np.divide(a, b, out=out, where=where, **kw) if out is not None or where is not True else np.divide(a, b, **kw)
        aa, bb, ww = np.broadcast_arrays(aa, bb, np.asarray(where, dtype=bool))
        res = np.empty(aa.shape, dtype=object)
        if out is not None:
            res[...] = np.asarray(out, dtype=object)
        elif not ww.all():
            raise TraceError("np.divide with where= but without out=")
        fr, fa, fb, fw = res.reshape(-1), aa.reshape(-1), bb.reshape(-1), ww.reshape(-1)
        for i in range(fr.shape[0]):
            if fw[i]:
                fr[i] = self._t.lift(fa[i]) / self._t.lift(fb[i])
        return res

    true_divide = divide

    def sign(self, x):
        if isinstance(x, Sym):
            return 1 if x > 0 else (-1 if x < 0 else 0)
        a = np.asarray(x)
        if a.dtype != object:
            return np.sign(x)
        out = np.empty(a.shape, dtype=np.int64)
        fo = out.reshape(-1)
        for k, e in enumerate(a.reshape(-1)):
            fo[k] = 1 if e > 0 else (-1 if e < 0 else 0)
        return out

    def nan_to_num(self, x, *a, **kw):
        arr = np.asarray(x)
        if arr.dtype == object or isinstance(x, Sym):
            return x
        return np.nan_to_num(x, *a, **kw)

    def isnan(self, x):
        arr = np.asarray(x)
        if arr.dtype == object:
            return np.zeros(arr.shape, dtype=bool)
        return np.isnan(x)

    def isfinite(self, x):
        arr = np.asarray(x)
        if arr.dtype == object:
            return np.ones(arr.shape, dtype=bool)
        return np.isfinite(x)

    def radians(self, x):
        if isinstance(x, Sym):
            return x.radians()
        arr = np.asarray(x)
        if arr.dtype == object:
            return arr * self._t.const(math.pi) / 180
        return np.radians(x)

    deg2rad = radians

    # `np.float64` as the traced module sees it: callable like the scalar type (a symbol passes through), and usable as a
    # dtype — it stands for "array of (symbolic) reals", i.e. dtype object, so that `x.astype(np.float64)`,
    # `np.asarray(x, dtype=np.float64)` and `x.dtype == np.float64` behave for symbolic arrays as they do for float64 arrays.
    float64 = _ShimFloat64
    double = _ShimFloat64

    def finfo(self, dtype=float):
        return np.finfo(np.float64 if dtype is _ShimFloat64 else dtype)

    def issubdtype(self, a, b):
        a = np.float64 if a is _ShimFloat64 else a
        b = np.float64 if b is _ShimFloat64 else b
        return np.issubdtype(a, b)

    # np.frexp / np.ldexp (power-of-two scaling). The exponent is concrete (decided on the concrete value and
    # logged as the two comparisons 2^(e-1) <= |x| < 2^e, so it is part of the path); ldexp by a concrete integer
    # is a multiplication by the constant 2^k.
    def _frexp1(self, x):
        if not isinstance(x, Sym):
            m, e = math.frexp(float(x))
            return m, e
        if x == 0:
            return x, 0
        e = 0
        v = abs(x.v)
        while v >= 1:
            v /= 2
            e += 1
        while v < Fraction(1, 2):
            v *= 2
            e -= 1
        two = Fraction(2)
        ax = abs(x)
        if not (ax >= self._t.const(two ** (e - 1))) or not (ax < self._t.const(two ** e)):
            raise TraceError("frexp: inconsistent exponent")
        return x * self._t.const(two ** (-e)), e

    def frexp(self, x, *a, **kw):
        if isinstance(x, Sym):
            return self._frexp1(x)
        arr = np.asarray(x)
        if arr.dtype != object:
            return np.frexp(x, *a, **kw)
        m = np.empty(arr.shape, dtype=object)
        e = np.empty(arr.shape, dtype=np.int64)
        fm, fe = m.reshape(-1), e.reshape(-1)
        for k, el in enumerate(arr.reshape(-1)):
            fm[k], fe[k] = self._frexp1(el)
        return m, e

    def ldexp(self, x, k, *a, **kw):
        arr = np.asarray(x)
        if not isinstance(x, Sym) and arr.dtype != object:
            return np.ldexp(x, k, *a, **kw)
        two = Fraction(2)
        karr = np.asarray(k)
        if karr.dtype == object:
            raise TraceError("ldexp with a symbolic exponent")
        if isinstance(x, Sym):
            return x * self._t.const(two ** int(k))
        xb, kb = np.broadcast_arrays(arr, karr)
        out = np.empty(xb.shape, dtype=object)
        fo = out.reshape(-1)
        for j, (el, kk) in enumerate(zip(xb.reshape(-1), kb.reshape(-1))):
            fo[j] = self._t.lift(el) * self._t.const(two ** int(kk))
        return out


@contextlib.contextmanager
def patched_numpy(tracer, prefixes=("polliwog", "vg")):
    """Swap the global `np` of every loaded polliwog / vg module for the shim (run time only)."""
    shim = NpShim(tracer)
    saved, consts = [], []
    for name, mod in list(sys.modules.items()):
        if mod is None or not any(name == p or name.startswith(p + ".") for p in prefixes):
            continue
        d = getattr(mod, "__dict__", None)
        if d is None:
            continue
        for k in ("np", "numpy"):
            if d.get(k) is np:
                saved.append((d, k))
                d[k] = shim
        # dtype constants captured at import time (`POSITION_DTYPE = np.float64` at module or class level) would bypass
        # the shim: `x.astype(POSITION_DTYPE)` on a symbolic array must keep the symbols, so they get the same proxy
        for k, v in list(d.items()):
            if v is np.float64 and k not in ("np", "numpy"):
                consts.append((mod, k, v))
                setattr(mod, k, _ShimFloat64)
            elif isinstance(v, type) and getattr(v, "__module__", None) == name:
                for ck, cv in list(vars(v).items()):
                    if cv is np.float64:
                        consts.append((v, ck, cv))
                        setattr(v, ck, _ShimFloat64)
    try:
        yield shim
    finally:
        for d, k in saved:
            d[k] = np
        for owner, k, v in consts:
            setattr(owner, k, v)


# ---------------------------------------------------------------------------------------------
# Symbolic array construction and result flattening
# ---------------------------------------------------------------------------------------------
def sym_array(tracer, prefix, values):
    """Object array shaped like `values`, filled with fresh variables <prefix><k> (concrete = values)."""
    vals = np.asarray(values, dtype=object)
    out = np.empty(vals.shape, dtype=object)
    fo = out.reshape(-1)
    for k, v in enumerate(vals.reshape(-1)):
        fo[k] = tracer.var("%s%d" % (prefix, k), v)
    return out


def flatten_result(tracer, res):
    """Returns (structure, exprs): structure is a JSON-able description with concrete parts inline and
    symbolic scalars replaced by {"e": k} where k indexes exprs (list of Sym)."""
    exprs = []

    def go(x):
        if x is None:
            return None
        if isinstance(x, Sym):
            exprs.append(x)
            return {"e": len(exprs) - 1}
        if isinstance(x, (bool, np.bool_)):
            return bool(x)
        if isinstance(x, (int, np.integer)):
            return int(x)
        if isinstance(x, (float, np.floating)):
            f = float(x)
            if math.isnan(f):
                return {"nan": True}
            exprs.append(tracer.const(f))
            return {"e": len(exprs) - 1}
        if isinstance(x, np.ndarray):
            if x.dtype == object:
                return {"shape": list(x.shape), "data": [go(e) for e in x.reshape(-1)]}
            if x.dtype.kind == "f":
                return {"shape": list(x.shape), "data": [go(float(e)) for e in x.reshape(-1)]}
            return {"shape": list(x.shape), "dtype": str(x.dtype), "data": [go(e.item()) for e in x.reshape(-1)]}
        if isinstance(x, (tuple, list)):
            return {"tuple": [go(e) for e in x]}
        raise TraceError("cannot flatten result of type %s" % type(x))

    return go(res), exprs


# ---------------------------------------------------------------------------------------------
# Gallina emission
# ---------------------------------------------------------------------------------------------
_BIN = {"add": "nadd", "sub": "nsub", "mul": "nmul", "div": "ndiv"}
_UN = {"neg": "nneg", "abs": "nabs", "sqrt": "nsqrt", "cos": "ncos", "sin": "nsin", "acos": "nacos"}
_CMP = {
    "lt": lambda a, b: ("nltb O %s %s" % (a, b)),
    "le": lambda a, b: ("nleb O %s %s" % (a, b)),
    "gt": lambda a, b: ("nltb O %s %s" % (b, a)),
    "ge": lambda a, b: ("nleb O %s %s" % (b, a)),
    "eq": lambda a, b: ("neqb O %s %s" % (a, b)),
    "ne": lambda a, b: ("negb (neqb O %s %s)" % (a, b)),
}


def _reachable(tracer, roots):
    seen = set()
    stack = list(roots)
    while stack:
        i = stack.pop()
        if i in seen:
            continue
        seen.add(i)
        node = tracer.nodes[i]
        if node[0] in _BIN:
            stack.extend(node[1:3])
        elif node[0] in _UN:
            stack.append(node[1])
    return seen


def _zname(i):
    return "z%d" % i


def _lets(tracer, needed):
    lines = []
    for i in sorted(needed):  # node ids are topologically ordered by construction
        node = tracer.nodes[i]
        op = node[0]
        if op == "var":
            continue
        if op == "const":
            n, d = node[1], node[2]
            rhs = ("nofZ O (%d)" % n) if d == 1 else ("nfrac O (%d) (%d)" % (n, d))
        elif op in _BIN:
            rhs = "%s O %s %s" % (_BIN[op], _ref(tracer, node[1]), _ref(tracer, node[2]))
        elif op in _UN:
            rhs = "%s O %s" % (_UN[op], _ref(tracer, node[1]))
        else:
            raise TraceError("unknown node " + op)
        lines.append("  let %s := %s in" % (_zname(i), rhs))
    return lines


def _ref(tracer, i):
    node = tracer.nodes[i]
    if node[0] == "var":
        return node[1]
    return _zname(i)


def emit_definition(tracer, name, exprs, with_path=True):
    """Gallina text: `<name>` : list F of the output expressions and `<name>_path` : Prop."""
    params = " ".join(tracer.vars)
    binder = ("(%s : F)" % params) if params else ""
    roots = [e.i for e in exprs]
    need = _reachable(tracer, roots)
    out = []
    out.append("Definition %s {F : Type} (O : NumOps F) %s : list F :=" % (name, binder))
    out.extend(_lets(tracer, need))
    out.append("  [%s]." % "; ".join(_ref(tracer, r) for r in roots))
    if with_path:
        # distinct predicates, in order of first occurrence
        seen, preds = set(), []
        for p in tracer.preds:
            if p not in seen:
                seen.add(p)
                preds.append(p)
        pneed = _reachable(tracer, [x for p in preds for x in p[1:3]])
        out.append("")
        out.append("Definition %s_path {F : Type} (O : NumOps F) %s : Prop :=" % (name, binder))
        out.extend(_lets(tracer, pneed))
        conj = ["%s = %s" % (_CMP[op](_ref(tracer, a), _ref(tracer, b)), "true" if r else "false")
                for (op, a, b, r) in preds]
        out.append("  " + " /\\ ".join(conj + ["True"]) + ".")
    return "\n".join(out) + "\n"


# ---------------------------------------------------------------------------------------------
# Float re-evaluation of a DAG (validates the object-dtype run against a plain float64 run)
# ---------------------------------------------------------------------------------------------
def eval_float(tracer, roots, env):
    """Evaluate node ids `roots` with variables bound to floats in env (name -> float)."""
    cache = {}
    need = _reachable(tracer, roots)
    for i in sorted(need):
        node = tracer.nodes[i]
        op = node[0]
        if op == "var":
            cache[i] = float(env[node[1]])
        elif op == "const":
            cache[i] = node[1] / node[2]
        elif op == "add":
            cache[i] = cache[node[1]] + cache[node[2]]
        elif op == "sub":
            cache[i] = cache[node[1]] - cache[node[2]]
        elif op == "mul":
            cache[i] = cache[node[1]] * cache[node[2]]
        elif op == "div":
            cache[i] = cache[node[1]] / cache[node[2]]
        elif op == "neg":
            cache[i] = -cache[node[1]]
        elif op == "abs":
            cache[i] = abs(cache[node[1]])
        elif op == "sqrt":
            cache[i] = math.sqrt(cache[node[1]])
        elif op == "cos":
            cache[i] = math.cos(cache[node[1]])
        elif op == "sin":
            cache[i] = math.sin(cache[node[1]])
        elif op == "acos":
            cache[i] = math.acos(cache[node[1]])
    return [cache[r] for r in roots]


def path_holds_float(tracer, env):
    ids = [x for p in tracer.preds for x in p[1:3]]
    if not ids:
        return True
    vals = dict(zip(ids, eval_float(tracer, ids, env)))
    for op, a, b, r in tracer.preds:
        x, y = vals[a], vals[b]
        got = {"lt": x < y, "le": x <= y, "gt": x > y, "ge": x >= y, "eq": x == y, "ne": x != y}[op]
        if got != r:
            return False
    return True
