#!/bin/bash
# Build the hand-written Coq library (offline, from files on disk only).
#   ./setup.sh                 build every file needed by a property claimed in MANIFEST.json (full .vo builds)
#   ./setup.sh --targets "a.vo b.vo"   what a check runs first: rebuild just what that property needs, if stale
cd "$(dirname "$0")/coq" || exit 1
{ echo "-Q . PW"; echo "-arg -w -arg -all"; find . -name '*.v' | sed 's|^\./||' | LC_ALL=C sort; } > _CoqProject.new
if ! cmp -s _CoqProject.new _CoqProject || [ ! -f Makefile ]; then
  mv _CoqProject.new _CoqProject
  coq_makefile -f _CoqProject -o Makefile > /dev/null || exit 1
else
  rm -f _CoqProject.new
fi
if [ "$1" = "--targets" ]; then
  timeout 3000 make -j12 COQC="timeout 900 coqc" $2 > .make.$$.log 2>&1; rc=$?
  [ $rc -ne 0 ] && tail -40 .make.$$.log
  rm -f .make.$$.log
  exit $rc
fi
# only what the claimed properties need is built here (work in progress for unclaimed properties is not)
claimed=$(/venv/bin/python -c "
import json
m = json.load(open('../MANIFEST.json'))
print(' '.join('props/%s.vo corr/K_%s.vo' % (c['property_id'], c['property_id']) for c in m['checks']))")
timeout 3000 make -j16 COQC="timeout 900 coqc" $claimed > .make.claimed.log 2>&1; rc=$?
[ $rc -ne 0 ] && tail -40 .make.claimed.log
cd ..
# jsonschema (for C19 only) from the offline wheelhouse into a /verif-local directory
if [ ! -d .deps/jsonschema ]; then
  /venv/bin/pip install --no-index --find-links /opt/veriftools/wheels --target .deps jsonschema > .deps.log 2>&1 || true
fi
[ $rc -eq 0 ] && echo "setup ok"
exit $rc
