#!/bin/bash
# Build the hand-written Coq library (offline, from files on disk only). `--lib-only` = same, used by checks
# to rebuild whatever is stale before they compile their per-run files.
set -e
cd "$(dirname "$0")/coq"
{ echo "-Q . PW"; echo "-arg -w -arg -all"; find . -name '*.v' | sed 's|^\./||' | LC_ALL=C sort; } > _CoqProject.new
if ! cmp -s _CoqProject.new _CoqProject || [ ! -f Makefile ]; then
  mv _CoqProject.new _CoqProject
  coq_makefile -f _CoqProject -o Makefile > /dev/null
else
  rm -f _CoqProject.new
fi
timeout 3000 make -j16 > .make.log 2>&1 || { tail -40 .make.log; exit 1; }
if [ "$1" != "--lib-only" ]; then
  cd ..
  # jsonschema (for C19 only) from the offline wheelhouse into a /verif-local directory
  if [ ! -d .deps/jsonschema ]; then
    /venv/bin/pip install --no-index --find-links /opt/veriftools/wheels --target .deps jsonschema > .deps.log 2>&1 || true
  fi
  echo "setup ok"
fi
